#!/bin/sh
# Run every mutant in mutants/ against the quick check of the property named by its file name prefix (cNN_...).
# Usage: tools/run_mutants.sh [pattern]      Output: one CAUGHT/MISSED line per mutant, summary at the end.
here="$(cd "$(dirname "$0")/.." && pwd)"
cd "$here" || exit 3
n=0; caught=0
for p in mutants/${1:-c}*.patch; do
    prop="$(basename "$p" | cut -c1-3 | tr c C)"
    n=$((n+1))
    out="$(SHOW=0 tools/mutation_run.sh "$p" "$prop" 2>&1 | tail -1)"
    echo "$out"
    case "$out" in CAUGHT*) caught=$((caught+1));; esac
done
echo "mutants: $caught caught of $n"
