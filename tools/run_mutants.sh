#!/bin/sh
# Run every mutant in mutants/ against the quick check of the property named by its file name prefix (cNN_...).
# Usage: tools/run_mutants.sh [pattern]      Output: one CAUGHT/MISSED line per mutant, summary at the end.
here="$(cd "$(dirname "$0")/.." && pwd)"
cd "$here" || exit 3
n=0; caught=0
res="$here/mutants/RESULTS.md"
{ echo "# Mutant catalogue - last run of tools/run_mutants.sh"; echo; echo "Repository HEAD: $(git -C /repo rev-parse --short HEAD); quick tier; $(date -u +%Y-%m-%dT%H:%MZ)"; echo; echo "| mutant | check | result |"; echo "|---|---|---|"; } > "$res.tmp"
for p in mutants/${1:-c}*.patch; do
    prop="$(basename "$p" | cut -c1-3 | tr c C)"
    n=$((n+1))
    out="$(SHOW=0 tools/mutation_run.sh "$p" "$prop" 2>&1 | tail -1)"
    echo "$out"
    echo "| $(basename "$p" .patch) | $prop | $(echo "$out" | cut -d' ' -f1) |" >> "$res.tmp"
    case "$out" in CAUGHT*) caught=$((caught+1));; esac
done
echo "mutants: $caught caught of $n"
{ echo; echo "$caught caught of $n"; } >> "$res.tmp"
[ -z "$1" ] && mv "$res.tmp" "$res" || rm -f "$res.tmp"
