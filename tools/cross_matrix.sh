#!/bin/sh
# tools/cross_matrix.sh <suffix-glob> [out]  -- for every seeded change matching seeded/C??<suffix>, run ALL 20 quick checks against it
# and write a matrix (which checks catch which change) to seeded/CROSS-<suffix>.md.  One scratch copy per seed, removed afterwards.
suf="$1"; here="$(cd "$(dirname "$0")/.." && pwd)"; out="${2:-$here/seeded/CROSS-$suf.md}"
cd "$here" || exit 3
{
echo "| seed | caught by (quick tier, all 20 checks run against the change) |"; echo "|---|---|"
for d in seeded/C??$suf/; do
    sid="$(basename "$d")"
    grep -q '"status": "neutralised"\|"status": "out_of_domain"' "$d/meta.json" && { echo "| $sid | neutralised / out of domain |"; continue; }
    scratch="$(mktemp -d /tmp/lasio-x-XXXXXX)"
    rsync -a --exclude .git --exclude __pycache__ --exclude .pytest_cache /repo/ "$scratch/"
    if ! (cd "$scratch" && patch -p1 -s --no-backup-if-mismatch < "$here/$d/patch.diff"); then echo "| $sid | PATCH-FAILED |"; rm -rf "$scratch"; continue; fi
    hits=""
    for n in 01 02 03 04 05 06 07 08 09 10 11 12 13 14 15 16 17 18 19 20; do
        VERIF_REPO="$scratch" nice -n 10 "$here/check" "C$n" --tier quick > "$scratch/.out" 2>&1; rc=$?
        if [ $rc -eq 1 ] && grep -q "^VIOLATION property=C$n" "$scratch/.out"; then hits="$hits C$n"; fi
        [ $rc -eq 2 ] && hits="$hits (C$n:inconclusive)"
    done
    echo "| $sid |$hits |"
    rm -rf "$scratch"
done
} > "$out"
echo "written $out"
