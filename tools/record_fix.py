#!/venv/bin/python
"""tools/record_fix.py <KF-id> <props,comma> <mechanism> <also,comma|-> <design-props> <record text> <design text> <mutant-name>
Commits nothing; appends a status=fixed entry to known_findings.json, a row to DESIGN 6.2 (bumping the count) and writes the
reverse patch of /repo HEAD as mutants/<mutant-name>.patch."""
import json, re, subprocess, sys
kid, props, mech, also, dprops, record, dtext, mut = sys.argv[1:9]
c = subprocess.run(["git", "-C", "/repo", "log", "--format=%h", "-1"], capture_output=True, text=True).stdout.strip()
p = "/verif/known_findings.json"
d = json.load(open(p))
e = {"id": kid, "properties": props.split(","), "status": "fixed", "commit": c, "mechanism": mech,
     "record": "fixed: property=%s %s %s" % (props.split(",")[0], c, record)}
if also != "-":
    e["also_mechanisms"] = also.split(",")
d["findings"].append(e)
json.dump(d, open(p, "w"), indent=1, ensure_ascii=False)
p = "/verif/DESIGN.md"
s = open(p).read()
m = re.search(r"### 6\.2 Defects repaired in /repo \((\d+) `fix:` commits", s)
n = int(m.group(1))
s = s.replace(m.group(0), m.group(0).replace("(%d `fix:`" % n, "(%d `fix:`" % (n + 1)), 1)
# append the row at the end of the 6.2 table: before the first blank line after the table header
i = s.index("### 6.2 Defects repaired")
j = s.index("\n\n", s.index("| commit | properties |", i))
s = s[:j] + "\n| %s | %s | %s |" % (c, dprops, dtext) + s[j:]
open(p, "w").write(s)
diff = subprocess.run(["git", "-C", "/repo", "diff", c, c + "~1"], capture_output=True, text=True).stdout
open("/verif/mutants/%s.patch" % mut, "w").write(diff)
print("recorded", kid, c)
