#!/bin/sh
# tools/seed_intake.sh <Cnn> [wt]   -- confirm a sub-agent's seeded change in its scratch worktree and file it under seeded/<id>/.
# Confirms: only lasio/ touched; demo passes without and fails with the change; pinned baseline still 254/254 with the change;
# then runs the property's quick check against the change (mutation_run.sh) and records everything in meta.json.
id="$1"; wt="${2:-/tmp/seed-$id}"; here="$(cd "$(dirname "$0")/.." && pwd)"; sid="${3:-$id}"
cd "$wt" || exit 3
git diff > /tmp/seed-$sid.patch
files="$(git diff --name-only | tr '\n' ' ')"
case "$files" in *tests/*|*docs/*) echo "REJECT: touches $files"; exit 1;; esac
[ -s /tmp/seed-$sid.patch ] || { echo "REJECT: empty diff"; exit 1; }
demo="$(ls demo_*.py | head -1)"
/venv/bin/python "$wt/$demo" >/tmp/seed-$sid.with.log 2>&1; with=$?
git apply -R /tmp/seed-$sid.patch; /venv/bin/python "$wt/$demo" >/tmp/seed-$sid.without.log 2>&1; without=$?; git apply /tmp/seed-$sid.patch
echo "demo: with change rc=$with, without rc=$without"
[ $with -ne 0 ] && [ $without -eq 0 ] || { echo "REJECT: demo does not discriminate"; exit 1; }
base="$(BASELINE_REPO="$wt" /venv/bin/python "$here/tools/baseline.py" 2>&1 | tail -1)"
echo "$base"
case "$base" in *"254/254"*) ;; *) echo "REJECT: baseline changed"; exit 1;; esac
mkdir -p "$here/seeded/$sid"
cp /tmp/seed-$sid.patch "$here/seeded/$sid/patch.diff"; cp "$wt/$demo" "$here/seeded/$sid/"; cp "$wt"/NOTE_*.md "$here/seeded/$sid/NOTE.md" 2>/dev/null
res="$(SHOW=3 "$here/tools/mutation_run.sh" "$here/seeded/$sid/patch.diff" "$id" 2>&1)"
echo "$res" | tail -4 | cut -c1-300
verdict="$(echo "$res" | tail -1 | cut -d' ' -f1)"
/venv/bin/python - "$here/seeded/$sid" "$id" "$files" "$with" "$without" "$base" "$verdict" <<'PY'
import json, sys, os, datetime
d, pid, files, w, wo, base, verdict = sys.argv[1:8]
note = open(os.path.join(d, "NOTE.md")).read() if os.path.exists(os.path.join(d, "NOTE.md")) else ""
meta = {"property": pid, "files_touched": files.split(), "needs_to_manifest": note.strip(),
        "confirmed": {"demo_rc_with_change": int(w), "demo_rc_without_change": int(wo), "baseline_with_change": base,
                      "commands": ["/venv/bin/python <worktree>/demo_%s.py (with and without the change via git stash)" % pid,
                                   "BASELINE_REPO=<worktree> /venv/bin/python tools/baseline.py",
                                   "tools/mutation_run.sh seeded/%s/patch.diff %s" % (os.path.basename(d), pid)]},
        "quick_check_verdict_at_intake": verdict, "written_by": "fresh sub-agent that saw only the property text",
        "repo_head_at_intake": os.popen("git -C /repo rev-parse --short HEAD").read().strip(),
        "intake_date": datetime.date.today().isoformat()}
json.dump(meta, open(os.path.join(d, "meta.json"), "w"), indent=1)
print("filed", d, verdict)
PY
