"""Regenerate /verif/MANIFEST.json from the monitor modules that exist (run with /venv/bin/python)."""
import importlib, json, os, sys
here = os.path.dirname(os.path.dirname(os.path.abspath(__file__)))
sys.path.insert(0, here)
props = [json.loads(l) for l in open(os.path.join(here, "properties.jsonl"))]
checks, na = [], []
for p in props:
    pid = p["id"]
    try:
        m = importlib.import_module("rv.monitors." + pid.lower())
    except ModuleNotFoundError:
        na.append({"property_id": pid, "reason": "monitor not built yet in this phase (designed in DESIGN.md section 5; runtime monitoring applies)"})
        continue
    if getattr(m, "NOT_CLAIMED", None):
        na.append({"property_id": pid, "reason": m.NOT_CLAIMED}); continue
    checks.append({
        "property_id": pid,
        "quick_cmd": "./check %s --tier quick" % pid,
        "thorough_cmd": "./check %s --tier thorough" % pid,
        "evidence_file": "/verif/evidence/%s.json" % pid,
        "replay_cmd_template": "./check %s --replay {path}" % pid,
        "engine": "rv",
        "level_claimed": {"category": m.LEVEL, "text": m.LEVEL_TEXT, "design_ref": "DESIGN.md section 5, %s" % pid},
        "level_note": m.LEVEL_NOTE,
        "technique": m.TECHNIQUE,
    })
man = {
    "version": 1,
    "setup_cmd": "./setup.sh",
    "hooks": {
        "guard": "LASIO_VERIF",
        "enable": "no source hooks are needed: monitors attach from the harness (wrappers, icontract contracts, sys.monitoring, open() proxy); checks import lasio from /repo's working tree in fresh interpreters with LASIO_VERIF=1 set",
        "baseline_off_cmd": "cd /repo && env -u LASIO_VERIF /venv/bin/python -m pytest -ra -q -p no:cacheprovider --timeout=900 --continue-on-collection-errors",
        "source_commits": [],
        "add_only": True,
    },
    "engines": [{"name": "rv", "path": "/verif/rv", "serves_properties": [c["property_id"] for c in checks],
                 "kind_free_text": "runtime monitoring: generated/hostile/fault-injected workloads on the real lasio, observed by reference-model monitors, icontract contracts, sys.monitoring probes and an I/O fault proxy"}],
    "checks": checks,
    "not_applicable": na,
    "notes": "Exit codes: 0 held on everything observed, 1 violation (VIOLATION line + replay file), 2 inconclusive (deciding monitor never reached / watchdog). known_findings.json lists recorded and fixed defects by mechanism.",
}
json.dump(man, open(os.path.join(here, "MANIFEST.json"), "w"), indent=1)
print("checks:", [c["property_id"] for c in checks], "n/a:", [n["property_id"] for n in na])
