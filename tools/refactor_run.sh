#!/bin/sh
# tools/refactor_run.sh <patch> [tier]   -- specificity test: a behaviour-preserving refactoring must raise no alarm.
# Copies /repo's working tree to a scratch directory, applies the patch, runs ALL checks against the copy
# (VERIF_REPO), restores the evidence files, removes the copy.  Prints one line per check and
# QUIET (every check rc 0), INCONCLUSIVE (some rc 2, none rc 1) or ALARM (some rc 1).
patch="$(readlink -f "$1")"; tier="${2:-quick}"
here="$(cd "$(dirname "$0")/.." && pwd)"
scratch="$(mktemp -d /tmp/lasio-ref-XXXXXX)"
trap 'rm -rf "$scratch"' EXIT
rsync -a --exclude .git --exclude __pycache__ --exclude .pytest_cache /repo/ "$scratch/"
if ! (cd "$scratch" && patch -p1 -s --no-backup-if-mismatch < "$patch"); then
    echo "PATCH-FAILED $patch"; exit 3
fi
mkdir "$scratch/.ev"; cp "$here"/evidence/*.json "$scratch/.ev/" 2>/dev/null
worst=0
for n in 01 02 03 04 05 06 07 08 09 10 11 12 13 14 15 16 17 18 19 20; do
    VERIF_REPO="$scratch" "$here/check" "C$n" --tier "$tier" > "$scratch/.out" 2>&1
    rc=$?
    new="$(grep -E "^  mechanism:" "$scratch/.out" | head -3 | tr '\n' ';' | cut -c1-300)"
    echo "C$n rc=$rc $(tail -1 "$scratch/.out" | cut -c1-160) $([ $rc -ne 0 ] && echo "$new")"
    [ $rc -eq 1 ] && worst=1
    [ $rc -eq 2 ] && [ $worst -eq 0 ] && worst=2
done
cp "$scratch"/.ev/*.json "$here/evidence/" 2>/dev/null
case $worst in 0) echo "QUIET $(basename "$patch")";; 2) echo "INCONCLUSIVE $(basename "$patch")";; 1) echo "ALARM $(basename "$patch")";; esac
exit $worst
