#!/bin/sh
# Run every seeded change (seeded/<id>/patch.diff) against its property's quick check; update meta.json with the current verdict.
here="$(cd "$(dirname "$0")/.." && pwd)"; cd "$here" || exit 3
for d in seeded/*/; do
    sid="$(basename "$d")"; prop="$(/venv/bin/python -c "import json;print(json.load(open('$d/meta.json'))['property'])")"
    if grep -q '"status": "neutralised"' "$d/meta.json"; then echo "$sid $prop NEUTRALISED (see meta.json)"; continue; fi
    if grep -q '"status": "out_of_domain"' "$d/meta.json"; then echo "$sid $prop OUT-OF-DOMAIN (see meta.json)"; continue; fi
    out="$(SHOW=2 tools/mutation_run.sh "$d/patch.diff" "$prop" 2>&1)"
    verdict="$(echo "$out" | tail -1 | cut -d' ' -f1)"
    mech="$(echo "$out" | grep -m1 'mechanism:' | sed 's/^ *mechanism: *//' | cut -c1-120)"
    echo "$sid $prop $verdict $mech"
    /venv/bin/python - "$d/meta.json" "$verdict" "$mech" <<'PY'
import json, sys
p, v, m = sys.argv[1:4]
d = json.load(open(p)); d["quick_check_verdict_now"] = v; d["first_mechanism_reported"] = m
json.dump(d, open(p, "w"), indent=1)
PY
done
