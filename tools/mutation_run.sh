#!/bin/sh
# tools/mutation_run.sh <patch> <Cnn> [tier]   -- sensitivity test of one check against one mutant.
# Copies /repo's working tree (no .git) to a scratch directory outside /repo and /verif, applies the
# patch there, runs the check with VERIF_REPO=<scratch>, removes the copy.  Prints CAUGHT / MISSED.
# The evidence file written by such a run describes the mutant, so the previous one is restored.
patch="$(readlink -f "$1")"; prop="$2"; tier="${3:-quick}"
here="$(cd "$(dirname "$0")/.." && pwd)"
scratch="$(mktemp -d /tmp/lasio-mut-XXXXXX)"
trap 'rm -rf "$scratch"' EXIT
rsync -a --exclude .git --exclude __pycache__ --exclude .pytest_cache /repo/ "$scratch/"
if ! (cd "$scratch" && patch -p1 -s --no-backup-if-mismatch < "$patch"); then
    echo "PATCH-FAILED $patch"; exit 3
fi
ev="$here/evidence/$prop.json"; bak=""
if [ -f "$ev" ]; then bak="$scratch/.evidence.bak"; cp "$ev" "$bak"; fi
if [ -n "$RUN_TESTS" ]; then
    (cd "$scratch" && /venv/bin/python -m pytest -q -p no:cacheprovider -x -q $RUN_TESTS >"$scratch/.tests.log" 2>&1) \
        && echo "TESTS-PASS" || { echo "TESTS-FAIL"; tail -5 "$scratch/.tests.log"; }
fi
VERIF_REPO="$scratch" "$here/check" "$prop" --tier "$tier" > "$scratch/.out" 2>&1
rc=$?
[ -n "$bak" ] && cp "$bak" "$ev"
grep -E "^VIOLATION|mechanism:|witness:" "$scratch/.out" | head -${SHOW:-8}
tail -1 "$scratch/.out"
if [ $rc -eq 1 ] && grep -q "^VIOLATION property=$prop" "$scratch/.out"; then echo "CAUGHT $prop $(basename "$patch")"; exit 0; fi
echo "MISSED $prop $(basename "$patch") rc=$rc"; exit 1
