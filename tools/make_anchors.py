"""Resolve properties.jsonl anchors (file:line ranges at the pinned commit) to function qualnames,
so that the run-time probe is independent of later line shifts.  Run once; output committed."""
import ast, json, re, sys
REPO = sys.argv[1] if len(sys.argv) > 1 else "/repo"
funcs = {}
def index(fn):
    if fn in funcs: return funcs[fn]
    tree = ast.parse(open(f"{REPO}/{fn}").read())
    out = []
    def walk(node, prefix):
        for ch in ast.iter_child_nodes(node):
            if isinstance(ch, (ast.FunctionDef, ast.AsyncFunctionDef)):
                q = prefix + ch.name
                out.append((q, ch.lineno, ch.end_lineno))
                walk(ch, q + ".<locals>.")
            elif isinstance(ch, ast.ClassDef):
                walk(ch, prefix + ch.name + ".")
            else:
                walk(ch, prefix)
    walk(tree, "")
    funcs[fn] = out
    return out
res = {}
for l in open("/verif/properties.jsonl"):
    p = json.loads(l)
    mechs = []
    for m in p["anchors"]["mechanism"]:
        where = m.get("where", "")
        cur = None; spans = []
        for tok in re.findall(r"lasio/\w+\.py|\d+(?:-\d+)?", where):
            if tok.startswith("lasio/"): cur = tok; continue
            if cur is None: continue
            a, _, b = tok.partition("-"); a = int(a); b = int(b or a)
            spans.append((cur, a, b))
        targets = []
        for fn, a, b in spans:
            hit = [(q, s, e) for q, s, e in index(fn) if s <= b and e >= a]
            # innermost functions only
            inner = [h for h in hit if not any(o is not h and o[1] >= h[1] and o[2] <= h[2] and (o[1], o[2]) != (h[1], h[2]) and o[1] <= b and o[2] >= a and h[1] < a and False for o in hit)]
            if not hit:
                targets.append({"file": fn, "qualname": "<module>", "rel": [a, b]})
            for q, s, e in hit:
                targets.append({"file": fn, "qualname": q, "rel": [max(a, s) - s, min(b, e) - s]})
        mechs.append({"name": m["name"], "where": where, "targets": targets})
    res[p["id"]] = mechs
json.dump(res, open("/verif/rv/anchors.json", "w"), indent=1)
for k, v in res.items():
    print(k, [(t["qualname"]) for m in v for t in m["targets"]])
