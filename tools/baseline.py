"""Run the repository's pinned baseline (guard OFF) and compare with /root/.vp/BASELINE.json."""
import json, os, subprocess, sys, tempfile, xml.etree.ElementTree as ET
base = json.load(open("/root/.vp/BASELINE.json"))
out = tempfile.mktemp(suffix=".xml", prefix="lasio-baseline-")
env = dict(os.environ); env.pop("LASIO_VERIF", None)
cmd = base["cmd"].replace("<file>", out)
if os.environ.get("BASELINE_REPO"):
    cmd = cmd.replace("cd /repo", "cd " + os.environ["BASELINE_REPO"])
extra = " ".join(sys.argv[1:])
p = subprocess.run(cmd + (" -n 8" if "--par" in extra else ""), shell=True, env=env, capture_output=True, text=True)
passed = set()
for tc in ET.parse(out).getroot().iter("testcase"):
    if not any(ch.tag in ("failure", "error", "skipped") for ch in tc):
        passed.add("%s::%s" % (tc.get("classname"), tc.get("name")))
os.unlink(out)
missing = [t for t in base["stable_pass"] if t not in passed]
print("baseline: %d/%d stable tests pass; missing: %s" % (len(base["stable_pass"]) - len(missing), len(base["stable_pass"]), missing))
sys.exit(1 if missing else 0)
