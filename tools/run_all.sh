#!/bin/sh
# tools/run_all.sh [tier]  -- run every registered check on /repo's working tree, one line per check.
here="$(cd "$(dirname "$0")/.." && pwd)"; cd "$here" || exit 3
tier="${1:-quick}"; rc_all=0
for i in 01 02 03 04 05 06 07 08 09 10 11 12 13 14 15 16 17 18 19 20; do
    out="$(./check C$i --tier "$tier" 2>&1)"; rc=$?
    echo "rc=$rc $(echo "$out" | grep -E "^C$i (RUN|REPLAY)")"
    echo "$out" | grep -E "^(VIOLATION|INCONCLUSIVE|KNOWN-FINDING|INFO)" | cut -c1-160
    [ $rc -ne 0 ] && rc_all=1
done
exit $rc_all
