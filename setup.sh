#!/bin/sh
# Offline, idempotent: put icontract + deal beside the repository's interpreter (/venv/bin/python)
# in the git-ignored /verif/.deps.  Nothing is fetched from a package index.
set -e
cd "$(dirname "$0")"
if [ ! -d .deps/icontract ] || [ ! -d .deps/deal ]; then
    rm -rf .deps
    PIP_NO_INDEX=1 /venv/bin/pip install --quiet --no-index --find-links /opt/veriftools/wheels \
        --target .deps icontract deal >/dev/null 2>&1 || {
        echo "setup: could not install icontract/deal from /opt/veriftools/wheels" >&2; exit 3; }
fi
mkdir -p .cache replays evidence
exit 0
