"""sys.monitoring probe (DESIGN §3.3): which lasio functions were reached, anchor-line coverage,
per-call function traces for selected functions, and source-free failpoints.

Everything works on code objects found by walking the imported lasio package, so it is
independent of how call sites bind names.  Reach/coverage callbacks return DISABLE after the
first hit, so their cost is negligible; tracing/failpoints use a second tool id."""
import json
import os
import sys
import types

mon = sys.monitoring
TOOL_REACH = 3
TOOL_TRACE = 4


def _walk_code(code, out):
    out.append(code)
    for c in code.co_consts:
        if isinstance(c, types.CodeType):
            _walk_code(c, out)


def lasio_code_objects(lasio):
    """{code: (file basename, qualname)} for every function of every loaded lasio module."""
    pkgdir = os.path.dirname(os.path.abspath(lasio.__file__))
    seen, res = set(), {}

    def add_func(f):
        code = getattr(f, "__code__", None)
        if code is None or id(code) in seen:
            return
        if not os.path.abspath(code.co_filename).startswith(pkgdir):
            return
        lst = []
        _walk_code(code, lst)
        for c in lst:
            if id(c) not in seen:
                seen.add(id(c))
                res[c] = (os.path.basename(c.co_filename), c.co_qualname)

    for name, m in list(sys.modules.items()):
        if not (name == "lasio" or name.startswith("lasio.")) or m is None:
            continue
        for v in list(vars(m).values()):
            if isinstance(v, types.FunctionType):
                add_func(v)
            elif isinstance(v, type) and getattr(v, "__module__", "").startswith("lasio"):
                for w in list(vars(v).values()):
                    if isinstance(w, (staticmethod, classmethod)):
                        w = w.__func__
                    if isinstance(w, property):
                        for g in (w.fget, w.fset, w.fdel):
                            if g is not None:
                                add_func(g)
                    elif isinstance(w, types.FunctionType):
                        add_func(w)
    return res


class Probe:
    def __init__(self, lasio, prop):
        self.codes = lasio_code_objects(lasio)
        self.by_name = {}
        for c, (fn, q) in self.codes.items():
            self.by_name.setdefault((fn, q), []).append(c)
        self.reached = set()
        self.lines = set()
        self.prop = prop
        self.anchors = []
        try:
            with open(os.path.join(os.path.dirname(__file__), "anchors.json")) as f:
                self.anchors = json.load(f).get(prop, [])
        except Exception:
            self.anchors = []
        self.anchor_codes = set()
        for m in self.anchors:
            for t in m["targets"]:
                for c in self.by_name.get((os.path.basename(t["file"]), t["qualname"]), []):
                    self.anchor_codes.add(c)
        # trace state
        self.trace_events = []
        self._traced = set()
        self.failpoint = None   # callable(code, line) -> exception or None
        self._started = False

    # ---- reach + anchor coverage ---------------------------------------------------------
    def start(self):
        try:
            mon.use_tool_id(TOOL_REACH, "rv-reach")
        except ValueError:
            return
        self._started = True
        E = mon.events

        def on_start(code, off):
            self.reached.add(self.codes.get(code, ("?", code.co_qualname)))
            return mon.DISABLE

        def on_line(code, line):
            self.lines.add((os.path.basename(code.co_filename), code.co_qualname, line))
            return mon.DISABLE

        mon.register_callback(TOOL_REACH, E.PY_START, on_start)
        mon.register_callback(TOOL_REACH, E.LINE, on_line)
        for c in self.codes:
            ev = E.PY_START
            if c in self.anchor_codes:
                ev |= E.LINE
            mon.set_local_events(TOOL_REACH, c, ev)

    def stop(self):
        if self._started:
            try:
                for c in self.codes:
                    mon.set_local_events(TOOL_REACH, c, 0)
                mon.free_tool_id(TOOL_REACH)
            except Exception:
                pass
            self._started = False
        self.untrace()

    # ---- per-call function traces (C02 engine attribution) and failpoints (C20) ------------------
    def trace(self, names, lines=False):
        """Record ('start'|'return'|'unwind', qualname) for the named functions (file, qualname)."""
        E = mon.events
        try:
            mon.use_tool_id(TOOL_TRACE, "rv-trace")
        except ValueError:
            pass
        want = set()
        for n in names:
            for c in self.by_name.get(n, []):
                want.add(c)
        self._traced = want
        ev = self.trace_events

        def on_start(code, off):
            if code in want:
                ev.append(("start", code.co_qualname))

        def on_return(code, off, retval):
            if code in want:
                ev.append(("return", code.co_qualname))

        def on_unwind(code, off, exc):
            if code in want:
                ev.append(("unwind", code.co_qualname))

        def on_line(code, line):
            fp = self.failpoint
            if fp is not None and code in want:
                exc = fp(code, line)
                if exc is not None:
                    raise exc

        mon.register_callback(TOOL_TRACE, E.PY_START, on_start)
        mon.register_callback(TOOL_TRACE, E.PY_RETURN, on_return)
        mon.register_callback(TOOL_TRACE, E.PY_UNWIND, on_unwind)
        if lines:
            mon.register_callback(TOOL_TRACE, E.LINE, on_line)
        for c in want:
            mon.set_local_events(TOOL_TRACE, c, E.PY_START | E.PY_RETURN | (E.LINE if lines else 0))
        mon.set_events(TOOL_TRACE, E.PY_UNWIND)
        return len(want)

    def untrace(self):
        if self._traced:
            try:
                for c in self._traced:
                    mon.set_local_events(TOOL_TRACE, c, 0)
                mon.set_events(TOOL_TRACE, 0)
                mon.free_tool_id(TOOL_TRACE)
            except Exception:
                pass
            self._traced = set()

    # ---- report ---------------------------------------------------------------------------
    def report(self):
        per_mech = []
        for m in self.anchors:
            sel_all = []
            fn_reached = []
            for t in m["targets"]:
                key = (os.path.basename(t["file"]), t["qualname"])
                for c in self.by_name.get(key, []):
                    lines = sorted({l for (_, _, l) in c.co_lines() if l is not None})
                    if not lines:
                        continue
                    lo = c.co_firstlineno + t["rel"][0]
                    hi = c.co_firstlineno + t["rel"][1]
                    sel = [l for l in lines if lo <= l <= hi] or lines
                    sel_all += [[key[0], c.co_qualname, l] for l in sel]
                if key in self.reached:
                    fn_reached.append(t["qualname"])
            per_mech.append({"mechanism": m["name"], "sel": sel_all,
                             "functions_reached": sorted(set(fn_reached))})
        return {"functions_reached": sorted("%s:%s" % r for r in self.reached),
                "anchor_coverage": per_mech,
                "lines_hit": sorted(list(x) for x in self.lines)}
