"""Canonical, NaN-/type-aware snapshots of lasio objects (used by most oracles).

Snapshots are plain JSON-able Python data; two snapshots are compared with ``==`` or with
:func:`diff`, which returns a list of human-readable differences."""
import math

import numpy as np


def cval(v, numeric=False):
    """Canonical header value.  Numbers -> ('num', float) or ('int', int) ; NaN -> ('nan',) ;
    strings -> ('str', s) ; None -> ('none',).  With numeric=True ints and floats are folded to
    ('num', float) so that they are 'compared numerically'."""
    if isinstance(v, (bool, np.bool_)):
        return ("bool", bool(v))
    if isinstance(v, (int, np.integer)):
        return ("num", float(int(v))) if numeric else ("int", int(v))
    if isinstance(v, (float, np.floating)):
        f = float(v)
        if math.isnan(f):
            return ("nan",)
        return ("num", f)
    if v is None:
        return ("none",)
    if isinstance(v, bytes):
        return ("bytes", v.decode("latin-1"))
    if isinstance(v, str):
        return ("str", v)
    return ("obj", type(v).__name__, repr(v))


def citem(item, numeric=False, session=True):
    d = {
        "original": item.original_mnemonic,
        "unit": item.unit,
        "value": cval(item.value, numeric),
        "descr": item.descr,
    }
    if session:
        d["mnemonic"] = item.mnemonic
    return d


def carray(a):
    """Canonical array: dtype kind, shape and either the raw float bits or the list of strings."""
    a = np.asarray(a)
    if a.dtype.kind == "f":
        a64 = np.ascontiguousarray(a, dtype=np.float64)
        bits = a64.view(np.int64).copy()
        # all NaNs are one value for every oracle except C02's (which looks at masks separately)
        bits[np.isnan(a64)] = -1
        return {"kind": "f", "dtype": str(a.dtype), "shape": list(a.shape), "bits": bits.tolist()}
    if a.dtype.kind in "iu":
        return {"kind": "i", "dtype": str(a.dtype), "shape": list(a.shape), "vals": a.tolist()}
    return {"kind": a.dtype.kind, "dtype": "str" if a.dtype.kind in "UOST" else str(a.dtype),
            "shape": list(a.shape), "vals": [str(x) for x in a.tolist()]}


def csection(sec, numeric=False, session=True):
    if isinstance(sec, str):
        return {"text": sec}
    return {"items": [citem(i, numeric, session) for i in sec],
            "transforms": bool(getattr(sec, "mnemonic_transforms", False))}


def clas(las, numeric=False, data=True, session=True):
    out = {"sections": {k: csection(v, numeric, session) for k, v in las.sections.items()},
           "section_order": list(las.sections.keys())}
    if data:
        out["curves"] = [carray(c.data) for c in las.curves]
    out["index_unit"] = las.index_unit
    return out


def diff(a, b, path="", out=None, limit=12):
    """List of differences between two snapshots."""
    if out is None:
        out = []
    if len(out) >= limit:
        return out
    if isinstance(a, dict) and isinstance(b, dict):
        for k in list(a.keys()) + [k for k in b.keys() if k not in a]:
            if k not in a:
                out.append("%s/%s: missing on the left, right=%r" % (path, k, _short(b[k])))
            elif k not in b:
                out.append("%s/%s: missing on the right, left=%r" % (path, k, _short(a[k])))
            else:
                diff(a[k], b[k], "%s/%s" % (path, k), out, limit)
        return out
    if isinstance(a, (list, tuple)) and isinstance(b, (list, tuple)):
        if len(a) != len(b):
            out.append("%s: length %d != %d (%r vs %r)" % (path, len(a), len(b), _short(a), _short(b)))
            return out
        for i, (x, y) in enumerate(zip(a, b)):
            diff(x, y, "%s[%d]" % (path, i), out, limit)
        return out
    if a != b:
        out.append("%s: %r != %r" % (path, _short(a), _short(b)))
    return out


def _short(x, n=160):
    s = repr(x)
    return s if len(s) <= n else s[:n] + "..."


def arrays_equal(a, b):
    """NaN-aware equality of two arrays incl. dtype kind and shape (value equality for floats)."""
    a, b = np.asarray(a), np.asarray(b)
    if a.shape != b.shape:
        return False
    if a.dtype.kind == "f" and b.dtype.kind == "f":
        return bool(np.array_equal(a, b, equal_nan=True))
    if a.dtype.kind != b.dtype.kind and not (a.dtype.kind in "UOST" and b.dtype.kind in "UOST"):
        return False
    return [str(x) for x in a.tolist()] == [str(x) for x in b.tolist()]
