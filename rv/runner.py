"""./check <Cnn> [--tier quick|thorough] [--seed N] [--replay FILE]

Shards the property's workload over worker subprocesses (each a fresh interpreter importing lasio
from the repository's working tree), merges what the monitors observed, matches violations
against known_findings.json by mechanism, writes evidence/<id>.json and replay files, and exits
0 (held on everything observed) / 1 (violation) / 2 (inconclusive)."""
import argparse
import importlib
import json
import os
import shutil
import subprocess
import sys
import time

from rv import env
from rv.ctx import digest, clip

VERIF = env.VERIF


def load_known():
    p = os.path.join(VERIF, "known_findings.json")
    if not os.path.exists(p):
        return []
    with open(p) as f:
        return json.load(f).get("findings", [])


def main(argv=None):
    ap = argparse.ArgumentParser(prog="check")
    ap.add_argument("prop")
    ap.add_argument("--tier", default=os.environ.get("VERIF_TIER") or "quick",
                    choices=["quick", "thorough"])
    ap.add_argument("--seed", type=int, default=None)
    ap.add_argument("--replay", default=None)
    ap.add_argument("--workers", type=int, default=None)
    a = ap.parse_args(argv)
    prop = a.prop.upper()
    seed = a.seed
    if seed is None:
        try:
            seed = int(os.environ.get("VERIF_SEED", "0") or 0)
        except ValueError:
            seed = 0
    mod = importlib.import_module("rv.monitors." + prop.lower())
    t0 = time.time()

    ncpu = os.cpu_count() or 4
    nshards = a.workers or getattr(mod, "WORKERS", {}).get(a.tier) or min(16, ncpu)
    if a.replay:
        nshards = 1
    soft = getattr(mod, "SOFT_DEADLINE", {}).get(a.tier, 75 if a.tier == "quick" else 900)
    hard = soft * 2 + 120

    scratch = os.path.join(VERIF, ".cache", "run-%s-%d" % (prop, os.getpid()))
    shutil.rmtree(scratch, ignore_errors=True)
    os.makedirs(scratch, exist_ok=True)
    procs = []
    envp = dict(os.environ)
    envp["PYTHONHASHSEED"] = "0"
    envp["PYTHONDONTWRITEBYTECODE"] = "1"
    envp[env.GUARD] = "1"
    for s in range(nshards):
        out = os.path.join(scratch, "shard%d.json" % s)
        cmd = [sys.executable, "-X", "faulthandler", "-m", "rv.worker", "--prop", prop,
               "--tier", a.tier, "--seed", str(seed), "--shard", str(s), "--nshards", str(nshards),
               "--out", out, "--scratch", os.path.join(scratch, "w%d" % s),
               "--soft-deadline", str(soft), "--hard-deadline", str(hard)]
        if a.replay:
            cmd += ["--replay", os.path.abspath(a.replay)]
        log = open(os.path.join(scratch, "shard%d.log" % s), "w")
        procs.append((s, out, subprocess.Popen(cmd, cwd=VERIF, env=envp, stdout=log,
                                               stderr=subprocess.STDOUT), log))
    results, failed = [], []
    for s, out, p, log in procs:
        try:
            p.wait(timeout=max(5, hard + 60 - (time.time() - t0)))
        except subprocess.TimeoutExpired:
            p.kill()
            p.wait()
        log.close()
        if os.path.exists(out):
            with open(out) as f:
                results.append(json.load(f))
        else:
            with open(os.path.join(scratch, "shard%d.log" % s)) as f:
                failed.append({"shard": s, "rc": p.returncode, "log_tail": f.read()[-1500:]})

    # ---- merge -------------------------------------------------------------------------------
    counters, viol_counts = {}, {}
    sigs, allsigs, sets = set(), set(), {}
    samples, violations = [], []
    evaluations, truncated = 0, False
    reached, lines_hit, anchor_cov = set(), set(), None
    for r in results:
        evaluations += r["evaluations"]
        truncated = truncated or r.get("truncated", False)
        for k, v in r["counters"].items():
            counters[k] = counters.get(k, 0) + v
        for k, v in r["viol_counts"].items():
            viol_counts[k] = viol_counts.get(k, 0) + v
        sigs.update(r["sigs"])
        allsigs.update(r.get("allsigs") or [])
        for k, v in r["sets"].items():
            sets.setdefault(k, set()).update(v)
        for smp in r["samples"]:
            if len(samples) < 6:
                samples.append(smp)
        violations += r["violations"]
        pr = r.get("probe", {})
        reached.update(pr.get("functions_reached", []))
        lines_hit.update(tuple(x) for x in pr.get("lines_hit", []))
        if anchor_cov is None and pr.get("anchor_coverage") is not None:
            anchor_cov = pr["anchor_coverage"]
    anchors_out = []
    for m in anchor_cov or []:
        sel = {tuple(x) for x in m["sel"]}
        anchors_out.append({"mechanism": m["mechanism"], "anchor_lines_total": len(sel),
                            "anchor_lines_hit": len(sel & lines_hit)})

    # ---- classify violations against the committed known findings ------------------------------
    known = [k for k in load_known() if prop in k.get("properties", [k.get("property")])]
    open_by_mech = {}
    for k in known:
        if k.get("status") == "open":
            for m in [k["mechanism"]] + list(k.get("also_mechanisms", [])):
                open_by_mech[m] = k
    by_mech = {}
    for v in violations:
        by_mech.setdefault(v["mechanism"], []).append(v)
    lines_out, new_mechs, known_seen = [], [], []
    os.makedirs(os.path.join(VERIF, "replays"), exist_ok=True)
    state = env.repo_state()
    for mech in sorted(viol_counts):
        wit = by_mech.get(mech, [None])[0]
        if mech in open_by_mech:
            known_seen.append(mech)
            continue
        new_mechs.append(mech)
        rp = os.path.join(VERIF, "replays", "%s-%s.json" % (prop, digest(mech + repr(seed))))
        with open(rp, "w") as f:
            json.dump({"property": prop, "tier": a.tier, "seed": seed, "mechanism": mech,
                       "observations": viol_counts[mech],
                       "message": wit and wit["message"], "detail": wit and wit["detail"],
                       "case": wit and wit["case"], "case_index": wit and wit["case_index"],
                       "repo_state": state,
                       "replay_cmd": "./check %s --replay %s" % (prop, rp)}, f, indent=1,
                      default=repr)
        lines_out.append("VIOLATION property=%s replay=%s" % (prop, rp))
        print("  mechanism: %s  (%d observations)" % (mech, viol_counts[mech]))
        if wit:
            print("  witness:   %s" % str(wit["message"])[:600])
    printed = set()
    for mech in known_seen:
        k = open_by_mech[mech]
        if k["id"] in printed:
            continue
        printed.add(k["id"])
        mechs = [m for m in known_seen if open_by_mech[m]["id"] == k["id"]]
        print("KNOWN-FINDING: property=%s %s [%s; %s; %d observations]" % (
            prop, k["what_fails"], k["id"], ", ".join(mechs), sum(viol_counts[m] for m in mechs)))
    for k in known:
        if k.get("status") == "open" and not a.replay and not any(
                m in known_seen for m in [k["mechanism"]] + list(k.get("also_mechanisms", []))):
            print("INFO: open finding %s was not reproduced in this run (it suppresses nothing)"
                  % k["id"])

    # ---- inconclusive? ------------------------------------------------------------------------
    inconclusive = []
    if failed:
        inconclusive.append("%d shard(s) produced no result (watchdog/crash): %s" % (
            len(failed), clip(failed, 300)))
    if not a.replay:
        if evaluations == 0:
            inconclusive.append("no case was evaluated")
        for name in getattr(mod, "REQUIRED", []):
            if isinstance(name, dict):
                name = name.get(a.tier)
            if name and counters.get(name, 0) == 0:
                inconclusive.append("deciding monitor/reach counter '%s' is zero" % name)
        if hasattr(mod, "verdict_extra"):
            inconclusive += list(mod.verdict_extra(counters, sets, a.tier) or [])

    # ---- evidence -----------------------------------------------------------------------------
    wall = time.time() - t0
    if not a.replay:
        level = getattr(mod, "LEVEL", "exploration")
        cov = {
            "evaluations": evaluations,
            "distinct_nontrivial": len(sigs),
            "rule": getattr(mod, "RULE", ""),
            "samples": samples,
            "distinct_case_signatures": len(allsigs) or None,
            "events_observed": {k: v for k, v in sorted(counters.items())},
            "observed_sets": {k: sorted(v)[:60] for k, v in sorted(sets.items())},
            "functions_reached": sorted(reached),
            "anchor_coverage": anchors_out,
            "violating_observations_by_mechanism": viol_counts,
            "known_findings_observed": known_seen,
            "new_mechanisms": new_mechs,
            "inconclusive_reasons": inconclusive,
            "random_phase_truncated_by_deadline": truncated,
            "workers": nshards,
            "repo_state": state,
            "verdict": "violated" if new_mechs else ("inconclusive" if inconclusive else "held"),
        }
        if getattr(mod, "EXHAUSTIVE", None):
            cov["exhaustive_subspaces"] = mod.EXHAUSTIVE.get(a.tier, mod.EXHAUSTIVE) \
                if isinstance(mod.EXHAUSTIVE, dict) else mod.EXHAUSTIVE
        ev = {"property_id": prop, "tier": a.tier, "seed": seed, "level": level,
              "coverage": cov, "assumptions": getattr(mod, "ASSUMPTIONS", []),
              "wall_s": round(wall, 2), "violations": len(new_mechs)}
        # evidence describes /repo itself: a run against a scratch copy (VERIF_REPO, mutation/refactoring tests) writes none
        evdir = os.environ.get("VERIF_EVIDENCE_DIR") or (os.path.join(VERIF, "evidence") if os.path.abspath(env.REPO) == "/repo" else None)
        if evdir:
            os.makedirs(evdir, exist_ok=True)
            tmp = os.path.join(evdir, prop + ".json.tmp")
            with open(tmp, "w") as f:
                json.dump(ev, f, indent=1, default=repr)
            os.replace(tmp, os.path.join(evdir, prop + ".json"))

    shutil.rmtree(scratch, ignore_errors=True)
    for ln in lines_out:
        print(ln)
    print("%s %s tier=%s seed=%d: %d evaluations, %d distinct non-trivial, %d violating "
          "observations (%d known mechanisms, %d new), %.1fs" % (
              prop, "REPLAY" if a.replay else "RUN", a.tier, seed, evaluations, len(sigs),
              sum(viol_counts.values()), len(known_seen), len(new_mechs), wall))
    if new_mechs:
        return 1
    if inconclusive:
        for r in inconclusive:
            print("INCONCLUSIVE property=%s reason=%s" % (prop, r))
        return 2
    return 0


if __name__ == "__main__":
    sys.exit(main())
