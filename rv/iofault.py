"""I/O fault proxy, handle ledger, audit-hook cross-check and /proc fd scan (DESIGN §3.4, C20).

While a ledger is active, builtins.open and io.open are replaced (harness side) by a function that
opens the real file and, for paths under the run's scratch directory, returns a FileProxy that
  * counts read / readline / readlines / next / write / writelines / seek / tell operations,
  * raises OSError(EIO) at the k-th one when asked to,
  * registers itself in the ledger so that 'opened during this call and not closed' is observable.
A process-wide audit hook counts the interpreter's own 'open' events for the same paths: if the two
counts differ, something opened a file behind the proxy's back and the observation is inconclusive.
fds_into() lists the process's file descriptors that point into the scratch directory: an
OS-level oracle that does not depend on the proxy at all."""
import builtins
import errno
import io
import os
import sys

_real_builtin_open = builtins.open
_real_io_open = io.open
_current = None          # active Ledger or None
_audit_installed = False


class InjectedFault(OSError):
    pass


class Ledger:
    def __init__(self, prefix, fail_at=None, sticky=False):
        self.prefix = os.path.abspath(prefix) + os.sep
        self.fail_at = fail_at
        self.sticky = sticky          # a persistent device error: every operation after the k-th (flush included) fails too
        self.ops = 0
        self.trace = []
        self.opened = []          # FileProxy objects created while active
        self.audit_opens = 0
        self.failed_opens = 0     # open() calls for covered paths that raised (unknown codec ...): audited, but no handle exists
        self.fired = False

    def covers(self, path):
        try:
            p = os.path.abspath(os.fspath(path))
        except TypeError:
            return False
        return isinstance(p, str) and (p + os.sep).startswith(self.prefix)

    def op(self, name):
        self.ops += 1
        if len(self.trace) < 4000:
            self.trace.append(name)
        if self.fail_at is not None and (self.ops == self.fail_at or (self.sticky and self.fired)):
            self.fired = True
            raise InjectedFault(errno.EIO, "injected I/O fault at operation #%d (%s)" % (self.ops, name))

    def flush_op(self):
        if self.sticky and self.fired:
            raise InjectedFault(errno.ENOSPC, "injected persistent I/O fault (flush after operation #%d failed)" % self.fail_at)

    def unclosed(self):
        return [p for p in self.opened if not p.real.closed]

    def cleanup(self):
        for p in self.opened:
            try:
                p.real.close()
            except Exception:
                pass


class FileProxy:
    def __init__(self, real, ledger, path, mode):
        object.__setattr__(self, "real", real)
        object.__setattr__(self, "_ledger", ledger)
        object.__setattr__(self, "_path", path)
        object.__setattr__(self, "_mode", mode)

    # counted operations
    def read(self, *a):
        self._ledger.op("read")
        return self.real.read(*a)

    def readline(self, *a):
        self._ledger.op("readline")
        return self.real.readline(*a)

    def readlines(self, *a):
        self._ledger.op("readlines")
        return self.real.readlines(*a)

    def write(self, *a):
        self._ledger.op("write")
        return self.real.write(*a)

    def writelines(self, *a):
        self._ledger.op("writelines")
        return self.real.writelines(*a)

    def seek(self, *a):
        self._ledger.op("seek")
        return self.real.seek(*a)

    def tell(self):
        self._ledger.op("tell")
        return self.real.tell()

    def __iter__(self):
        return self

    def __next__(self):
        self._ledger.op("next")
        return next(self.real)

    # uncounted
    def close(self):
        return self.real.close()

    def flush(self):
        self._ledger.flush_op()
        return self.real.flush()

    @property
    def closed(self):
        return self.real.closed

    def __enter__(self):
        self.real.__enter__()
        return self

    def __exit__(self, *exc):
        return self.real.__exit__(*exc)

    def __getattr__(self, name):
        return getattr(object.__getattribute__(self, "real"), name)

    def __repr__(self):
        return "<FileProxy %s mode=%s closed=%s>" % (self._path, self._mode, self.real.closed)


def _make_open(real_open):
    def proxy_open(file, mode="r", *args, **kwargs):
        led = _current
        try:
            f = real_open(file, mode, *args, **kwargs)
        except BaseException:
            if led is not None and not isinstance(file, int) and led.covers(file):
                led.failed_opens += 1
            raise
        if led is not None and not isinstance(file, int) and led.covers(file):
            p = FileProxy(f, led, os.fspath(file), mode)
            led.opened.append(p)
            return p
        return f
    return proxy_open


def _audit(event, args):
    led = _current
    if led is not None and event == "open":
        try:
            if led.covers(args[0]):
                led.audit_opens += 1
        except Exception:
            pass


class active:
    """Context manager: route open() through the proxy and account to *ledger*."""

    def __init__(self, ledger):
        self.ledger = ledger

    def __enter__(self):
        global _current, _audit_installed
        if not _audit_installed:
            sys.addaudithook(_audit)
            _audit_installed = True
        builtins.open = _make_open(_real_builtin_open)
        io.open = _make_open(_real_io_open)
        _current = self.ledger
        return self.ledger

    def __exit__(self, *exc):
        global _current
        _current = None
        builtins.open = _real_builtin_open
        io.open = _real_io_open
        return False


class audit_only:
    """Count 'open' audit events without proxying (failpoint mode)."""

    def __init__(self, ledger):
        self.ledger = ledger

    def __enter__(self):
        global _current, _audit_installed
        if not _audit_installed:
            sys.addaudithook(_audit)
            _audit_installed = True
        _current = self.ledger
        return self.ledger

    def __exit__(self, *exc):
        global _current
        _current = None
        return False


def fds_into(prefix):
    """{fd: target} for every descriptor of this process that points under *prefix*."""
    prefix = os.path.abspath(prefix) + os.sep
    out = {}
    try:
        names = os.listdir("/proc/self/fd")
    except OSError:
        return None
    for fd in names:
        try:
            t = os.readlink("/proc/self/fd/" + fd)
        except OSError:
            continue
        if t.startswith(prefix):
            out[int(fd)] = t
    return out
