"""Rebuild / import discipline (DESIGN §3.1).

lasio is pure Python: "rebuilding from /repo's working tree" means importing the package from
$VERIF_REPO (default /repo) in a fresh interpreter with byte-code caching off, and proving that the
imported files really live there.  Every worker process calls :func:`load` exactly once.
"""
import hashlib
import logging
import os
import subprocess
import sys
import warnings

VERIF = os.path.dirname(os.path.dirname(os.path.abspath(__file__)))
REPO = os.path.abspath(os.environ.get("VERIF_REPO", "/repo"))
GUARD = "LASIO_VERIF"

_lasio = None


def load():
    """Import lasio from REPO (hooks guard on) and return the module."""
    global _lasio
    if _lasio is not None:
        return _lasio
    sys.dont_write_bytecode = True
    os.environ[GUARD] = "1"
    # drop any other copy of the repository from the path, then put ours first
    sys.path[:] = [p for p in sys.path if os.path.abspath(p or ".") != REPO]
    sys.path.insert(0, REPO)
    for name in [m for m in sys.modules if m == "lasio" or m.startswith("lasio.")]:
        del sys.modules[name]
    warnings.filterwarnings("ignore")
    import lasio  # noqa

    here = os.path.abspath(lasio.__file__)
    if not here.startswith(REPO + os.sep):
        raise RuntimeError("lasio imported from %s, not from %s" % (here, REPO))
    # lasio logs a lot at WARNING; the monitors never use log output as an oracle.
    logging.disable(logging.CRITICAL)
    _lasio = lasio
    return lasio


def repo_state():
    """HEAD sha + digest of the uncommitted diff of lasio/ (stored in the evidence)."""
    def git(*a):
        try:
            return subprocess.run(("git", "-C", REPO) + a, capture_output=True, text=True,
                                  timeout=30).stdout
        except Exception:
            return ""
    head = git("rev-parse", "HEAD").strip()
    diff = git("diff", "HEAD", "--", "lasio")
    src = hashlib.sha256()
    pkg = os.path.join(REPO, "lasio")
    for fn in sorted(os.listdir(pkg)) if os.path.isdir(pkg) else []:
        if fn.endswith(".py"):
            with open(os.path.join(pkg, fn), "rb") as f:
                src.update(fn.encode() + b"\0" + f.read())
    return {"repo": REPO, "head": head or "unknown",
            "dirty": bool(diff.strip()),
            "diff_sha256": hashlib.sha256(diff.encode()).hexdigest()[:16],
            "lasio_src_sha256": src.hexdigest()[:16]}
