"""One shard of one check: import lasio from the repository, install the property's monitors,
drive the workload, write what was observed to --out as JSON."""
import argparse
import faulthandler
import importlib
import json
import os
import random
import sys
import time
import traceback


def main(argv=None):
    ap = argparse.ArgumentParser()
    ap.add_argument("--prop", required=True)
    ap.add_argument("--tier", default="quick")
    ap.add_argument("--seed", type=int, default=0)
    ap.add_argument("--shard", type=int, default=0)
    ap.add_argument("--nshards", type=int, default=1)
    ap.add_argument("--out", required=True)
    ap.add_argument("--scratch", required=True)
    ap.add_argument("--soft-deadline", type=float, default=60.0)
    ap.add_argument("--hard-deadline", type=float, default=600.0)
    ap.add_argument("--replay", default=None)
    a = ap.parse_args(argv)

    # wall-clock watchdog: its firing is *inconclusive* (the parent sees a missing result)
    faulthandler.dump_traceback_later(a.hard_deadline, exit=True)

    from rv import env
    from rv.ctx import Ctx
    from rv.probe import Probe

    t0 = time.time()
    lasio = env.load()
    mod = importlib.import_module("rv.monitors." + a.prop.lower())
    os.makedirs(a.scratch, exist_ok=True)
    ctx = Ctx(a.prop, a.tier, a.seed, a.shard, a.nshards, scratch=a.scratch)
    ctx.lasio = lasio
    probe = Probe(lasio, a.prop)
    probe.start()
    ctx.probe = probe
    if hasattr(mod, "setup"):
        mod.setup(ctx)

    def run(case, index):
        ctx.current_case, ctx.current_index = case, index
        try:
            mod.run_case(case, ctx)
        except Exception as exc:  # an exception escaping the monitor is itself an observation
            tb = traceback.extract_tb(exc.__traceback__)
            where = "%s:%s" % (os.path.basename(tb[-1].filename), tb[-1].name) if tb else "?"
            ctx.violation("monitor-crash:%s@%s" % (type(exc).__name__, where),
                          "exception escaped the monitor: %r" % (exc,),
                          detail=traceback.format_exc()[-2500:])
        ctx.current_case = ctx.current_index = None

    truncated = False
    if a.replay:
        with open(a.replay) as f:
            rp = json.load(f)
        run(rp["case"], rp.get("case_index"))
    else:
        n = 0
        for i, case in enumerate(mod.grid(a.tier)):
            if i % a.nshards == a.shard:
                run(case, "g%d" % i)
            n = i + 1
        ctx.count("grid_cases_total_in_run", n if a.shard == 0 else 0)
        nrand = mod.n_random(a.tier)
        for i in range(nrand):
            if i % a.nshards != a.shard:
                continue
            if time.time() - t0 > a.soft_deadline:
                truncated = True
                ctx.count("random_cases_not_run_deadline", len(range(i, nrand, a.nshards)))
                break
            rng = random.Random("%s:%d:%d" % (a.prop, a.seed, i))
            case = mod.random_case(rng, a.tier)
            run(case, "r%d" % i)
    if hasattr(mod, "finish"):
        try:
            mod.finish(ctx)
        except Exception as exc:
            ctx.violation("monitor-crash:finish:%s" % type(exc).__name__, repr(exc),
                          detail=traceback.format_exc()[-2500:], case={"phase": "finish"})
    probe.stop()
    out = ctx.dump()
    out["truncated"] = truncated
    out["probe"] = probe.report()
    tmp = a.out + ".tmp"
    with open(tmp, "w") as f:
        json.dump(out, f, default=repr)
    os.replace(tmp, a.out)
    faulthandler.cancel_dump_traceback_later()
    return 0


if __name__ == "__main__":
    sys.exit(main())
