"""Session-name reference model (C13, C03, C05...): what session mnemonics a section built by
appending items with the given original mnemonics, in order, must show.

Written from docs/header-section.rst ("Handling duplicate mnemonics"), not from las_items.py:
blank -> UNKNOWN; a name occurring once keeps its name; a name occurring n > 1 times is numbered
NAME:1 .. NAME:n in section order (case-insensitively when the section is case-normalised)."""


def useful(name):
    return "UNKNOWN" if name.strip() == "" else name


def sessions(originals, norm=False):
    us = [useful(n) for n in originals]
    key = (lambda s: s.upper()) if norm else (lambda s: s)
    count, seen, out = {}, {}, []
    for u in us:
        count[key(u)] = count.get(key(u), 0) + 1
    for u in us:
        k = key(u)
        if count[k] == 1:
            out.append(u)
        else:
            seen[k] = seen.get(k, 0) + 1
            out.append("%s:%d" % (u, seen[k]))
    return out


def same(a, b, norm):
    return a.upper() == b.upper() if norm else a == b
