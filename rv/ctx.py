"""Per-worker observation context: counters, distinct signatures, samples, violations."""
import collections
import hashlib
import json
import time


def digest(obj):
    if not isinstance(obj, (str, bytes)):
        obj = json.dumps(obj, sort_keys=True, default=repr)
    if isinstance(obj, str):
        obj = obj.encode("utf-8", "surrogatepass")
    return hashlib.blake2b(obj, digest_size=8).hexdigest()


def clip(obj, n=600, depth=0):
    """Shorten a case for display in evidence samples."""
    if isinstance(obj, str):
        return obj if len(obj) <= n else obj[:n] + "...[%d chars]" % len(obj)
    if isinstance(obj, dict):
        return {str(k): clip(v, n, depth + 1) for k, v in list(obj.items())[:40]}
    if isinstance(obj, (list, tuple)):
        out = [clip(v, n, depth + 1) for v in obj[:24]]
        if len(obj) > 24:
            out.append("...[%d items]" % len(obj))
        return out
    if isinstance(obj, (int, float, bool)) or obj is None:
        return obj
    return clip(repr(obj), n)


class Ctx:
    MAX_VIOL_PER_MECH = 6

    def __init__(self, prop, tier, seed, shard=0, nshards=1, scratch=None):
        self.prop, self.tier, self.seed = prop, tier, seed
        self.shard, self.nshards = shard, nshards
        self.scratch = scratch
        self.counters = collections.Counter()
        self.sigs = set()          # digests of distinct non-trivial cases
        self.allsigs = set()       # digests of all distinct case signatures
        self.samples = []
        self.violations = []       # kept witnesses
        self.viol_counts = collections.Counter()   # mechanism -> number of violating observations
        self.sets = collections.defaultdict(set)   # named small sets (e.g. functions reached)
        self.t0 = time.time()
        self.evaluations = 0
        self.current_case = None
        self.current_index = None

    # -- observation bookkeeping -------------------------------------------------------------
    def count(self, name, n=1):
        self.counters[name] += n

    def seen(self, setname, value):
        s = self.sets[setname]
        if len(s) < 5000:
            s.add(value if isinstance(value, str) else json.dumps(value, default=repr))

    def case_done(self, signature, nontrivial=True):
        """Register one evaluated case.  *signature* is the abstract description used for
        distinctness; *nontrivial* says whether it counts towards distinct_nontrivial."""
        self.evaluations += 1
        d = digest(signature)
        self.allsigs.add(d)
        if nontrivial:
            self.sigs.add(d)

    def sample(self, obj, limit=4):
        if len(self.samples) < limit:
            self.samples.append(clip(obj))

    # -- verdict material --------------------------------------------------------------------
    def violation(self, mechanism, message, detail=None, case=None):
        """Record (never raise) a refuted execution.  *mechanism* is the classifier's key:
        known_findings.json is matched on it, never on the case or on random values."""
        self.viol_counts[mechanism] += 1
        if sum(1 for v in self.violations if v["mechanism"] == mechanism) < self.MAX_VIOL_PER_MECH:
            self.violations.append({
                "mechanism": mechanism,
                "message": clip(message, 1500),
                "detail": clip(detail, 3000) if detail is not None else None,
                "case": case if case is not None else self.current_case,
                "case_index": self.current_index,
            })

    def dump(self):
        return {
            "prop": self.prop, "shard": self.shard,
            "evaluations": self.evaluations,
            "counters": dict(self.counters),
            "sigs": sorted(self.sigs), "allsigs_n": len(self.allsigs),
            "allsigs": sorted(self.allsigs) if len(self.allsigs) <= 400000 else [],
            "samples": self.samples,
            "violations": self.violations,
            "viol_counts": dict(self.viol_counts),
            "sets": {k: sorted(v) for k, v in self.sets.items()},
            "wall_s": time.time() - self.t0,
        }
