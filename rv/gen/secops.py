"""Operation histories on a lasio SectionItems (shared by C13 and C15)."""
import itertools


def pos(code, n, for_insert=False):
    """Resolve a symbolic position against the current length *n*."""
    if code == "first":
        return 0
    if code == "mid":
        return n // 2
    if code == "last":
        return n if for_insert else n - 1
    return int(code)


def apply_op(lasio, sec, op, item_factory=None):
    """Apply one operation to the real SectionItems.  Returns a short tag describing what was
    done ('skip' when the op is not applicable to the current state, e.g. delete on empty)."""
    mk = item_factory or (lambda name: lasio.HeaderItem(name, "", "v", "d"))
    kind = op[0]
    n = len(sec)
    if kind == "append":
        sec.append(mk(op[1]))
        return "append"
    if kind == "insert":
        sec.insert(pos(op[1], n, True), mk(op[2]))
        return "insert"
    if kind == "del_idx":
        if n == 0:
            return "skip"
        del sec[pos(op[1], n)]
        return "del_idx"
    if kind == "pop":
        if n == 0:
            return "skip"
        sec.pop(pos(op[1], n))
        return "pop"
    if kind == "del_key":
        if n == 0:
            return "skip"
        key = list.__getitem__(sec, pos(op[1], n)).mnemonic
        del sec[key]
        return "del_key"
    if kind == "replace":
        if n == 0:
            return "skip"
        key = list.__getitem__(sec, pos(op[1], n)).mnemonic
        sec[key] = mk(op[2])
        return "replace"
    if kind == "setitem_pos":
        # section[i] = item with an integer (Python or numpy) position: whatever lasio makes of it (it appends: no mnemonic matches an
        # integer), the section must come out with distinct, resolvable names
        if n == 0:
            return "skip"
        import numpy as np
        i = pos(op[1], n)
        sec[np.int64(i) if len(op[2]) % 2 else i] = mk(op[2])
        return "append" if len(sec) > n else "replace"
    if kind == "attr_new":
        # section.NAME = item appends when NAME is not a key (only for names usable as attributes)
        name = op[1]
        if not name.isidentifier() or hasattr(type(sec), name) or name in sec:
            return "skip"
        setattr(sec, name, mk(name))
        return "append"
    if kind == "attr_replace":
        if n == 0:
            return "skip"
        key = list.__getitem__(sec, pos(op[1], n)).mnemonic
        if not key.isidentifier() or hasattr(type(sec), key):
            return "skip"
        setattr(sec, key, mk(op[2]))
        return "replace"
    raise ValueError(op)


def build(lasio, ops, norm, item_factory=None):
    sec = lasio.SectionItems()
    if norm:
        sec.mnemonic_transforms = True
    for op in ops:
        apply_op(lasio, sec, op, item_factory)
    return sec


def sequences(alphabet_ops, max_len):
    for L in range(0, max_len + 1):
        for seq in itertools.product(alphabet_ops, repeat=L):
            yield list(seq)


def raw_items(sec):
    """The items as a plain list, bypassing every overridden accessor."""
    return [list.__getitem__(sec, i) for i in range(list.__len__(sec))]


def state_sig(sec):
    return [(it.original_mnemonic, it.mnemonic) for it in raw_items(sec)]
