"""Seeded builders of in-memory LASFile objects (used by C11, C12, C16, C17, C18).

A *spec* is plain JSON-able data (so it can live in a replay file):
  {"well": [[mnemonic, unit, value, descr], ...]   extra ~Well items appended after the defaults,
   "params": [[...], ...], "version_extra": [[...]], "other": "text",
   "curves": [[mnemonic, unit, value, descr, [samples...]], ...],
   "null": -999.25, "custom": {"Title": [[...], ...]}, "via_text": None | {"mnemonic_case": ...}}
Values may be str / int / float / None(NaN).  Samples may be floats, None (NaN) or strings."""
import io

import numpy as np

NAME_POOL = ["GR", "RES", "RES", "", "res", "Res", "NPHI", "x1", "A", "A", "DT", "CALI", "SP_2", "RHOB-C", "MNEM"]
UNIT_POOL = ["", "m", "ft", "gAPI", "ohm.m", "us/ft", "%", "g/cm3", "F", "0.1IN", "v/v", "DEGC", "UNIT"]
TEXT_POOL = ["", "alpha", "Beta gamma", "well #7", "N/A", "x=1 y=2", "O'Brien \"quoted\"", "(note)", "[b]",
             "ANY OIL COMPANY INC", "12-34-12-34W5M", "15_9", "semi;colon, comma", "Rücken",
             "12-34-12-34W5      NE/4", "LOGSOFT  REL 7", "a         b   c",       # runs of blanks inside a value
             " ".join("a remark that runs well beyond the 256 characters of a LAS 1,2 line %02d" % i for i in range(4))]
NUM_POOL = [0, 1, -5, 42, 1500, 0.5, -999.25, 3.25, 1e-05, 123456.789, 2.0, -0.125]


def rand_value(rng, allow_nan=True):
    r = rng.random()
    if r < 0.35:
        return rng.choice(NUM_POOL)
    if r < 0.40 and allow_nan:
        return None
    return rng.choice(TEXT_POOL)


def no_period(it):
    """A blank mnemonic can only be carried by a header line without any further period (C13/C03 domain clause)."""
    if str(it[0]).strip() == "":
        it[1] = str(it[1]).replace(".", "")
        it[2] = it[2] if not isinstance(it[2], (str, float)) else (str(it[2]).replace(".", ",") if isinstance(it[2], str) else int(it[2]))
        it[3] = str(it[3]).replace(".", ",")
    return it


def rand_item(rng, names=NAME_POOL):
    return no_period([rng.choice(names), rng.choice(UNIT_POOL), rand_value(rng, allow_nan=False), rng.choice(TEXT_POOL)])


def rand_spec(rng, text_curve=0.2, max_curves=6, max_rows=6, dup=True, custom=0.2, min_curves=1):
    names = NAME_POOL if dup else ["GR", "RES", "NPHI", "x1", "A", "DT", "CALI", "SP_2"]
    nrows = rng.randint(1, max_rows)
    ncur = rng.randint(min_curves, max_curves)
    step = rng.choice([0.5, 0.1524, 1.0, -0.25, 2.5])
    start = rng.choice([0.0, 100.0, 1670.0, 5.25])
    curves = [["DEPT", rng.choice(["m", "ft", "M", "F", "FT", ""]), "", "depth", [start + i * step for i in range(nrows)]]]
    pool = names[:] if dup else rng.sample(names, len(names))
    for j in range(ncur):
        if rng.random() < text_curve and j == ncur - 1 and ncur > 1:
            data = [rng.choice(["abc", "x-1", "Q", "lithA", "alpha-beta", "sand-shale-lime"]) for _ in range(nrows)]
        else:
            data = [None if rng.random() < 0.15 else round(rng.uniform(-500, 3000), rng.choice([0, 2, 4])) for _ in range(nrows)]
        nm = rng.choice(pool) if dup else pool[j % len(pool)]
        curves.append(no_period([nm, rng.choice(UNIT_POOL), rng.choice(["", "", "45 310 01 00", 7, 45.5]), rng.choice(TEXT_POOL)]) + [data])
    spec = {
        "well": [rand_item(rng, names) for _ in range(rng.randint(0, 4))],
        "params": [rand_item(rng, names) for _ in range(rng.randint(0, 5))],
        "other": rng.choice(["", "one line", "first line\nsecond line", "note: with colon\n  indented?"]),
        "curves": curves,
        "null": rng.choice([-999.25, -9999.25, -9999, 0, 999.25]),
        "custom": {},
        "via_text": None,
    }
    if rng.random() < custom:
        spec["custom"] = {"Drilling": [rand_item(rng, names) for _ in range(rng.randint(1, 3))]}
    return spec


def _v(v):
    return np.nan if v is None else v


def build(lasio, spec):
    """Build the LASFile described by *spec* entirely through lasio's public API."""
    las = lasio.LASFile()
    if spec.get("null") is not None:
        las.well["NULL"].value = spec["null"]
    for m, u, v, d in spec.get("version_extra", []):
        las.version.append(lasio.HeaderItem(m, u, _v(v), d))
    for m, u, v, d in spec.get("well", []):
        las.well.append(lasio.HeaderItem(m, u, _v(v), d))
    for m, u, v, d in spec.get("params", []):
        las.params.append(lasio.HeaderItem(m, u, _v(v), d))
    las.other = spec.get("other", "")
    for title, items in spec.get("custom", {}).items():
        sec = lasio.SectionItems()
        for m, u, v, d in items:
            sec.append(lasio.HeaderItem(m, u, _v(v), d))
        las.sections[title] = sec
    for m, u, v, d, data in spec.get("curves", []):
        if any(isinstance(x, str) for x in data):
            arr = np.array([str(x) for x in data])
        else:
            arr = np.array([np.nan if x is None else float(x) for x in data], dtype=float)
        las.append_curve(m, arr, unit=u, value=v, descr=d)
    via = spec.get("via_text")
    if via:
        buf = io.StringIO()
        las.write(buf, **via.get("write", {}))
        las = lasio.read(buf.getvalue(), **via.get("read", {}))
    return las
