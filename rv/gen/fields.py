"""Generators of LAS-conformant header fields (C03, C04, C05, C19) and padding strings.

'Conformant' is the clause of the C03/C04 statements: mnemonic without '.' or ':'; unit without
blanks or '..', not purely numeric, not bracketed, not starting or ending with '.'; value and
description without ':'; ~Curves values without '..'."""
import re

LETTERS = "ABCDEFGHIJKLMNOPQRSTUVWXYZabcdefghijklmnopqrstuvwxyz"
DIGITS = "0123456789"
NONASCII = "éüßØñμ°ДжЯ深度"
MN_PUNCT = "_-#%&()[]'\"/+*=<>@!?"
UNIT_PUNCT = "/%()[]_-*^°μ"
TEXT_PUNCT = "_-#%&()[]'\"/+*=<>@!?,;.{}|"
STEERING = {"VERS", "WRAP", "NULL", "DLM"}
PADS = ["", " ", "      ", "\t", " \t  "]


def _word(rng, alphabet, lo, hi):
    return "".join(rng.choice(alphabet) for _ in range(rng.randint(lo, hi)))


def mnemonic(rng, inner_blanks=True, nonascii=True):
    for _ in range(50):
        cls = rng.random()
        if cls < 0.02:
            return rng.choice(["MNEM", "mnem", "Mnem", "_RUN", "__x__"])      # legend word / names that look private: ordinary mnemonics
        if cls < 0.5:
            s = _word(rng, LETTERS, 1, 5) + _word(rng, DIGITS, 0, 2)
        elif cls < 0.7:
            s = _word(rng, LETTERS + DIGITS + MN_PUNCT, 1, 10)
        elif cls < 0.85 and inner_blanks:
            s = _word(rng, LETTERS, 1, 5) + rng.choice([" ", "  "]) + _word(rng, LETTERS + DIGITS, 1, 4)
        elif nonascii:
            s = _word(rng, LETTERS + NONASCII, 1, 6)
        else:
            s = _word(rng, LETTERS, 2, 12)
        s = s.strip()
        if not s or s[0] in "~#" or "." in s or ":" in s:
            continue
        if s.upper() in STEERING or s.upper() in ("API", "UWI"):
            continue
        return s
    return "MN"


def unit_ok(u):
    if u == "":
        return True
    if re.search(r"\s", u) or ".." in u or u.isdigit() or u[0] in ".:" or u[-1] in ".:":
        return False
    if enclosed(u):
        return False
    return True


def enclosed(u):
    """Is the whole text enclosed by one matching pair of brackets ('[ohm.m]', '((m))')?  '(m3)/(m3)' is not."""
    if len(u) < 2 or (u[0], u[-1]) not in (("[", "]"), ("(", ")")):
        return False
    depth = 0
    for i, ch in enumerate(u):
        if ch == u[0]:
            depth += 1
        elif ch == u[-1]:
            depth -= 1
            if depth == 0:
                return i == len(u) - 1
    return False


def unit(rng, interior=True):
    for _ in range(50):
        cls = rng.random()
        if cls < 0.2:
            u = ""
        elif cls < 0.6:
            u = rng.choice(["M", "FT", "m", "gAPI", "US/F", "OHMM", "ohm.m", "K/M3", "%", "V/V", "degC", "g/cm3", "lbf", "hh:mm",
                            "1:100", "mm/dd/yy", "0.1in", "1000lbf", "us/ft", "API", "m3/m3", "B/E", "DEG", "psi.a", "UNIT", "unit",
                            "(m3)/(m3)", "[a][b]", "(x)y(z)", "[i[]", "[[yqv]", "(()", "(a(b)"])     # the last four: a first bracket that is never closed
        elif cls < 0.85:
            u = _word(rng, LETTERS + DIGITS + UNIT_PUNCT, 1, 7)
        else:
            u = _word(rng, LETTERS, 1, 3) + rng.choice([".", ":", "."] if interior else ["/"]) + _word(rng, LETTERS + DIGITS, 1, 3)
        if unit_ok(u):
            return u
    return "M"


def text(rng, lo=0, hi=24, colons=False, periods=True, double_dots=True):
    cls = rng.random()
    if cls < 0.12:
        s = ""
    elif cls < 0.35:
        s = rng.choice(["ANY OIL COMPANY INC", "WILDCAT", "12-34-12-34W5M", "13/05/2015", "1670.000", "-999.25", "35.5", "GEL CHEM",
                        "O'Brien \"A\" #7", "100 123 456", "(RT)", "[note]", "x=1; y=2", "Bottom Hole Temperature", "15_9", "1,5",
                        "0.25", "+12", "2.0", "NO", "1e3", "a.b.c", "Ünïcödé wéll", "深度 unit", "1000 lbf", "7",
                        "12-34-12-34W5      NE/4", "LOGSOFT  REL 7", "a         b   c"])
    elif cls < 0.75:
        s = " ".join(_word(rng, LETTERS + DIGITS, 1, 8) for _ in range(rng.randint(1, 4)))
    else:
        s = _word(rng, LETTERS + DIGITS + TEXT_PUNCT + " " + NONASCII, lo, hi)
    if not colons:
        s = s.replace(":", ";")
    if not periods:
        s = s.replace(".", ",")
    if not double_dots:
        while ".." in s:
            s = s.replace("..", ".")
    return s.strip()


def pads(rng, value_present=True):
    p = [rng.choice(PADS) for _ in range(6)]
    if value_present and p[2] == "":
        p[2] = rng.choice(PADS[1:])
    return p


def clock(rng, h=None):
    h = rng.randint(0, 23) if h is None else h
    s = "%02d:%02d" % (h, rng.randint(0, 59))
    if rng.random() < 0.5:
        s += ":%02d" % rng.randint(0, 59)
    return s
