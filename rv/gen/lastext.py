"""Abstract LAS files and their renderer (ground truth by construction).

An abstract file is JSON-able:
  {"sections": [ {"kind": "V"|"W"|"C"|"P"|"X", "title": "~Version", "items": [[mnem, unit, value, descr], ...]},
                 {"kind": "O", "title": "~Other", "lines": ["free text", ...]},
                 {"kind": "A", "title": "~ASCII", "rows": [["1.0", "2.5"], ...]} ... ],
   "eol": "\n", "final_newline": true}
Layout (padding, separators, noise lines) is a separate dict so that the same abstract file can be
rendered in many presentation-only variants (C09)."""


def hline(item, pads=None, colon=True):
    """Render one header line  MNEM.UNIT VALUE : DESCR  with the given padding strings:
    pads = (before mnem, mnem|dot, unit|value, value|colon, colon|descr, after descr).
    The position between '.' and the unit is fixed (the grammar gives it meaning)."""
    m, u, v, d = item
    p = pads or ("", "", " ", " ", " ", "")
    if len(p[2]) == 0:
        p = (p[0], p[1], " ", p[3], p[4], p[5])      # a unit must be followed by whitespace
    s = "%s%s%s.%s%s%s%s" % (p[0], m, p[1], u, p[2], v, p[3])
    if colon:
        s += ":%s%s%s" % (p[4], d, p[5])
    return s


def render_section(sec, layout=None):
    layout = layout or {}
    lines = [sec["title"]]
    if sec["kind"] == "O":
        lines += list(sec.get("lines", []))
    elif sec["kind"] == "A":
        sep = layout.get("sep", " ")
        lead = layout.get("lead", "")
        trail = layout.get("trail", "")
        noise = layout.get("data_noise", {})      # {row_index(str): [noise lines before that row]} ; "end" after last
        rows = sec.get("rows", [])
        for i, row in enumerate(rows):
            lines += noise.get(str(i), [])
            seps = sep if isinstance(sep, str) else None
            if seps is not None:
                body = seps.join(row)
            else:
                body = ""
                for j, tok in enumerate(row):
                    if j:
                        body += sep[(i * 7 + j) % len(sep)]
                    body += tok
            lines.append(lead + body + trail)
        lines += noise.get("end", [])
    else:
        pads = layout.get("pads")
        noise = layout.get("header_noise", {}).get(sec["title"], {})
        for i, it in enumerate(sec.get("items", [])):
            lines += noise.get(str(i), [])
            lines.append(hline(it, pads[i % len(pads)] if pads else None))
        lines += noise.get("end", [])
    return lines


def render(afile, layout=None):
    lines = []
    for sec in afile["sections"]:
        lines += render_section(sec, layout)
    eol = afile.get("eol", "\n")
    text = eol.join(lines)
    if afile.get("final_newline", True):
        text += eol
    return text


def std_header(ncurves, null="-999.25", wrap="NO", vers="2.0", units=None, extra_w=(), params=(), dlm=None, names=None):
    """A conformant V/W/C(/P) header for *ncurves* curves."""
    v = [["VERS", "", vers, "version"], ["WRAP", "", wrap, "wrap mode"]]
    if dlm:
        v.append(["DLM", "", dlm, "delimiter"])
    w = [["STRT", "M", "1.0", "start"], ["STOP", "M", "2.0", "stop"], ["STEP", "M", "0.5", "step"],
         ["NULL", "", null, "null value"]] + [list(x) for x in extra_w]
    names = names or (["DEPT"] + ["C%d" % i for i in range(1, ncurves)])
    c = [[names[i], (units[i] if units else ("M" if i == 0 else "U%d" % i)), "", "curve %d" % i] for i in range(ncurves)]
    secs = [{"kind": "V", "title": "~Version", "items": v}, {"kind": "W", "title": "~Well", "items": w},
            {"kind": "C", "title": "~Curves", "items": c}]
    if params:
        secs.append({"kind": "P", "title": "~Parameter", "items": [list(x) for x in params]})
    return secs
