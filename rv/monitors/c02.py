"""C02 — fast (numpy) and reference (normal) data engines return identical curves.

Each generated text is read twice, engine='numpy' and engine='normal'; a sys.monitoring function
trace attributes every read to the engine that really produced the data (fast path taken, or
fallback), cross-checked by a recorder on numpy.genfromtxt.  The oracle is equality of the two
observed outcomes (shape, float bit patterns, NaN mask, header snapshot, raising or not); the
generator's ground truth is attached only to say which side is wrong."""
import itertools

import numpy as np

from rv import canon
from rv.gen import lastext

ID = "C02"
LEVEL = "exploration"
RULE = ("files: standard V/W/C header (+ optional ~P/~O before ~A) and a data section of r x c plain decimal tokens; full "
        "grid r in 1..6 x c in 1..6 x trailing {none, blank, blanks, comment} x placement {~A last, followed by ~P, ~O, "
        "custom, ~P+~O} x {LF final newline, LF none, CRLF}; random: r<=40, c<=12, spellings {int, fixed, exponent e/E, "
        "signed, .5, 5.}, separators {blanks, tabs, mixed}, leading/trailing padding, blank/#-comment lines at any "
        "position with density 0..50%, NULL-equal cells. distinct = distinct (row class, column class, trailing kind, "
        "placement, eol, final newline, spelling set, noise class) among comparisons whose numpy read took the fast "
        "path; non-trivial = such a comparison with r*c >= 2 or noise lines or a following section Added later: DLM TAB with runs of tabs, WRAP NO in other spellings, declared curves fewer / more than the columns. Round 8: one header line of 1000..70000 characters ahead of the data section.")
ASSUMPTIONS = [
    "unwrapped files (WRAP NO in several spellings: No, no, N, FALSE ...), DLM absent or TAB, default read/null policies; tokens are plain decimal numbers so that both engines are in their domain; declared curves may be fewer or more than the data columns",
    "bit identity is demanded because the statement demands it; -0.0 tokens are generated and compared by bit pattern too",
]
REQUIRED = ["comparisons", "fast_path_comparisons", "fast_path_with_following_section", "fast_path_single_row",
            "fast_path_single_column", "fast_path_with_trailing_noise"]
SOFT_DEADLINE = {"quick": 90, "thorough": 1200}
LEVEL_TEXT = ("Differential exploration: every generated layout is read by both engines and compared bit for bit; engine "
              "attribution from a function trace guarantees the comparison exercised the fast path (else inconclusive).")
LEVEL_NOTE = "Equality of two observed executions; trusts numpy array comparison and the sys.monitoring attribution; layouts outside the generator are not covered."
TECHNIQUE = "runtime monitoring: differential oracle between two observed reads with sys.monitoring engine attribution and a numpy.genfromtxt recorder"

NUMPY_FN = ("reader.py", "read_data_section_iterative_numpy_engine")
NORMAL_FN = ("reader.py", "read_data_section_iterative_normal_engine")
_gen_calls = []
_traced = [0]


def setup(ctx):
    n = ctx.probe.trace([NUMPY_FN, NORMAL_FN])
    ctx.count("engine_functions_traced", n)
    _traced[0] = 1 if (NUMPY_FN in ctx.probe.by_name and NORMAL_FN in ctx.probe.by_name) else 0
    # recorder on numpy.genfromtxt as seen from lasio.reader
    reader = __import__("lasio.reader", fromlist=["x"])
    real = reader.np.genfromtxt

    def rec(*a, **k):
        try:
            r = real(*a, **k)
        except Exception:
            _gen_calls.append("raised")
            raise
        _gen_calls.append("returned")
        return r
    try:
        reader.np.genfromtxt = rec
    except Exception:
        pass


TRAILING = {"none": [], "blank": [""], "blanks": ["   ", ""], "comment": ["# end of data"], "mixed": ["", "#c", " "],
            "indented_comment": ["   # indented comment 1 2 3", "\t#x"]}
AFTER = {"last": [], "P": ["P"], "O": ["O"], "X": ["X"], "PO": ["P", "O"], "XP": ["X", "P"]}
EOLS = [("\n", True), ("\n", False), ("\r\n", True)]


def after_sections(keys):
    out = []
    for k in keys:
        if k == "P":
            out.append({"kind": "P", "title": "~Parameter", "items": [["BHT", "DEGC", "35.5", "temp"], ["MUD", "", "GEL", "mud"]]})
        elif k == "O":
            out.append({"kind": "O", "title": "~Other", "lines": ["some free text 12 34", "more text"]})
        else:
            out.append({"kind": "X", "title": "~Tops", "items": [["TOPA", "M", "1500", "top a"]]})
    return out


def cell(i, j):
    return "%d.%d" % (100 + i, j + 1) if j else "%d.5" % (1000 + i)


def grid(tier):
    R = range(1, 7)
    for r in R:
        for c in R:
            for trail in ("none", "blank", "blanks", "comment", "indented_comment"):
                for after in ("last", "P", "O", "X", "PO"):
                    for eol, fin in EOLS:
                        yield {"rows": [[cell(i, j) for j in range(c)] for i in range(r)], "trail": trail, "after": after,
                               "eol": eol, "final": fin, "before": [], "noise": {}, "sep": " ", "lead": " ", "trailpad": ""}
    for case in _grid_tab():
        yield case
    for n in (1000, 1023, 1024, 1025, 1100, 2100, 4096, 8193, 70000):        # absolute line lengths around the usual buffer sizes
        for r, c in ((1, 2), (3, 3), (4, 1), (6, 5)):
            for after in ("last", "P"):
                yield {"rows": [[cell(i, j) for j in range(c)] for i in range(r)], "trail": "none", "after": after, "eol": "\n", "final": True,
                       "before": [], "noise": {}, "sep": " ", "lead": " ", "trailpad": "", "long_header_line": n}
    # the WRAP item of an unwrapped file in other spellings, and more / fewer columns than declared curves
    for spell in ("NO", "No", "no", "N", "FALSE", "n/a"):
        for delta in (0, -1, 1, 2):
            for r, c in ((1, 2), (3, 3), (4, 1), (2, 5)):
                for after in ("last", "P"):
                    yield {"rows": [[cell(i, j) for j in range(c)] for i in range(r)], "trail": "none", "after": after, "eol": "\n", "final": True,
                           "before": [], "noise": {}, "sep": " ", "lead": " ", "trailpad": "", "wrapspell": spell, "declared_delta": delta}


def _grid_tab():
    for r in (1, 3):
        for c in (1, 2, 4):
            for sep in ("\t", "\t\t", " \t"):
                for after in ("last", "P"):
                    yield {"rows": [[cell(i, j) for j in range(c)] for i in range(r)], "trail": "none", "after": after, "eol": "\n", "final": True,
                           "before": [], "noise": {}, "sep": sep, "lead": "", "trailpad": "", "dlm": "TAB"}


def n_random(tier):
    return 8000 if tier == "quick" else 150000


def rand_token(rng, kinds):
    k = rng.choice(kinds)
    mag = rng.choice([0, 1, 3, 5])
    v = rng.randint(0, 10 ** mag)
    if k == "int":
        s = str(v)
    elif k == "fixed":
        s = "%d.%s" % (v, "".join(rng.choice("0123456789") for _ in range(rng.randint(1, 6))))
    elif k == "exp":
        s = "%d.%dE%s%02d" % (rng.randint(1, 9), rng.randint(0, 999), rng.choice(["+", "-", ""]), rng.randint(0, 12))
        if rng.random() < 0.5:
            s = s.replace("E", "e")
    elif k == "dotfirst":
        s = ".%d" % rng.randint(0, 9999)
    elif k == "dotlast":
        s = "%d." % v
    elif k == "null":
        return rng.choice(["-999.25", "-999.2500", "-9.9925E2"])
    else:
        s = "0.0"
    sign = rng.random()
    if sign < 0.25:
        s = "-" + s
    elif sign < 0.32 and "spellplus" in kinds:
        s = "+" + s
    return s


def random_case(rng, tier):
    r = rng.choice([1, 1, 2, 3, 5, 8, 20, 21, 22, 40]) if rng.random() < 0.7 else rng.randint(1, 40)
    c = rng.choice([1, 1, 2, 3, 4, 7, 12])
    kinds = rng.sample(["int", "fixed", "exp", "dotfirst", "dotlast", "null", "zero"], rng.randint(1, 4))
    if rng.random() < 0.3:
        kinds.append("spellplus")
    rows = [[rand_token(rng, kinds) for _ in range(c)] for _ in range(r)]
    dens = rng.choice([0, 0, 0.1, 0.3, 0.5])
    noise = {}
    for i in range(r):
        if rng.random() < dens:
            noise[str(i)] = [rng.choice(["", "   ", "# comment 1 2 3", "#", "\t", "   # padded comment 4 5", " \t # 7"]) for _ in range(rng.randint(1, 2))]
    sep = rng.choice([" ", "  ", "     ", "\t", [" ", "\t", "  \t "], ["  ", " "]])
    dlm = None
    if rng.random() < 0.2:
        dlm = "TAB"             # declared tab delimiter: values separated by one or more tabs (with optional blanks around them)
        sep = rng.choice(["\t", "\t\t", [" \t", "\t ", "\t\t\t"], "\t\t\t"])       # never tab-blank-tab: that is an empty field, not padding
    return {"rows": rows, "trail": rng.choice(list(TRAILING)), "after": rng.choice(list(AFTER)),
            "eol": rng.choice(["\n", "\n", "\r\n"]), "final": rng.random() < 0.7,
            "before": rng.choice([[], ["P"], ["O"], ["P", "O"], ["X"]]), "noise": noise, "sep": sep,
            "lead": rng.choice(["", " ", "    ", "\t"]) if not dlm else "", "trailpad": rng.choice(["", " ", "   ", "\t"]) if not dlm else "", "kinds": kinds, "dlm": dlm,
            "wrapspell": rng.choice(["NO"] * 6 + ["No", "no", "N", "False"]), "declared_delta": rng.choice([0] * 6 + [-1, 1, 2])}


def build_text(case):
    rows = case["rows"]
    c = len(rows[0])
    secs = lastext.std_header(max(0, c + case.get("declared_delta", 0)), dlm=case.get("dlm"), wrap=case.get("wrapspell", "NO"))
    secs += after_sections(case.get("before", []))
    if case.get("long_header_line"):
        # one very long physical line in the header (a long company name / remark): the fast engine addresses the data by line NUMBERS
        n = case["long_header_line"]
        for sct in secs:
            if sct["kind"] == "W":
                sct["items"].append(["RMK", "", "r" * n, "a remark of %d characters" % n])
    noise = dict(case.get("noise", {}))
    if TRAILING[case["trail"]]:
        noise["end"] = TRAILING[case["trail"]]
    secs.append({"kind": "A", "title": "~ASCII", "rows": rows})
    secs += after_sections(AFTER[case["after"]])
    afile = {"sections": secs, "eol": case["eol"], "final_newline": case["final"]}
    layout = {"sep": case.get("sep", " "), "lead": case.get("lead", ""), "trail": case.get("trailpad", ""), "data_noise": noise}
    return lastext.render(afile, layout)


def observe(ctx, text, engine):
    lasio = ctx.lasio
    ev = ctx.probe.trace_events
    del ev[:]
    del _gen_calls[:]
    try:
        las = lasio.read(text, engine=engine)
        exc = None
    except Exception as e:
        las, exc = None, e
    trace = list(ev)
    numpy_started = ("start", NUMPY_FN[1]) in trace
    numpy_returned = ("return", NUMPY_FN[1]) in trace
    normal_started = ("start", NORMAL_FN[1]) in trace
    if engine == "numpy" and not _traced[0]:
        # the engine functions could not be located (renamed by a refactoring): fall back to the
        # numpy.genfromtxt recorder alone - returned normally exactly once = the fast path ran
        path = "fast" if _gen_calls == ["returned"] else ("fallback" if "raised" in _gen_calls else "unknown:%s" % (_gen_calls,))
    elif engine != "numpy" and not _traced[0]:
        path = "normal"
    elif engine == "numpy":
        if numpy_returned and not normal_started and "raised" not in _gen_calls:
            path = "fast"
        elif numpy_started and normal_started:
            path = "fallback"
        elif not numpy_started and normal_started:
            path = "normal-forced"
        else:
            path = "unknown:%s/%s" % (trace, _gen_calls)
    else:
        path = "normal" if normal_started and not numpy_started else "unknown:%s" % (trace,)
    out = {"exc": exc, "path": path, "las": las}
    if las is not None:
        out["curves"] = [np.asarray(c.data) for c in las.curves]
        out["header"] = canon.clas(las, data=False)
    return out


def truth(case):
    return np.array([[float(t) for t in row] for row in case["rows"]], dtype=float)


def as_matrix(curves):
    if curves and len({c.shape for c in curves}) == 1 and all(c.dtype.kind == "f" for c in curves):
        return np.column_stack(curves) if curves[0].ndim == 1 else None
    return None


def side_vs_truth(obs, T):
    """'ok' | 'raises:<Type>' | signature of how the observed data differ from the ground truth."""
    if obs["exc"] is not None:
        return "raises:" + type(obs["exc"]).__name__
    M = as_matrix(obs["curves"])
    want = T.copy()
    want[:, 1:][want[:, 1:] == -999.25] = np.nan
    if M is None:
        return "ragged-or-text"
    if M.shape == want.shape and np.array_equal(M, want, equal_nan=True):
        return "ok"
    if M.shape[1] == want.shape[1] and M.shape[0] == want.shape[0] - 1 and np.array_equal(M, want[:-1], equal_nan=True):
        return "last-row-missing"
    if M.shape[1] == want.shape[1] and M.shape[0] > want.shape[0] and np.array_equal(M[:want.shape[0]], want, equal_nan=True):
        return "extra-rows"
    if M.shape != want.shape:
        return "shape-%s" % ("transposed" if M.shape == want.shape[::-1] else "differs")
    return "values-differ"


def run_case(case, ctx):
    text = build_text(case)
    a = observe(ctx, text, "numpy")
    b = observe(ctx, text, "normal")
    ctx.count("comparisons")
    r, c = len(case["rows"]), len(case["rows"][0])
    fast = a["path"] == "fast"
    ctx.count("path_" + a["path"].split(":")[0])
    if a["path"].startswith("unknown") or b["path"].startswith("unknown"):
        ctx.count("attribution_unknown")
    has_noise = bool(case.get("noise")) or case["trail"] != "none"
    if fast:
        ctx.count("fast_path_comparisons")
        if case["after"] != "last":
            ctx.count("fast_path_with_following_section")
        if r == 1:
            ctx.count("fast_path_single_row")
        if c == 1:
            ctx.count("fast_path_single_column")
        if case["trail"] != "none":
            ctx.count("fast_path_with_trailing_noise")
    # ---- the oracle: the two observed outcomes are equal ----------------------------------------------------
    diffs = []
    if (a["exc"] is None) != (b["exc"] is None):
        diffs.append("only engine=%s raises: %r" % ("numpy" if a["exc"] is not None else "normal", a["exc"] or b["exc"]))
    elif a["exc"] is None:
        if len(a["curves"]) != len(b["curves"]):
            diffs.append("curve count numpy=%d normal=%d" % (len(a["curves"]), len(b["curves"])))
        else:
            for j, (x, y) in enumerate(zip(a["curves"], b["curves"])):
                if x.shape != y.shape:
                    diffs.append("curve %d shape numpy=%r normal=%r" % (j, x.shape, y.shape))
                elif x.dtype.kind != y.dtype.kind:
                    diffs.append("curve %d dtype numpy=%s normal=%s" % (j, x.dtype, y.dtype))
                elif x.dtype.kind == "f":
                    if not np.array_equal(np.isnan(x), np.isnan(y)):
                        diffs.append("curve %d NaN positions differ" % j)
                    elif not np.array_equal(x.view(np.int64)[~np.isnan(x)], y.view(np.int64)[~np.isnan(y)]):
                        k = int(np.flatnonzero((x.view(np.int64) != y.view(np.int64)) & ~np.isnan(x))[0])
                        diffs.append("curve %d sample %d bits differ: numpy=%r normal=%r" % (j, k, x[k], y[k]))
                elif [str(v) for v in x.tolist()] != [str(v) for v in y.tolist()]:
                    diffs.append("curve %d text values differ" % j)
        if a["header"] != b["header"]:
            diffs.append("header sections differ: %s" % canon.diff(a["header"], b["header"])[:3])
    if diffs:
        T = truth(case)
        sa, sb = side_vs_truth(a, T), side_vs_truth(b, T)
        mech = "engines-disagree:numpy=%s,normal=%s:%s:%s" % (
            sa, sb, "A-last" if case["after"] == "last" else "A-inner",
            "1x1" if (r, c) == (1, 1) else "1xN" if r == 1 else "Nx1" if c == 1 else "NxM")
        if has_noise and sa != "ok" and sb == "ok" and False:
            pass
        ctx.violation(mech + (":noise" if has_noise else ""), "; ".join(diffs[:4]) + " [numpy path: %s]" % a["path"],
                      {"text": text, "numpy_vs_truth": sa, "normal_vs_truth": sb})
    sig = ["r1" if r == 1 else "r2-6" if r <= 6 else "r>6", "c1" if c == 1 else "c2-6" if c <= 6 else "c>6", case["trail"],
           case["after"], case["eol"], case["final"], case.get("dlm"), sorted(case.get("kinds", ["grid"])), sorted(len(v) for v in case.get("noise", {}).values())[:3],
           bool(case.get("before")), str(case.get("sep"))]
    if fast:
        ctx.case_done(sig + ["fast"], nontrivial=(r * c >= 2 or has_noise or case["after"] != "last"))
        if case.get("noise") or case["after"] != "last":
            ctx.sample({"text": text, "numpy_path": a["path"], "shape": [r, c]}, limit=4)
    else:
        ctx.case_done(sig + [a["path"].split(":")[0]], nontrivial=False)


def verdict_extra(counters, sets, tier):
    out = []
    n, f = counters.get("comparisons", 0), counters.get("fast_path_comparisons", 0)
    if n and f < 0.6 * n and f < 100:
        out.append("only %d of %d comparisons exercised the fast path" % (f, n))
    if counters.get("attribution_unknown", 0):
        out.append("engine attribution failed for %d reads (engine functions renamed?)" % counters["attribution_unknown"])
    return out
