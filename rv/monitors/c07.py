"""C07 — curves are rectangular and bound to their own column.

Every data cell carries its own coordinates (value = row + column/1000), every declared curve a
unique unit/description tag; after each successful read the observed curves are compared cell by
cell with the generator's matrix."""
import numpy as np

from rv.gen import lastext

ID = "C07"
LEVEL = "exploration"
RULE = ("full grid: declared curves d in {no ~C section, 0..6} x data columns c in 1..8 x rows r in {1,2,3,5} x engine "
        "{numpy, normal} x {unwrapped; WRAP YES with c = d and every physical line width 1..c}; plus unwrapped variants "
        "with blank/comment lines inside the data and ~A followed by another section; DLM COMMA / TAB / padded commas with and without a column of negative values; random shapes up to 40 rows x 50 "
        "columns. distinct = distinct (d, c, r class, engine, wrap width, noise, placement); non-trivial = r*c >= 2 and "
        "the read succeeded Added later: digit-named curves, readings next to and equal to NULL, a column of labels (first or second) in every shape, comma-delimited text cells holding quote characters, row counts around the 21-line sniffing window. Round 8: cells in exponent notation with negative exponents on every other line.")
ASSUMPTIONS = [
    "a read that raises is not a 'successful read' and is counted, not judged, here (C09/C02 judge those)",
    "cells equal the NULL value only in the 'nearnull' cases, where a non-index cell equal to NULL is expected as NaN and every other reading, however close to NULL, as itself; default mnemonic_case (upper)",
]
EXHAUSTIVE = "the (d, c, r, engine, wrap width) grid described in the rule"
REQUIRED = ["successful_reads", "cells_compared", "cases_more_columns_than_declared", "cases_fewer_columns_than_declared",
            "cases_wrapped", "cases_no_curve_section", "nan_filled_curves_checked", "unnamed_extra_curves_checked", "cases_declared_delimiter", "cases_with_readings_next_to_null", "text_columns_compared"]
SOFT_DEADLINE = {"quick": 90, "thorough": 1200}
LEVEL_TEXT = ("Exploration with a cell-by-cell oracle: coordinates are encoded in the values, so any shifted, merged or "
              "reordered column is visible wherever it happens.")
LEVEL_NOTE = "Holds for the shapes enumerated (full small grid) and sampled; trusts float parsing of the coordinate tokens."
TECHNIQUE = "runtime monitoring: ground-truth-by-construction oracle (cells encode their coordinates) over a full shape grid and random shapes"


def curve_name(case, j, d):
    """Declared mnemonic of curve j: K<j>, or - with 'digitnames' - a bare number that is the *position of another curve*."""
    if case.get("digitnames") and d > 1:
        return str((j + 1) % d)
    return "K%d" % j


def cellv(i, j, neg=False):
    return ("-" if neg and j == 1 else "") + "%d.%03d" % (i + 1, j + 1)


NEAR_NULL = ["-999.24", "-999.2501", "-999.26", "-999.25", "-999.249999", "-999.3", "999.25", "-999.2500"]


def celltok(case, i, j):
    """The token written for cell (i, j): its coordinates, or - with 'nearnull' - a reading next to (or equal to) the NULL -999.25;
    with 'textcol' = k the cells of column k are labels (time stamps, station names) that carry their coordinates as text."""
    if case.get("textcol") is not None and j == case["textcol"]:
        if (case.get("dlm") or "").startswith("COMMA") and case.get("quotechars"):
            return "R%dC%d%s" % (i + 1, j + 1, ["_O'B", '"', "'s", "_a'b'c"][(i + j) % 4])     # in a comma-delimited file quote characters are ordinary text
        return "R%dC%d" % (i + 1, j + 1)
    if case.get("nearnull") and (i + 2 * j) % 3 == 0:
        return NEAR_NULL[(i * 7 + j) % len(NEAR_NULL)]
    if case.get("sci") and i % 2 == 1 and j >= 1:
        # the same coordinates in exponent notation with a negative exponent (every other line: a hyphen is not on every line)
        return "%d.%03d%s-0%d" % (i + 1, j + 1, "Ee"[j % 2], 1 + (i + j) % 3)
    return cellv(i, j, bool(case.get("neg")))


def cellwant(case, i, j):
    if case.get("textcol") is not None and j == case["textcol"]:
        return celltok(case, i, j)
    x = float(celltok(case, i, j))
    return float("nan") if (j > 0 and x == -999.25) else x


def grid(tier):
    for d in [None, 0, 1, 2, 3, 4, 5, 6]:
        for c in range(1, 9):
            for r in (1, 2, 3, 5):
                for engine in ("numpy", "normal"):
                    yield {"d": d, "c": c, "r": r, "engine": engine, "wrap": None, "noise": None, "after": False}
                    if r >= 2:
                        yield {"d": d, "c": c, "r": r, "engine": engine, "wrap": None, "noise": "blank", "after": False}
                        yield {"d": d, "c": c, "r": r, "engine": engine, "wrap": None, "noise": "comment", "after": True}
    for c in range(1, 9):
        for w in range(1, c + 1):
            for r in (1, 2, 3, 5):
                for engine in ("numpy", "normal"):
                    yield {"d": c, "c": c, "r": r, "engine": engine, "wrap": w, "noise": None, "after": False}
    for dlm in ("COMMA", "TAB", "COMMA_PADDED"):
        for d in (None, 1, 3, 4, 6):
            for c in (1, 2, 3, 4, 5):
                for r in (1, 3, 25):
                    for neg in (False, True):
                        yield {"d": d, "c": c, "r": r, "engine": "numpy" if (d or 0) % 2 else "normal", "wrap": None, "noise": None, "after": r == 3,
                               "dlm": dlm, "neg": neg}
    for c in (2, 3, 5):                      # cells in exponent notation with a negative exponent, on every engine route
        for r in (2, 3, 5, 24):
            for d in (None, c, c + 1):
                for engine in ("numpy", "normal"):
                    yield {"d": d, "c": c, "r": r, "engine": engine, "wrap": None, "noise": None, "after": False, "sci": True}
            yield {"d": c, "c": c, "r": r, "engine": "normal", "wrap": 2, "noise": None, "after": False, "sci": True}
            yield {"d": c, "c": c, "r": r, "engine": "numpy", "wrap": None, "noise": None, "after": False, "sci": True, "dlm": "COMMA"}
    for d in (2, 3, 4, 6):                   # curves named with bare numbers that are positions of other curves
        for c in (d - 1, d, d + 1):
            for engine in ("numpy", "normal"):
                for mc_wrap in (None, d):
                    if mc_wrap and c != d:
                        continue
                    yield {"d": d, "c": c, "r": 3, "engine": engine, "wrap": mc_wrap, "noise": None, "after": False, "digitnames": True}
    for d, c in ((3, 3), (2, 4), (4, 2), (None, 3)):     # readings next to the NULL value are readings, not gaps
        for r in (3, 5):
            for engine in ("numpy", "normal"):
                for wrap in (None, c if d == c else None):
                    yield {"d": d, "c": c, "r": r, "engine": engine, "wrap": wrap, "noise": None, "after": False, "nearnull": True}
    for tc in (0, 1):                       # a column of labels (first or second), with fewer / equal / more columns than declared curves
        for d, c in ((5, 3), (3, 3), (2, 4), (4, 2), (None, 3), (6, 2)):
            if tc >= c:
                continue
            for r in (1, 3):
                for engine in ("numpy", "normal"):
                    yield {"d": d, "c": c, "r": r, "engine": engine, "wrap": None, "noise": None, "after": r == 3, "textcol": tc}
    for d, c in ((3, 3), (2, 4), (4, 3), (None, 3)):
        for tc in (0, 1, 2):
            for engine in ("numpy", "normal"):
                yield {"d": d, "c": c, "r": 4, "engine": engine, "wrap": None, "noise": None, "after": False, "textcol": tc, "dlm": "COMMA", "quotechars": True}
    for r in (19, 20, 21, 22, 23):           # around the sniffing window of 21 data lines
        for d, c in ((3, 3), (2, 4), (5, 3), (None, 2)):
            for engine in ("numpy", "normal"):
                for noise in (None, "blank", "comment"):
                    yield {"d": d, "c": c, "r": r, "engine": engine, "wrap": None, "noise": noise, "after": noise is not None}
    for c in (14, 21, 28, 35):
        for w in (7, 5, c):
            yield {"d": c, "c": c, "r": 3, "engine": "numpy", "wrap": w, "noise": None, "after": False}


def n_random(tier):
    return 1200 if tier == "quick" else 30000


def random_case(rng, tier):
    c = rng.choice([1, 2, 3, 5, 8, 13, 21, 34, 50])
    r = rng.choice([1, 2, 4, 9, 19, 20, 21, 22, 23, 40])
    rel = rng.choice(["eq", "eq", "less", "more", "none"])
    d = {"eq": c, "less": max(0, c - rng.randint(1, 3)), "more": c + rng.randint(1, 3), "none": None}[rel]
    wrap = None
    if rel == "eq" and rng.random() < 0.4:
        wrap = rng.randint(1, c)
    return {"d": d, "c": c, "r": r, "engine": rng.choice(["numpy", "normal"]), "wrap": wrap,
            "noise": rng.choice([None, None, "blank", "comment"]) if wrap is None else None,
            "after": rng.random() < 0.3, "dlm": rng.choice([None, None, "COMMA", "TAB", "COMMA_PADDED"]) if wrap is None else None,
            "neg": rng.random() < 0.3, "digitnames": rng.random() < 0.15, "nearnull": rng.random() < 0.15,
            "textcol": rng.choice([0, 1]) if rng.random() < 0.12 and wrap is None else None, "quotechars": rng.random() < 0.5}


def build(case):
    d, c, r = case["d"], case["c"], case["r"]
    dlm = case.get("dlm")
    neg = bool(case.get("neg"))
    secs = lastext.std_header(max(d or 0, 0), wrap="YES" if case["wrap"] else "NO", dlm=dlm.split("_")[0] if dlm else None)
    if d is None:
        secs = [s for s in secs if s["kind"] != "C"]
    else:
        for s in secs:
            if s["kind"] == "C":
                s["items"] = [[curve_name(case, j, d), "U%d" % j, "", "tag%d" % j] for j in range(d)]
    rows = [[celltok(case, i, j) for j in range(c)] for i in range(r)]
    noise = {}
    if case["noise"] == "blank":
        noise = {"1": [""]}
    elif case["noise"] == "comment":
        noise = {"1": ["# a comment 1 2 3"], "end": ["#"]}
    if case["wrap"]:
        w = case["wrap"]
        phys = []
        for row in rows:
            for k in range(0, c, w):
                phys.append(row[k:k + w])
        secs.append({"kind": "A", "title": "~ASCII", "rows": phys})
    else:
        secs.append({"kind": "A", "title": "~ASCII", "rows": rows})
    if case["after"]:
        secs.append({"kind": "P", "title": "~Parameter", "items": [["BHT", "DEGC", "35.5", "temp"]]})
    sep = {"COMMA": ",", "TAB": "\t", "COMMA_PADDED": " , "}.get(dlm, " ")
    return lastext.render({"sections": secs, "eol": "\n", "final_newline": True}, {"sep": sep, "lead": "" if dlm else " ", "data_noise": noise})


def run_case(case, ctx):
    lasio = ctx.lasio
    text = build(case)
    d, c, r = case["d"], case["c"], case["r"]
    dd = d or 0
    try:
        las = lasio.read(text, engine=case["engine"])
    except Exception as e:
        ctx.count("reads_raised")
        ctx.seen("read_exceptions", "%s: d=%s c=%d r=%d wrap=%s noise=%s" % (type(e).__name__, d, c, r, case["wrap"], case["noise"]))
        ctx.case_done([d, c, r, case["engine"], case["wrap"], case["noise"], case["after"], "raised"], nontrivial=False)
        return
    ctx.count("successful_reads")
    V = ctx.violation
    rel = "none" if d is None else ("eq" if d == c else "more-columns" if c > dd else "fewer-columns")
    tag = "%s:%s" % ("wrapped" if case["wrap"] else "unwrapped", rel)
    detail = {"text": text, "d": d, "c": c, "r": r, "engine": case["engine"], "wrap": case["wrap"]}
    if c > dd:
        ctx.count("cases_more_columns_than_declared")
    if c < dd:
        ctx.count("cases_fewer_columns_than_declared")
    if case["wrap"]:
        ctx.count("cases_wrapped")
    if d is None:
        ctx.count("cases_no_curve_section")
    curves = list(las.curves)
    lens = [len(cu.data) for cu in curves]
    if len(set(lens)) > 1:
        V("curves-not-rectangular:" + tag, "curve lengths %r" % lens, detail)
    want_n = max(dd, c)
    if len(curves) != want_n:
        V("curve-count:" + tag, "%d curves after read, expected max(declared %d, columns %d)" % (len(curves), dd, c), detail)
    for j, cu in enumerate(curves[:want_n]):
        if j < dd:
            if (cu.original_mnemonic, cu.unit, cu.descr) != (curve_name(case, j, dd), "U%d" % j, "tag%d" % j):
                V("declared-curve-metadata-moved:" + tag, "curve #%d is (%r,%r,%r), declared (%s,U%d,tag%d)" % (
                    j, cu.original_mnemonic, cu.unit, cu.descr, curve_name(case, j, dd), j, j), detail)
        else:
            ctx.count("unnamed_extra_curves_checked")
            if cu.original_mnemonic != "" or not cu.mnemonic.startswith("UNKNOWN"):
                V("surplus-column-not-unnamed:" + tag, "curve #%d for surplus column is named %r/%r" % (j, cu.original_mnemonic, cu.mnemonic), detail)
        data = np.asarray(cu.data)
        if j < c:
            want = np.array([cellwant(case, i, j) for i in range(r)])
            ctx.count("cells_compared", r)
            if want.dtype.kind == "U":
                ctx.count("text_columns_compared")
                # blanks that pad a COMMA/TAB delimiter stay in a text cell (C09's known finding): C07 judges the binding, not the padding
                if data.shape != want.shape or [str(x).strip() for x in data.tolist()] != want.tolist():
                    V("cell-displaced:text-column:" + tag, "curve #%d holds %s, text column %d of the data is %s" % (j, _a(data), j, _a(want)), detail)
            elif data.shape != want.shape or data.dtype.kind != "f" or not np.array_equal(data, want, equal_nan=True):
                V("cell-displaced:" + tag, "curve #%d holds %s, column %d of the data is %s" % (
                    j, _a(data), j, _a(want)), detail)
        else:
            ctx.count("nan_filled_curves_checked")
            if data.shape != (r,) or data.dtype.kind != "f" or not np.all(np.isnan(data)):
                V("missing-column-not-nan-filled:" + tag, "declared curve #%d without a column holds %s, expected %d NaN" % (j, _a(data), r), detail)
    if case.get("dlm"):
        ctx.count("cases_declared_delimiter")
    if case.get("nearnull"):
        ctx.count("cases_with_readings_next_to_null")
    ctx.case_done([d, c, "r1" if r == 1 else "r2-5" if r <= 5 else "r>5", case["engine"], case["wrap"], case["noise"], case["after"], case.get("dlm"), case.get("neg"), case.get("digitnames"), case.get("nearnull"), case.get("textcol")],
                  nontrivial=r * c >= 2)
    if case["wrap"] or rel != "eq":
        ctx.sample({"case": case, "text": text, "keys": las.keys()}, limit=4)


def _a(a):
    a = np.asarray(a)
    return a.tolist() if a.size <= 10 else a[:10].tolist() + ["..."]
