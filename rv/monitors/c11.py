"""C11 — lasio's own output is a fixed point of read -> write.

History: l0 = read(x); t1 = write(l0); l1 = read(t1); t2 = write(l1); l2 = read(t2); ... The monitor
records every read/write event of the history and requires canon(l_{n+1}) == canon(l_n) for
n >= 1 (numeric header values compared numerically), plus drift detectors over the whole history
(item counts, field lengths and mnemonic suffixes must not grow)."""
import glob
import io
import os
import re

import numpy as np

from rv import canon, env
from rv.gen import lasobj

ID = "C11"
LEVEL = "exploration"
RULE = ("inputs: every example file lasio can read and write (skips counted by reason), generated LASFiles (rv/gen/lasobj, with "
        "duplicated/blank/case-variant mnemonics, text curves, custom sections) and mutations of corpus files (duplicated and "
        "blanked mnemonics, '.1IN'-style units, emptied values, a STEP line without unit and value, very long fields) x writer option sets (default, version 1.2, "
        "version 2 wrapped, fmt %.2f, narrow data_width, mnemonics header) x 4 (quick) / 6 (thorough) load-save cycles. "
        "distinct = distinct (input, mutation, option set); non-trivial = history that completed >= 2 cycles Added later: declared versions 1.0..3.0, WRAP spellings x 7..35 curves, digits-only units, nested bracket units, blank mnemonic with a float value, trailing empty ~Other lines, date-like text curves, zero-row objects, second NULL lines. Hunter rounds: literal files x writer options (duplicated WRAP / VERS lines, wrapped text samples starting with '#' / '~', tokens longer than data_width, mnemonics ending with a period, blank / multi-word NULL values, NaN in the index, bracketed units with periods, 7-decimal indexes, exponent-notation hyphens, quote characters) and histories by file NAME. Round 8: header items whose unit is a decimal number on the widest line of their section; a DLM line stated twice.")
ASSUMPTIONS = [
    "the first re-read l1 is the reference: precision lost by the chosen fmt in the first write is not drift",
    "inputs lasio cannot read, or whose first write() raises, are outside 'any input that lasio can read and then write' and are counted by reason",
]
REQUIRED = ["histories_completed", "corpus_histories_completed", "generated_histories_completed", "mutated_histories_completed", "cycle_comparisons", "histories_with_declared_version_1.0", "histories_with_declared_version_2.1", "histories_with_declared_version_3.0", "inputs_with_wide_tables", "histories_by_file_name"]
SOFT_DEADLINE = {"quick": 100, "thorough": 1500}
LEVEL_TEXT = "Exploration of load/save histories: every cycle's result is compared with the previous one and with drift detectors."
LEVEL_NOTE = "Trusts the canonical snapshot; inputs outside corpus/generators/mutations are not covered."
TECHNIQUE = "runtime monitoring: history checker over recorded read/write cycles (fixed-point relation + drift detectors)"

OPTSETS = [{}, {"version": 1.2}, {"version": 2, "wrap": True}, {"fmt": "%.2f"}, {"wrap": True, "data_width": 40, "fmt": "%.3f"},
           {"mnemonics_header": True, "data_section_header": "~A"}, {"version": 1.2, "wrap": False, "len_numeric_field": -1}]
MUTATIONS = ["none", "dup_curve", "blank_curve", "dup_param", "unit_point1in", "empty_values", "long_fields", "blank_param", "empty_step", "dup_null", "vers_1.0", "vers_2.1", "vers_3.0", "vers_1.2", "wrap_Yes", "wrap_yes", "wrap_No", "numeric_unit", "decimal_unit", "blank_param_float", "nested_bracket_units", "other_trailing_blank_lines", "date_text_curve", "no_rows"]

LIT_BASE = """~Version
VERS. 2.0 : CWLS LOG ASCII STANDARD - VERSION 2.0
WRAP. NO  : ONE LINE PER DEPTH STEP
~Well
STRT.M   1.0 : START
STOP.M   3.0 : STOP
STEP.M   1.0 : STEP
NULL. -999.25 : NULL VALUE
~Curves
{c0}
{c1}
{c2}
~Params
~Other
~ASCII
{data}
"""


def _lit(c0="DEPT.M : depth", c1="GR.API : gamma ray", c2="TXT. : remark", data="1.0 2.0 abc\n2.0 3.0 def\n3.0 4.0 ghi", **repl):
    t = LIT_BASE.format(c0=c0, c1=c1, c2=c2, data=data)
    for a, b in repl.get("replace", []):
        assert a in t, a
        t = t.replace(a, b)
    return t


_WIDE_C1 = "\n".join("C%d. : c%d" % (i, i) for i in range(1, 6))
# literal files x writer options, from the refutation attempt on this property (hunts/HUNT_C11.md) and variations of them
LITERALS = {
    "dup_wrap_false": (_lit(replace=[("WRAP. NO  : ONE LINE PER DEPTH STEP", "WRAP. NO  : ONE LINE PER DEPTH STEP\nWRAP. NO  : ONE LINE PER DEPTH STEP")]), {"wrap": False}),
    "dup_wrap_true": (_lit(replace=[("WRAP. NO  : ONE LINE PER DEPTH STEP", "WRAP. NO  : ONE LINE PER DEPTH STEP\nWRAP. YES : MULTIPLE")]), {"wrap": True}),
    "dup_vers_no_rows": (_lit(data="", replace=[("VERS. 2.0 : CWLS LOG ASCII STANDARD - VERSION 2.0", "VERS. 2.0 : CWLS LOG ASCII STANDARD - VERSION 2.0\nVERS. 2.0 : again")]), {"version": 2}),
    "dup_wrap_true_narrow": (_lit(c1=_WIDE_C1, c2="X. : x", data="\n".join("%d.0 1 2 3 4 5 6" % i for i in (1, 2, 3)), replace=[("WRAP. NO  : ONE LINE PER DEPTH STEP", "WRAP. NO  : ONE LINE PER DEPTH STEP\nWRAP. NO  : ONE LINE PER DEPTH STEP")]), {"wrap": True, "data_width": 30}),
    "dup_vers_no_rows_to_1.2": (_lit(data="", replace=[("VERS. 2.0 : CWLS LOG ASCII STANDARD - VERSION 2.0", "VERS. 2.0 : CWLS LOG ASCII STANDARD - VERSION 2.0\nVERS. 2.0 : again"), ("NULL. -999.25 : NULL VALUE", "NULL. -999.25 : NULL VALUE\nCOMP. ACME : COMPANY")]), {"version": 1.2}),
    "null_marker_of_two_tokens": (_lit(data="1.0 2.0 5\n2.0 NaN 6\n3.0 4.0 7", replace=[("NULL. -999.25 : NULL VALUE", "NULL. -999.25 -9999 : NULL VALUES")]), {}),
    "null_marker_text_with_blank": (_lit(data="1.0 2.0 5\n2.0 NaN 6\n3.0 4.0 7", replace=[("NULL. -999.25 : NULL VALUE", "NULL. NOT USED : NULL VALUE")]), {}),
    "dup_dlm_comma": (_lit(data="1.0,2.0,abc\n2.0,3.0,def\n3.0,4.0,ghi", replace=[("WRAP. NO  : ONE LINE PER DEPTH STEP", "WRAP. NO  : ONE LINE PER DEPTH STEP\nDLM. COMMA : d\nDLM. COMMA : d again")]), {}),
    "dup_dlm_comma_wrapped": (_lit(c1=_WIDE_C1, c2="X. : x", data="\n".join("%d.0,1,2,3,4,5,6" % i for i in (1, 2, 3)), replace=[("WRAP. NO  : ONE LINE PER DEPTH STEP", "WRAP. NO  : ONE LINE PER DEPTH STEP\nDLM. COMMA : d\nDLM. COMMA : d again")]), {"wrap": True, "data_width": 30}),
    "wrapped_hash_sample": (_lit(c1=_WIDE_C1, c2="WHAT. : text\nTAG . : tag", data="\n".join("%d.0 1 2 3 4 5 run #%d" % (i, i) for i in (1, 2, 3))), {"wrap": True}),
    "wrapped_tilde_sample": (_lit(c1=_WIDE_C1, c2="WHAT. : text\nTAG . : tag", data="\n".join("%d.0 1 2 3 4 5 run ~%d" % (i, i) for i in (1, 2, 3))), {"wrap": True}),
    "wrapped_long_token": (_lit(data="1.0 2.0 http://example.org/%s\n2.0 3.0 def\n3.0 4.0 ghi" % ("x" * 70)), {"wrap": True}),
    "wrapped_long_number": (_lit(data="1.0 1e80 5\n2.0 3.0 6\n3.0 4.0 7"), {"wrap": True}),
    "index_mnemonic_ends_with_period": (_lit(c0="ELEV..M : elevation", c1="GAMMARAY.API : gamma ray"), {}),
    "curve_mnemonic_ends_with_period": (_lit(c1="COND..MS/M : conductivity", c2="GAMMARAY.API : gamma ray", data="1.0 2.0 5\n2.0 3.0 6\n3.0 4.0 7"), {}),
    "empty_null_nan_sample": (_lit(data="1.0 2.0 5\n2.0 NaN 6\n3.0 4.0 7", replace=[("NULL. -999.25 : NULL VALUE", "NULL.  : NULL VALUE")]), {}),
    "index_last_nan": (_lit(data="1.0 2.0 5\n2.0 3.0 6\nNaN 4.0 7"), {}),
    "index_first_nan": (_lit(data="NaN 2.0 5\n2.0 3.0 6\n3.0 4.0 7"), {}),
    "unit_brackets_and_periods": (_lit(replace=[("NULL. -999.25 : NULL VALUE", "NULL. -999.25 : NULL VALUE\nFOO.(((m).).) 5 : odd unit")]), {}),
    "well_value_ends_with_colon_to_1.2": (_lit(replace=[("NULL. -999.25 : NULL VALUE", "NULL. -999.25 : NULL VALUE\nRMK .M see note: : remark")]), {"version": 1.2}),
    "index_seven_decimals_default_fmt": (_lit(data="0.1234567 2.0 5\n0.2234567 3.0 6\n0.3234567 4.0 7", replace=[("STRT.M   1.0", "STRT.M   0.1234567"), ("STOP.M   3.0", "STOP.M   0.3234567"), ("STEP.M   1.0", "STEP.M   0.1")]), {}),
    "exponent_hyphens_then_text_hyphen": (_lit(data="1.0 2.5E-3 abc\n2.0 3.5E-3 1-5\n3.0 4.5E-3 ghi"), {}),
    # read and written by file NAME: a non-ASCII character beyond the first 4000 bytes (and one within them)
    "late_nonascii_by_path": (_lit(replace=[("~Other", "".join("P%03d .        %d : filler parameter number %d\n" % (i, i, i) for i in range(120)) + "BHT2 .degC   35.5 : temp 35°C\n~Other")]), {"by_path": True}),
    "early_nonascii_by_path": (_lit(replace=[("~Other", "BHT2 .°C   35.5 : température Ågård\n~Other")]), {"by_path": True}),
    "text_sample_with_quote_char": (_lit(data="1.0 2.0 \"O'Brien\"\n2.0 3.0 Smith\n3.0 4.0 Jones"), {}),
}


def corpus():
    return sorted(os.path.relpath(f, env.REPO) for f in glob.glob(os.path.join(env.REPO, "tests", "examples", "**", "*.las"), recursive=True))


def grid(tier):
    for fn in corpus():
        for oi in (0, 1, 2):
            yield {"input": fn, "mutation": "none", "opts": oi}
    for i, fn in enumerate(corpus()):
        for mi in range(1, len(MUTATIONS)):
            yield {"input": fn, "mutation": MUTATIONS[mi], "opts": (i + mi) % len(OPTSETS)}
    for i, fn in enumerate(corpus()):
        if i % 3 == 0:
            yield {"input": fn, "mutation": "dup_null", "opts": 1}
    for name in sorted(LITERALS):
        yield {"input": "lit", "name": name, "mutation": "none", "opts": 0}
    for k in range(20):
        yield {"input": "gen", "seed": 1000 + k, "mutation": "dup_null", "opts": [1, 6][k % 2]}
    for k in range(8):
        yield {"input": "gen", "seed": 5000 + k, "mutation": "numeric_unit", "opts": k % len(OPTSETS)}
    for k in range(8):
        yield {"input": "gen", "seed": 5050 + k, "mutation": "decimal_unit", "opts": k % len(OPTSETS)}
    for k in range(4):
        yield {"input": "gen", "seed": 5100 + k, "mutation": "blank_param_float", "opts": [0, 1, 2, 5][k]}
    for k in range(4):
        yield {"input": "gen", "seed": 5200 + k, "mutation": "nested_bracket_units", "opts": [0, 1, 2, 5][k]}
    for k in range(3):
        yield {"input": "gen", "seed": 5300 + k, "mutation": "other_trailing_blank_lines", "opts": [0, 1, 2][k]}
    for k in range(4):
        yield {"input": "gen", "seed": 5400 + k, "mutation": "date_text_curve", "opts": [2, 4, 0, 1][k], "wide": 8}
    for k in range(4):
        yield {"input": "gen", "seed": 5500 + k, "mutation": "no_rows", "opts": [0, 1, 2, 4][k]}
    for k, v in enumerate(["vers_1.0", "vers_1.2", "vers_2.1", "vers_3.0"] * 6):
        yield {"input": "gen", "seed": 2000 + k, "mutation": v, "opts": [0, 3, 5, 4][k % 4]}      # option sets that leave version=None
    k = 0
    for wide in (6, 13, 20, 27, 34):                  # 7, 14, 21, 28, 35 curves: multiples of the default line capacity
        for mut in ("none", "wrap_Yes", "wrap_yes", "wrap_No"):
            for oi in (0, 3, 5):                        # option sets that leave wrap=None
                k += 1
                yield {"input": "gen", "seed": 4000 + k, "mutation": mut, "opts": oi, "wide": wide}
    for k in range(60 if tier == "quick" else 400):
        yield {"input": "gen", "seed": k, "mutation": "none", "opts": k % len(OPTSETS)}


def n_random(tier):
    return 300 if tier == "quick" else 8000


def random_case(rng, tier):
    if rng.random() < 0.5:
        c = {"input": "gen", "seed": rng.randrange(10 ** 9), "mutation": rng.choice(["none", "none", "none", "vers_1.0", "vers_2.1", "vers_3.0", "wrap_Yes", "wrap_yes"]), "opts": rng.randrange(len(OPTSETS))}
        if rng.random() < 0.3:
            c["wide"] = rng.choice([6, 13, 20, 27, 34, 41])
        return c
    return {"input": rng.choice(corpus()), "mutation": rng.choice(MUTATIONS), "opts": rng.randrange(len(OPTSETS))}


def mutate(lasio, las, mutation):
    if mutation == "dup_curve" and len(las.curves) >= 2:
        las.curves[-1].mnemonic = las.curves[1].original_mnemonic
        las.curves.assign_duplicate_suffixes()
    elif mutation == "blank_curve" and len(las.curves) >= 2:
        las.curves[-1].mnemonic = ""
        las.curves[-1].unit = las.curves[-1].unit.replace(".", "")
        las.curves[-1].descr = las.curves[-1].descr.replace(".", " ")
        las.curves[-1].value = str(las.curves[-1].value).replace(".", " ")
        las.curves.assign_duplicate_suffixes()
    elif mutation == "dup_param":
        las.params.append(lasio.HeaderItem("BHT", "DEGC", 35.5, "first"))
        las.params.append(lasio.HeaderItem("BHT", "DEGF", 95.9, "second"))
    elif mutation == "blank_param":
        las.params.append(lasio.HeaderItem("", "m", 12, "blank mnemonic"))
        las.params.append(lasio.HeaderItem("", "", "text", "another blank"))
    elif mutation == "unit_point1in" and len(las.curves) >= 1:
        las.curves[0].unit = ".1IN"
        for m in ("STRT", "STOP", "STEP"):
            if m in las.well:
                las.well[m].unit = ".1IN"
    elif mutation == "empty_values":
        for it in list(las.params)[:3]:
            it.value = ""
        las.params.append(lasio.HeaderItem("EMPT", "ohm.m/verylongunit", "", "empty value, widest unit"))
    elif mutation == "empty_step":
        # a STEP line with neither unit nor value ('STEP.   : STEP'), as irregularly sampled files have it
        if "STEP" in las.well:
            las.well["STEP"].unit = ""
            las.well["STEP"].value = ""
        las.params.append(lasio.HeaderItem("NOUNIT", "", "", "empty value, no unit"))
    elif mutation == "dup_null":
        # a second NULL line in ~Well; NaN samples are replaced so that the object stays writable
        las.well.append(lasio.HeaderItem("NULL", "", -9999, "second null value"))
        for c in las.curves:
            d = np.asarray(c.data)
            if d.dtype.kind == "f" and np.isnan(d).any():
                c.data = np.where(np.isnan(d), 1.5, d)
    elif mutation.startswith("vers_"):
        # every version number defaults.ORDER_DEFINITIONS tabulates, declared by the object itself (write(version=None) keeps it)
        las.version["VERS"].value = float(mutation[5:])
    elif mutation == "date_text_curve":
        # text samples of the form digits-hyphen-digits (dates): the reader's run-on-number repair leaves them alone only if every sampled line has a hyphen
        n = len(las.curves[0].data) if len(las.curves) else 0
        las.append_curve("DATE", np.array(["2018-05-%02d" % (i % 28 + 1) for i in range(n)]), descr="text curve of dates")
    elif mutation == "no_rows":
        # declared curves, no data rows (a header-only file as written by lasio itself)
        for c in las.curves:
            c.data = np.asarray(c.data)[:0]
    elif mutation == "other_trailing_blank_lines":
        las.other = (las.other or "remarks") + "\n\n\n"
    elif mutation == "nested_bracket_units":
        # units in two or three layers of brackets (one layer is stripped by every read)
        las.params.append(lasio.HeaderItem("BRK2", "((m))", 5, "two layers"))
        las.params.append(lasio.HeaderItem("BRK3", "[[[ohm.m]]]", 7.5, "three layers"))
        las.well.append(lasio.HeaderItem("BRKM", "([m])", 1, "mixed layers"))
        if len(las.curves) >= 2:
            las.curves[-1].unit = "((gAPI))"
    elif mutation == "blank_param_float":
        # what reading ' .m 1e3 : d' gives: a blank mnemonic whose value prints with a period (known finding: the line then holds a second period)
        las.params.append(lasio.HeaderItem("", "m", 1000.0, "blank mnemonic, float value"))
    elif mutation == "numeric_unit":
        # a unit made of digits only, with a value: readable as 'Y.1000  25 : p'; it must not drift into the '1000 lbf' form
        las.params.append(lasio.HeaderItem("NUMU", "1000", 25, "digits-only unit, numeric value, widest of the section by far ............"))
        las.params.append(lasio.HeaderItem("NUMV", "10", "abc", "digits-only unit, text value"))
        las.well.append(lasio.HeaderItem("NUMW", "25", "a much longer value than any other in this section, to be the widest", "w"))
    elif mutation == "decimal_unit":
        # a unit that is a decimal number, on the widest line of its section (where unit and value are one blank apart)
        las.params.append(lasio.HeaderItem("DECU", "0.5", 12345678901234567, "decimal unit, numeric value, widest of the section by far ..............."))
        las.well.append(lasio.HeaderItem("DECW", "2.5", "a much longer value than any other in this section, to be the widest one", "w"))
        las.well.append(lasio.HeaderItem("DECX", "8.5", 20000, "x"))
    elif mutation.startswith("wrap_"):
        # the object's own WRAP item in another spelling (write(wrap=None) decides from it, read() interprets it)
        las.version["WRAP"].value = mutation[5:]
    elif mutation == "long_fields":
        las.well.append(lasio.HeaderItem("LONGMNEMONIC_LONGMNEMONIC_X", "averyveryverylongunit", "v" * 120, "d " * 80))
    return las


def hsnap(las):
    """Canonical content with numeric header values folded to numbers."""
    return canon.clas(las, numeric=True)


def run_case(case, ctx):
    lasio = ctx.lasio
    opts = dict(OPTSETS[case["opts"]])
    if case["input"] == "lit":
        opts = dict(LITERALS[case["name"]][1])
    by_path = False
    kind = "literal" if case["input"] == "lit" else "generated" if case["input"] == "gen" else ("mutated" if case["mutation"] != "none" else "corpus")
    try:
        if case["input"] == "gen":
            import random
            spec = lasobj.rand_spec(random.Random(case["seed"]))
            if case.get("wide"):
                nrows = len(spec["curves"][0][4])
                spec["curves"] = spec["curves"][:1] + [["W%d" % j, "u", "", "wide %d" % j, [round(100.0 * j + i + 0.25, 2) for i in range(nrows)]] for j in range(case["wide"])]
                ctx.count("inputs_with_wide_tables")
            las = lasobj.build(lasio, spec)
            las = mutate(lasio, las, case["mutation"])
        elif case["input"] == "lit":
            by_path = opts.pop("by_path", False)
            if by_path:
                os.makedirs(ctx.scratch, exist_ok=True)
                by_path = os.path.join(ctx.scratch, "c11-%s-%%d.las" % case["name"])
                with open(by_path % 0, "w", encoding="utf-8", newline="\n") as fh:
                    fh.write(LITERALS[case["name"]][0])
                las = lasio.read(by_path % 0)
                ctx.count("histories_by_file_name")
            else:
                las = lasio.read(LITERALS[case["name"]][0])
        else:
            las = lasio.read(os.path.join(env.REPO, case["input"]))
            las = mutate(lasio, las, case["mutation"])
    except Exception as e:
        ctx.count("skipped_unreadable_input")
        ctx.seen("skip_reasons", "unreadable: %s (%s)" % (case["input"], type(e).__name__))
        return
    cycles = 4 if ctx.tier == "quick" else 6
    texts, snaps = [], []
    cur = las
    detail = {"input": case.get("name", case["input"]), "mutation": case["mutation"], "opts": opts}
    for n in range(cycles):
        b = io.StringIO()
        try:
            if by_path:
                cur.write(by_path % (n + 1), **opts)          # lasio opens the file itself, as it will when reading it back
            else:
                cur.write(b, **opts)
        except Exception as e:
            if n == 0:
                ctx.count("skipped_first_write_raised")
                ctx.seen("skip_reasons", "first write raised: %s (%s)" % (case["input"], type(e).__name__))
                return
            key = "later-write-raised:%s" % type(e).__name__
            if has_text_with_blanks(las):
                key = "later-write-fails:text-curve-values-with-blanks-written-unquoted"
            ctx.violation(key, "write #%d raised %r" % (n + 1, e), detail)
            return
        if by_path:
            with open(by_path % (n + 1), "rb") as fh:
                t = fh.read().decode("utf-8", "replace")
        else:
            t = b.getvalue()
        texts.append(t)
        try:
            cur = lasio.read(by_path % (n + 1) if by_path else t)
        except Exception as e:
            ctx.violation(classify_reread(las, t, e), "re-reading lasio's own output (cycle %d) raised %r" % (n + 1, str(e)[:300]),
                          dict(detail, text=t[:3000]))
            return
        snaps.append(hsnap(cur))
        if n >= 1:
            ctx.count("cycle_comparisons")
            if snaps[n] != snaps[n - 1]:
                diffs = canon.diff(snaps[n - 1], snaps[n])
                ctx.violation(classify_drift(diffs, las, opts), "cycle %d differs from cycle %d: %s" % (n + 1, n, diffs[:4]),
                              dict(detail, text=t[:3000]))
                return
    # drift detectors over the whole history
    lens = [len(t) for t in texts[1:]]
    if len(set(lens)) > 1:
        ctx.violation("text-length-drifts", "output length over cycles: %r" % lens, detail)
    ctx.count("histories_completed")
    if case["mutation"].startswith("vers_") and "version" not in opts:
        ctx.count("histories_with_declared_version_" + case["mutation"][5:])
    ctx.count(kind + "_histories_completed")
    ctx.case_done([case.get("name", case["input"]), case.get("seed"), case["mutation"], case["opts"]], nontrivial=True)
    ctx.sample({"input": case["input"], "mutation": case["mutation"], "opts": opts, "cycles": cycles, "output_bytes": lens}, limit=4)


def has_text_with_blanks(las):
    for c in las.curves:
        d = np.asarray(c.data)
        if d.dtype.kind in "USO" and any(" " in str(x).strip() or str(x).strip() == "" for x in d.tolist()):
            return True
    return False


def leading_dot_unit(las):
    return any(str(c.unit).startswith(".") for c in las.curves)


def has_text_digit_hyphen_digit(las):
    for c in las.curves:
        d = np.asarray(c.data)
        if d.dtype.kind in "USO" and any(re.search(r"\d-\d", str(x)) for x in d.tolist()):
            return True
    return False


def text_samples(las):
    for c in las.curves:
        d = np.asarray(c.data)
        if d.dtype.kind in "USO":
            for x in d.tolist():
                if isinstance(x, str):
                    yield x


def classify_reread(las, text, exc):
    if has_text_with_blanks(las):
        return "reread-fails:text-curve-values-with-blanks-written-unquoted"
    wrapped = re.search(r"(?im)^\s*WRAP\s*\.\s+YES", text)
    if has_text_digit_hyphen_digit(las) and wrapped:
        return "reread-fails:wrapped-text-samples-digit-hyphen-digit"
    if any("'" in x or '"' in x for x in text_samples(las)):
        # the same missing quoting: a quote character inside a sample opens a quoted token for the reader
        return "reread-fails:text-curve-values-with-quote-characters-written-unquoted"
    if wrapped and any(x[:1] in "#~" for x in text_samples(las)) and re.search(r"(?m)^\s*[#~]", text[text.upper().rfind("~A"):].split("\n", 1)[-1]):
        # a wrapped row puts such a sample at the start of a physical line, where it is a comment or a section title
        return "reread-fails:wrapped-text-sample-starts-a-line-with-comment-or-title-character"
    if has_text_digit_hyphen_digit(las):
        # same heuristic, unwrapped: the hyphens the reader saw on every input line (2.5E-3) are not in lasio's respelling (0.00250)
        return "reread-fails:text-samples-digit-hyphen-digit-hyphens-on-other-lines-respelled"
    return "reread-raised:%s" % type(exc).__name__


def lossy_index_fmt(opts, las=None):
    """Is the index column written with fewer than the 5 decimals used for STRT/STOP/STEP - or with fewer than its samples carry?"""
    fmt = (opts.get("column_fmt") or {}).get(0, opts.get("fmt", "%.5f"))
    m = re.match(r"%\d*\.(\d+)f$", fmt)
    if not (m and int(m.group(1)) >= 5):
        return True
    if las is not None and len(las.curves):
        try:
            idx = np.asarray(las.curves[0].data, dtype=float)
            return any(float(fmt % x) != x for x in idx.tolist() if x == x)
        except (TypeError, ValueError):
            return False
    return False


def colon_in_well_field(las):
    return any(":" in str(it.value) or ":" in str(it.descr) for it in list.__iter__(las.well))


def blank_mnemonic_with_period(las):
    for sec in las.sections.values():
        if isinstance(sec, str):
            continue
        for it in list.__iter__(sec):
            if it.original_mnemonic.strip() == "" and any("." in str(x) for x in (it.unit, it.value, it.descr)):
                return True
    return False


def classify_drift(diffs, las, opts=None):
    if has_text_with_blanks(las):
        return "drift:text-curve-values-with-blanks-written-unquoted"
    if blank_mnemonic_with_period(las):
        return "drift:blank-mnemonic-line-gains-a-period"
    if opts is not None and opts.get("wrap") and has_text_digit_hyphen_digit(las):
        return "drift:wrapped-text-samples-digit-hyphen-digit"
    first = diffs[0] if diffs else ""
    if leading_dot_unit(las) and any(re.search(r"unit|index_unit|original|mnemonic", d) for d in diffs):
        return "drift:leading-dot-unit-in-curves-migrates-to-mnemonic"
    if opts is not None and opts.get("version") == 1.2 and colon_in_well_field(las) and all(re.match(r"/sections/Well/items\[\d+\]/(value|descr)", d) for d in diffs):
        # the colon family of C12, seen over cycles: the 1.2 layout puts a field with a colon before the separator
        return "drift:well-field-with-colon-written-in-1.2-layout"
    if opts is not None and lossy_index_fmt(opts, las) and all(re.match(r"/sections/Well/items\[[012]\]/value", d) for d in diffs):
        return "drift:start-stop-step-restated-after-lossy-data-format"
    m = re.match(r"/sections/([^/]+)/items\[\d+\]/(\w+)", first)
    if m:
        return "drift:%s:%s" % (m.group(1) if m.group(1) in ("Version", "Well", "Curves", "Parameter") else "custom", m.group(2))
    if first.startswith("/curves"):
        return "drift:curve-data"
    return "drift:other"
