"""C16 — write() is deterministic, leaves data alone, states STRT/STOP/STEP truthfully.

Monitors
  * icontract.snapshot(full canonical state) + icontract.ensure(frame condition) installed from the
    harness on the real LASFile.write: every call is compared before/after, and any change outside
    the documented set (STRT/STOP/STEP value+unit, first curve's unit, WRAP when wrap= is given,
    empty ~Well/~Parameter value normalisation) is recorded.
  * consecutive writes with equal options: byte-identical text, no further state change.
  * the emitted text is tokenised by the harness (not by lasio): STRT/STOP/STEP and their units vs
    the first/last/first-increment of the written index column, under the statement's trigger."""
import io
import math
import re

import numpy as np

from rv import canon
from rv.gen import lasobj, secops

ID = "C16"
LEVEL = "exploration"
RULE = ("LASFiles from seeded specs x construction {scratch, read back from text, read with a wrong STOP} x edit "
        "{none, index replaced, index edited in place, index shifted / edited by a few ppm of the depth, other curve edited, header edited, new index curve inserted, "
        "index curve deleted} x index shape {increasing, decreasing, single sample, irregular} x writer options "
        "(version, wrap, fmt, column_fmt, len_numeric_field, spacers, data_width, header style; STRT/STOP/STEP left to "
        "lasio) x 2..4 consecutive writes; plus a deterministic grid over (construction, edit, version, wrap) and the "
        "readable corpus. distinct = distinct (construction, edit, index shape, option classes, empty-value layout); "
        "non-trivial = case whose LASFile has >= 2 curves and >= 1 extra header item Added later: objects constructed by read with each mnemonic_case, digit-named curves, padded in-memory text values, stale duplicate suffixes x mnemonics header, an irregular index that ends where it starts. Round 8: tables held in float32 throughout.")
ASSUMPTIONS = [
    "STRT/STOP/STEP are compared with the index tokens of the emitted data section within half a unit of the last digit of each side (two roundings for STEP)",
    "the truthfulness clause is only checked under the statement's trigger (index created or changed in memory, or file STOP disagreeing with the data)",
]
REQUIRED = ["frame_condition_evaluations", "double_write_comparisons", "truthfulness_checks", "cases_refresh_triggered",
            "cases_refresh_not_triggered", "cases_with_empty_values_and_units", "cases_with_digit_named_curves", "cases_with_padded_text_values_in_memory", "constructed_by_read_case_upper", "constructed_by_read_case_lower", "constructed_by_read_case_preserve"]
SOFT_DEADLINE = {"quick": 90, "thorough": 1200}
LEVEL_TEXT = ("Exploration with a full before/after frame condition on every write() call (icontract snapshot/ensure on the "
              "real method), byte comparison of consecutive outputs and an independent tokeniser for STRT/STOP/STEP.")
LEVEL_NOTE = "Trusts the canonical snapshot to expose every header field and every array element; histories beyond 4 writes are not explored."
TECHNIQUE = "runtime monitoring: icontract snapshot/ensure frame condition on LASFile.write + consecutive-output comparison + independent output tokeniser"

_ctx = None
EDITS = ["none", "index_replace", "index_inplace", "other_curve", "header", "insert_index", "delete_index", "index_tiny_shift", "index_tiny_inplace", "stale_duplicates", "index_integer_dtype", "all_float32"]
CONSTR = ["scratch", "read", "wrong_stop"]


# ---- frame condition (icontract) -------------------------------------------------------------------
def full_state(self):
    return canon.clas(self)


def frame_ok(self, OLD, _KWARGS):
    ctx = _ctx
    if ctx is None:
        return True
    ctx.count("frame_condition_evaluations")
    old, new = OLD.state, canon.clas(self)
    wrap_given = _KWARGS.get("wrap") is not None
    bad = frame_diff(old, new, wrap_given)
    for key, msg in bad:
        ctx.violation("write-changed:" + key, "write(%s) changed %s" % (
            ", ".join("%s=%r" % kv for kv in sorted(_KWARGS.items())), msg))
    return True


def frame_diff(old, new, wrap_given):
    bad = []
    if old["section_order"] != new["section_order"]:
        bad.append(("sections", "the set/order of sections %r -> %r" % (old["section_order"], new["section_order"])))
        return bad
    if old.get("index_unit") != new.get("index_unit"):
        bad.append(("index_unit", "index_unit %r -> %r" % (old.get("index_unit"), new.get("index_unit"))))
    for name in old["section_order"]:
        so, sn = old["sections"][name], new["sections"][name]
        if "text" in so or "text" in sn:
            if so != sn:
                bad.append(("other-text", "text of section %s" % name))
            continue
        if so["transforms"] != sn["transforms"]:
            bad.append(("transforms", "case-normalisation flag of %s" % name))
        io_, in_ = so["items"], sn["items"]
        if len(io_) != len(in_):
            bad.append(("item-count:" + name, "number of items in %s: %d -> %d" % (name, len(io_), len(in_))))
            continue
        for i, (a, b) in enumerate(zip(io_, in_)):
            for f in ("original", "mnemonic", "unit", "value", "descr"):
                if a[f] == b[f]:
                    continue
                up = a["original"].upper()
                if name == "Well" and up in ("STRT", "STOP", "STEP") and f in ("value", "unit"):
                    continue
                if name == "Curves" and i == 0 and f == "unit":
                    continue
                if name == "Version" and up == "WRAP" and wrap_given and (f in ("value", "descr", "unit") or str(b[f]).upper() == str(a[f]).upper()):
                    continue        # "the WRAP item when wrap= is given": the item is replaced, its spelling may become 'WRAP'

                if name in ("Well", "Parameter") and f == "value":
                    if a["value"] in (("str", ""), ("none",)) and a["unit"] and b["value"] in (("int", 0), ("num", 0.0)):
                        continue
                    if a["value"] == ("none",) and b["value"] == ("str", ""):
                        continue
                bad.append(("%s-%s" % (name if name in ("Version", "Well", "Curves", "Parameter") else "custom", f),
                            "%s item #%d (%r) field %s: %r -> %r" % (name, i, a["original"], f, a[f], b[f])))
    if old.get("curves") != new.get("curves"):
        oc, nc = old.get("curves") or [], new.get("curves") or []
        if len(oc) != len(nc):
            bad.append(("curve-count", "number of curves %d -> %d" % (len(oc), len(nc))))
        else:
            for i, (a, b) in enumerate(zip(oc, nc)):
                if a != b:
                    bad.append(("curve-data", "the samples (or dtype/shape) of curve #%d" % i))
    return bad


class Broken(Exception):
    pass


def setup(ctx):
    global _ctx
    import icontract
    _ctx = ctx
    L = ctx.lasio.LASFile
    L.write = icontract.snapshot(full_state, name="state")(icontract.ensure(frame_ok, error=Broken)(L.write))


# ---- workload --------------------------------------------------------------------------------------------
def index_for(shape, n):
    if shape == "increasing":
        return [100.0 + 0.5 * i for i in range(n)]
    if shape == "decreasing":
        return [2000.0 - 0.1524 * i for i in range(n)]
    if shape == "single":
        return [1670.0]
    if shape == "irregular_closed":
        # an irregular index whose last sample equals its first one (a log run down and up again)
        return ([10.0, 10.7, 12.0, 12.125, 11.0, 10.0] if n >= 6 else [10.0, 10.7, 12.0, 10.0][:max(3, n)][:-1] + [10.0])
    return [10.0, 10.7, 12.0, 12.125, 20.0, 21.5][:max(2, n)]


def base_spec(rng, shape):
    spec = lasobj.rand_spec(rng, text_curve=0.0, dup=rng.random() < 0.5)
    n = 1 if shape == "single" else max(2, len(spec["curves"][0][4]))
    idx = index_for(shape, n)
    n = len(idx)
    spec["curves"][0][4] = idx
    for c in spec["curves"][1:]:
        c[4] = (c[4] * 6)[:n]
        c[4] = [rng.uniform(0, 100) if x is None and False else x for x in c[4]]
    # make sure empty values with and without units occur
    if rng.random() < 0.6:
        spec["params"].append(["EMPT", rng.choice(["m", "ohm.m", "longunit/x"]), "", "empty with unit"])
    if rng.random() < 0.4:
        spec["well"].append(["EMPW", "u", "", "empty with unit"])
    if rng.random() < 0.4:
        spec["params"].append(["EMPN", "", "", "empty without unit"])
    if rng.random() < 0.35:
        # in-memory text values with surrounding or only blanks, with and without a unit (a reader never produces them, an editor does)
        spec["params"].append(["PADV", rng.choice(["M", "", "ohm.m"]), rng.choice([" approx 12", "12 approx ", "  two  words  ", " ", "   "]), "padded value"])
        spec["well"].append(["PADW", rng.choice(["M", ""]), rng.choice([" KB ", "  ", " 7 "]), " padded descr "])
    return spec


def rand_opts(rng):
    o = {}
    if rng.random() < 0.6:
        o["version"] = rng.choice([1.2, 2])
    if rng.random() < 0.6:
        o["wrap"] = rng.choice([True, False])
    if rng.random() < 0.5:
        o["fmt"] = rng.choice(["%.5f", "%.2f", "%.3e", "%.10g", "%12.4f", "%.0f"])
    if rng.random() < 0.3:
        o["column_fmt"] = {"0": rng.choice(["%.3f", "%.1f", "%.6f"])}
    if rng.random() < 0.3:
        o["len_numeric_field"] = rng.choice([-1, 12, 20])
    if rng.random() < 0.3:
        o["spacer"] = rng.choice([" ", "  ", "   "])
    if rng.random() < 0.2:
        o["lhs_spacer"] = rng.choice(["", "  "])
    if rng.random() < 0.3:
        o["data_width"] = rng.choice([60, 79, 120, 400])
    if rng.random() < 0.2:
        o["mnemonics_header"] = True
    if rng.random() < 0.2:
        o["data_section_header"] = rng.choice(["~A", "~ASCII Log Data"])
    return o


def _opts(o):
    o = dict(o)
    if "column_fmt" in o:
        o["column_fmt"] = {int(k): v for k, v in o["column_fmt"].items()}
    return o


def grid(tier):
    import random
    i = 0
    for constr in CONSTR:
        for edit in EDITS:
            for shape in ("increasing", "decreasing", "single", "irregular", "irregular_closed"):
                for opts in ({}, {"version": 1.2}, {"version": 2, "wrap": True}, {"wrap": False, "fmt": "%.2f"}) + (({"mnemonics_header": True},) if edit in ("stale_duplicates", "other_curve") else ()):
                    rng = random.Random("C16grid:%d" % i)
                    i += 1
                    yield {"kind": "gen", "spec": base_spec(rng, shape), "constr": constr, "edit": edit,
                           "shape": shape, "opts": opts, "writes": 2, "inplace_pos": -(i % 2),
                           "read_case": ["preserve", "upper", "lower"][i % 3], "digitnames": i % 5 == 0}
    import glob, os
    from rv import env
    for fn in sorted(glob.glob(os.path.join(env.REPO, "tests", "examples", "**", "*.las"), recursive=True)):
        yield {"kind": "corpus", "file": os.path.relpath(fn, env.REPO), "opts": {}, "writes": 2}


def n_random(tier):
    return 1200 if tier == "quick" else 30000


def random_case(rng, tier):
    shape = rng.choice(["increasing", "decreasing", "single", "irregular", "irregular_closed"])
    return {"kind": "gen", "spec": base_spec(rng, shape), "constr": rng.choice(CONSTR), "edit": rng.choice(EDITS),
            "shape": shape, "opts": rand_opts(rng), "writes": rng.randint(2, 4), "inplace_pos": rng.choice([0, -1]),
            "read_case": rng.choice(["preserve", "upper", "lower"]), "digitnames": rng.random() < 0.2}


def construct(ctx, case):
    """Build the object; returns (las, triggered) or (None, reason)."""
    lasio = ctx.lasio
    spec, constr, edit = case["spec"], case["constr"], case["edit"]
    if case.get("digitnames"):
        # curves named by bare numbers that are the *positions of other curves* ("0" is the last curve, never the index)
        spec = dict(spec, curves=[list(c) for c in spec["curves"]])
        nc = len(spec["curves"])
        for j in range(1, nc):
            spec["curves"][j][0] = str((j + 1) % nc)
        ctx.count("cases_with_digit_named_curves")
    las = lasobj.build(lasio, spec)
    triggered = constr == "scratch"
    if constr in ("read", "wrong_stop"):
        b = io.StringIO()
        _ctx_off = globals()
        saved = _ctx_off["_ctx"]
        _ctx_off["_ctx"] = None          # construction writes are not the writes under observation
        try:
            las.write(b)
        finally:
            _ctx_off["_ctx"] = saved
        text = b.getvalue()
        if constr == "wrong_stop":
            text, n = re.subn(r"(?m)^(STOP\s*\.\S*\s+)(\S+)", lambda m: m.group(1) + "99999.5", text, count=1)
            if n != 1:
                return None, "no STOP line"
            triggered = True
        try:
            las = lasio.read(text, mnemonic_case=case.get("read_case", "preserve"))
            ctx.count("constructed_by_read_case_" + case.get("read_case", "preserve"))
        except Exception as e:
            return None, "own output unreadable (C11's business): %r" % (e,)
        if len(las.curves) != len(spec["curves"]):
            return None, "re-read changed the curve count (C01's business)"
    n = len(las.curves[0].data)
    if edit == "index_replace":
        las.curves[0].data = np.asarray(las.curves[0].data, dtype=float) + 3.25
        triggered = True
    elif edit == "index_inplace":
        k = case.get("inplace_pos", -1)
        las.index[k] = las.index[k] + ((7.0 if k == -1 else -7.0) if n > 1 else 1.0)
        triggered = True
    elif edit == "index_tiny_shift":
        # a bulk shift of a few parts per million of the depth: small, but visible at the %.5f of STRT/STOP
        d = np.asarray(las.curves[0].data, dtype=float)
        las.curves[0].data = d + np.sign(d + (d == 0)) * (4e-6 * np.abs(d) + 2e-5)
        triggered = True
    elif edit == "index_tiny_inplace":
        k = case.get("inplace_pos", -1)
        las.index[k] = las.index[k] + 4e-6 * abs(las.index[k]) + 2e-5
        triggered = True
    elif edit == "other_curve":
        if len(las.curves) < 2:
            return None, "no second curve"
        d = las.curves[1].data
        if d.dtype.kind != "f":
            return None, "text curve"
        d[0] = 123.456
    elif edit == "index_integer_dtype":
        # an index held in a (small / unsigned) integer dtype, decreasing: the first increment is negative
        dt = [np.uint16, np.int16, np.uint8, np.int64, np.uint32][case.get("inplace_pos", 0) % 5 if "seed" not in case else case["seed"] % 5]
        top = 250 if dt is np.uint8 else 30000
        las.curves[0].data = np.array([top - (top // (n + 1)) * i for i in range(n)], dtype=dt)
        triggered = True
    elif edit == "all_float32":
        # a table held in single precision throughout (what reading with dtypes=float32, or a float32 array from elsewhere, gives):
        # index samples that are not exact in float32
        if any(np.asarray(c.data).dtype.kind != "f" for c in las.curves):
            return None, "text curve"
        for j, c in enumerate(las.curves):
            c.data = (np.asarray(c.data, dtype=np.float32) if j else np.array([2500.1 + 0.15 * i for i in range(n)], dtype=np.float32))
        triggered = True
    elif edit == "stale_duplicates":
        # one member of a duplicate family removed (the survivors keep ':2', ':3') and a curve renamed onto an existing name:
        # lasio does not renumber on its own, and writing must not either
        k0 = len(las.curves)
        las.append_curve("ZDUP", np.arange(n, dtype=float) + 1.0)
        las.append_curve("ZDUP", np.arange(n, dtype=float) + 2.0)
        las.append_curve("ZDUP", np.arange(n, dtype=float) + 3.0)
        las.delete_curve(ix=k0)
        if len(las.curves) >= 4:
            list(las.curves)[1].mnemonic = list(las.curves)[2].original_mnemonic
    elif edit == "header":
        las.well["COMP"] = "edited company"
        las.params.append(lasio.HeaderItem("NEWP", "u", 5, "new parameter"))
    elif edit == "insert_index":
        las.insert_curve(0, "TIME", np.arange(n, dtype=float) * 2.0 + 1.0, unit="s", descr="new index")
        triggered = True
    elif edit == "delete_index":
        if len(las.curves) < 2:
            return None, "no second curve"
        d = np.asarray(las.curves[1].data)
        if d.dtype.kind != "f" or not np.all(np.isfinite(d)):
            return None, "second curve cannot serve as an index"
        las.delete_curve(ix=0)
        triggered = True
    return las, triggered


def run_case(case, ctx):
    lasio = ctx.lasio
    if case["kind"] == "corpus":
        import os
        from rv import env
        try:
            las = lasio.read(os.path.join(env.REPO, case["file"]))
            las.write(io.StringIO())
            las = lasio.read(os.path.join(env.REPO, case["file"]))
        except Exception:
            ctx.count("corpus_unreadable_or_unwritable")
            return
        triggered = None
        sig = ["corpus", case["file"]]
        nontrivial = len(las.curves) >= 2
    else:
        las, triggered = construct(ctx, case)
        if las is None:
            ctx.count("cases_skipped")
            ctx.seen("skip_reasons", str(triggered)[:60])
            return
        spec = case["spec"]
        empties = [it for s in ("well", "params") for it in spec[s] if it[2] in ("", None) and it[1]]
        if empties:
            ctx.count("cases_with_empty_values_and_units")
        if any(isinstance(it[2], str) and it[2] != it[2].strip() for s in ("well", "params") for it in spec[s]) and case["constr"] == "scratch":
            ctx.count("cases_with_padded_text_values_in_memory")
        sig = [case["constr"], case["edit"], case["shape"], case.get("read_case"), bool(case.get("digitnames")), sorted(case["opts"].items(), key=str),
               len(spec["curves"]), bool(empties), len(spec["well"]), len(spec["params"])]
        nontrivial = len(spec["curves"]) >= 2 and (len(spec["well"]) + len(spec["params"])) >= 1
        ctx.count("cases_refresh_triggered" if triggered else "cases_refresh_not_triggered")
    opts = _opts(case["opts"])
    texts = []
    state_after = []
    for w in range(case["writes"]):
        b = io.StringIO()
        try:
            las.write(b, **opts)
        except Exception as e:
            if w == 0:
                ctx.count("first_write_raised")
                ctx.seen("write_exceptions", type(e).__name__)
                return
            ctx.violation("later-write-raised", "write #%d raised %r although write #1 succeeded" % (w + 1, e))
            return
        texts.append(b.getvalue())
        state_after.append(canon.clas(las))
    for w in range(1, len(texts)):
        ctx.count("double_write_comparisons")
        if texts[w] != texts[0]:
            ctx.violation(classify_text_diff(texts[0], texts[w], las),
                          "write #%d differs from write #1 with equal options: %s" % (w + 1, _first_diff(texts[0], texts[w])),
                          {"first": texts[0][:1500]})
            break
        if state_after[w] != state_after[0]:
            ctx.violation("later-write-changed-state", "write #%d changed the in-memory state again: %s" % (
                w + 1, canon.diff(state_after[0], state_after[w])[:3]))
            break
    if triggered:
        truthful(ctx, texts[0], las, case)
    ctx.case_done(sig, nontrivial)
    if nontrivial:
        ctx.sample({"constr": case.get("constr"), "edit": case.get("edit"), "shape": case.get("shape"),
                    "opts": case["opts"], "writes": case["writes"], "curves": [c.original_mnemonic for c in las.curves],
                    "STRT/STOP/STEP after": [str(las.well[m].value) for m in ("STRT", "STOP", "STEP")]})


def classify_text_diff(t0, t1, las):
    l0, l1 = t0.splitlines(), t1.splitlines()
    if len(l0) == len(l1):
        diff = [(a, b) for a, b in zip(l0, l1) if a != b]
        if diff and all(re.sub(r"\s+", " ", a) == re.sub(r"\s+", " ", b) or
                        re.sub(r"\s+", "", a) == re.sub(r"\s+", "", b) for a, b in diff):
            # only the padding differs: was an empty value normalised to 0 between the writes?
            return "second-write-padding-differs"
    return "second-write-differs"


def _unit_of_last_digit(tok):
    t = tok.strip().lower()
    mant, _, exp = t.partition("e")
    e = int(exp) if exp else 0
    frac = len(mant.split(".")[1]) if "." in mant else 0
    return 10.0 ** (e - frac)


def truthful(ctx, text, las, case):
    ctx.count("truthfulness_checks")
    lines = text.splitlines()
    well, data, sec = {}, [], None
    ncols = len(las.curves)
    first_curve_unit = None
    for ln in lines:
        if ln.startswith("~"):
            sec = ln[1:2].upper()
            continue
        if sec == "W":
            m = re.match(r"^(STRT|STOP|STEP)\s*\.(\S*)\s+(\S+)\s*:", ln)
            if m and m.group(1) not in well:
                well[m.group(1)] = (m.group(2), m.group(3))
        elif sec == "C" and first_curve_unit is None and ln.strip():
            # the line starts with the (padded) original mnemonic, which may itself contain dots
            rest = ln[len(las.curves[0].original_mnemonic):].lstrip()
            first_curve_unit = (rest[1:].split(None, 1) or [""])[0] if rest[:1] == "." and rest[1:2].strip() else ""
        elif sec == "A":
            data += ln.split()
    if len(well) < 3 or not data or ncols == 0 or len(data) % ncols:
        ctx.count("truthfulness_unparsable_output")
        return
    idx = data[0::ncols]
    try:
        vals = [float(t) for t in idx]
    except ValueError:
        ctx.count("truthfulness_unparsable_output")
        return

    def close(tok, want, extra_units, what):
        try:
            got = float(tok)
        except ValueError:
            ctx.violation("start-stop-step-not-numeric", "%s is written as %r" % (what, tok))
            return
        tol = 0.5 * _unit_of_last_digit(tok) + extra_units + 1e-9 * max(1.0, abs(want))
        if not abs(got - want) <= tol:
            ctx.violation("start-stop-step-untruthful:" + what, "%s = %s but the written index says %r (tolerance %g)" % (
                what, tok, want, tol), {"index tokens": idx[:6] + idx[-2:], "case": {k: case.get(k) for k in ("constr", "edit", "shape", "opts")}})
    u = _unit_of_last_digit
    close(well["STRT"][1], vals[0], 0.5 * u(idx[0]), "STRT")
    close(well["STOP"][1], vals[-1], 0.5 * u(idx[-1]), "STOP")
    if len(vals) > 1:            # every index of two or more samples has a first increment (also one that ends where it starts)
        close(well["STEP"][1], vals[1] - vals[0], 0.5 * u(idx[0]) + 0.5 * u(idx[1]), "STEP")
    units = {well["STRT"][0], well["STOP"][0], well["STEP"][0], first_curve_unit}
    if len(units) != 1:
        ctx.violation("start-stop-step-units-not-aligned", "units STRT=%r STOP=%r STEP=%r index curve=%r" % (
            well["STRT"][0], well["STOP"][0], well["STEP"][0], first_curve_unit))


def _first_diff(a, b):
    la, lb = a.splitlines(), b.splitlines()
    for i, (x, y) in enumerate(zip(la, lb)):
        if x != y:
            return "line %d: %r vs %r" % (i + 1, x, y)
    return "line counts %d vs %d" % (len(la), len(lb))
