"""C08 — header values become numbers only when they are numeric literals.

Every string of a short-string space (exhaustive) and random longer strings are embedded as header
values in generated files; the type and value seen at the API (las.well[...].value, ...) are compared
with an independent three-valued literal recogniser.  An icontract.ensure on the real
SectionParser.num gives additional evaluations where that function still exists (auxiliary)."""
import itertools
import math
import re

import numpy as np

ID = "C08"
LEVEL = "exploration"
ALPHABET = "019+-.,eE_ax/: "
LITERAL = re.compile(r"^[+-]?\d+([.,]\d+)?([eE][+-]?\d+)?$")
GREY = re.compile(r"^[+-]?(\d+[.,]|[.,]\d+)([eE][+-]?\d+)?$")
INT_LITERAL = re.compile(r"^[+-]?\d+$")
RULE = ("all strings of length <= 4 (quick) / <= 5 (thorough) over the 15-character alphabet %r, embedded 200 per generated "
        "file as values (stripped by the parser, so distinct after stripping) in ~Version/~Well/~Parameter/custom sections "
        "under neutral mnemonics and under API/UWI/api/Uwi, and in ~Curves; strings containing ':' use the NAME : VALUE "
        "form; plus random longer strings (identifiers like 15_9 and 12-34-12-34W5M, dates, times, inf, nan, hex, 1e400, "
        "19/20-digit integers, thousands separators). distinct = distinct (string, section kind, mnemonic kind); "
        "non-trivial = string containing at least one digit Added later: non-numeric values under the steering mnemonics, values equal / close to the file's own NULL for six NULLs, declared versions 1.2 / 2.1 / 3.0, twelve description texts (format words, braces, numbers), values with blank runs. Round 8: value lines that are the file's own STRT / STOP / STEP / NULL line, in files with data rows." % ALPHABET)
ASSUMPTIONS = [
    "recogniser: definite literal = [+-]?digits([.,]digits)?([eE][+-]?digits)? ; grey zone (5. .5 5, ,5) only requires 'if converted then numerically equal' ; everything else must stay the verbatim string",
    "non-ASCII digits are outside the quantifier (ASCII strings) and only probed",
    "the files declare VERS 1.2, 2.0, 2.1 or 3.0; in a 1.2 ~Well section the value lines are written in that version's layout (description before the colon)",
]
EXHAUSTIVE = {"quick": "all 54 240 strings of length <= 4 over the alphabet", "thorough": "all 813 615 strings of length <= 5 over the alphabet"}
REQUIRED = ["values_checked", "class_literal_int", "class_literal_float", "class_nonliteral", "class_grey", "api_uwi_values_checked",
            "curve_values_checked", "section_Well", "section_Parameter", "section_Version", "section_custom", "steering_item_values_checked", "files_with_values_equal_to_their_null", "files_declaring_version_1.2", "files_declaring_version_3.0"]
SOFT_DEADLINE = {"quick": 90, "thorough": 1500}
LEVEL_TEXT = ("Exhaustive enumeration of the short-string space against an independent literal recogniser, observed at the API of "
              "lasio.read; longer strings are sampled.")
LEVEL_NOTE = "The recogniser (three regular expressions + Python float/int) is the trusted base; strings longer than the bound are only sampled."
TECHNIQUE = "runtime monitoring: exhaustive short-string enumeration through lasio.read with an independent literal recogniser as oracle (+ icontract post-condition on SectionParser.num)"

PER_FILE = 200
SECTION_KINDS = ["Well", "Parameter", "custom", "Version", "Curves"]
MN_KINDS = ["neutral", "neutral", "neutral", "API", "UWI", "api", "Uwi"]
LONG = ["15_9", "12-34-12-34W5M", "1_000", "1_0.5", "1e1_0", "13/05/2015", "14:00:32", "inf", "-inf", "nan", "NaN", "Infinity", "0x1F",
        "1e400", "-1e400", "9223372036854775807", "9223372036854775808", "-9223372036854775808", "-9223372036854775809",
        "99999999999999999999", "1,000,000", "1.000.000", "1,5", "1.5", "+1.5e+3", "-.5e-3", "5.", ".5", "007", "00100", "1e5", "1E5",
        "1d5", "1 000", "12 34", "1-2", "1/2", "--5", "+-5", "1e", "e5", "1e+", "1.5.2", "0.0", "-0", "+0", "1__0", "_1", "1_",
        "100 123 456", "2.0", "NO", "YES", "05-10-15", "123456789012345678", "1.7976931348623157e308", "1.8e308", "4.9e-324", "1e-400",
        "0,5e1", "3,14", "1,5,5", ",", ".", "-", "+", "e", "1e1e1", "1.e1", "٣", "１２", "1٣",
        "12-34-12-34W5      NE/4", "LOGSOFT  REL 7", "a         b   c", "1     2", "1e5      x"]
_ctx = None


def classify(s):
    if LITERAL.match(s):
        return "literal"
    if GREY.match(s):
        return "grey"
    return "nonliteral"


def expected(s):
    """('int', n) | ('float', x) | ('str', s) | ('grey', x or None)"""
    c = classify(s)
    t = s.replace(",", ".")
    if c == "literal":
        if INT_LITERAL.match(s):
            n = int(s)
            if -2 ** 63 <= n < 2 ** 63:
                return ("int", n)
            x = float(n)
            return ("float", x) if math.isfinite(x) else ("str", s)
        x = float(t)
        return ("float", x) if math.isfinite(x) else ("str", s)
    if c == "grey":
        try:
            x = float(t)
        except ValueError:
            x = None
        return ("grey", x)
    return ("str", s)


def judge(ctx, s, v, where, detail):
    """Compare the value *v* observed at the API with the recogniser's verdict for text *s*."""
    exp = expected(s)
    ctx.count("values_checked")
    kind = exp[0]
    isnum = isinstance(v, (int, float, np.integer, np.floating)) and not isinstance(v, bool)
    if kind == "int":
        ctx.count("class_literal_int")
        if not isinstance(v, (int, np.integer)) or int(v) != exp[1]:
            ctx.violation("integer-literal-not-integer", "%s: text %r became %r (%s), expected integer %d" % (where, s, v, type(v).__name__, exp[1]), detail)
    elif kind == "float":
        ctx.count("class_literal_float")
        if not isinstance(v, (float, np.floating)) or float(v) != exp[1]:
            ctx.violation("decimal-literal-not-float", "%s: text %r became %r (%s), expected float %r" % (where, s, v, type(v).__name__, exp[1]), detail)
    elif kind == "grey":
        ctx.count("class_grey")
        if isnum:
            if exp[1] is None or float(v) != exp[1]:
                ctx.violation("grey-literal-wrong-number", "%s: text %r became %r" % (where, s, v), detail)
        elif v != s:
            ctx.violation("text-not-verbatim", "%s: text %r became %r" % (where, s, v), detail)
    else:
        ctx.count("class_nonliteral")
        if isnum:
            key = "underscore-digit-group-converted" if re.fullmatch(r"[+-]?[\d_.,eE+-]*_[\d_.,eE+-]*", s) else \
                  "non-ascii-digits-converted" if not s.isascii() else "non-literal-converted"
            ctx.violation(key, "%s: text %r is not a decimal literal but became the number %r (%s)" % (where, s, v, type(v).__name__), detail)
        elif v != s:
            ctx.violation("text-not-verbatim", "%s: text %r became %r" % (where, s, v), detail)


# ---- auxiliary contract on SectionParser.num ------------------------------------------------------------------------------
class Broken(Exception):
    pass


def num_post(x, result):
    ctx = _ctx
    if ctx is None or not isinstance(x, str):
        return True
    ctx.count("num_contract_evaluations")
    return True


def setup(ctx):
    global _ctx
    _ctx = ctx
    try:
        import icontract
        reader = __import__("lasio.reader", fromlist=["x"])
        reader.SectionParser.num = icontract.ensure(num_post, error=Broken)(reader.SectionParser.num)
    except Exception:
        ctx.count("num_contract_not_installed")


def all_strings(maxlen):
    seen = set()
    for n in range(0, maxlen + 1):
        for tup in itertools.product(ALPHABET, repeat=n):
            s = "".join(tup).strip()
            if s not in seen:
                seen.add(s)
                yield s


def grid(tier):
    L = 4 if tier == "quick" else 5
    batch, k = [], 0
    for s in all_strings(L):
        batch.append(s)
        if len(batch) == PER_FILE:
            yield {"strings": batch, "section": SECTION_KINDS[k % len(SECTION_KINDS)], "mn": MN_KINDS[(k // len(SECTION_KINDS)) % len(MN_KINDS)]}
            batch, k = [], k + 1
    if batch:
        yield {"strings": batch, "section": "Well", "mn": "neutral"}
    for sec in SECTION_KINDS:
        for mn in ("neutral", "API", "Uwi"):
            yield {"strings": [s for s in LONG if s.isascii()], "section": sec, "mn": mn}
    yield {"strings": [s for s in LONG if not s.isascii()], "section": "Well", "mn": "neutral", "probe": True}
    for mn, val in STEERING_VALUES:
        yield {"steering": [mn, val]}
    # header values numerically equal (or close) to the file's own NULL, for several NULLs: a value is a literal like any other
    for vers in ("1.2", "2.1", "3.0"):                # the declared version must not change what counts as a number
        for sec in SECTION_KINDS:
            for mn in ("neutral", "API"):
                yield {"strings": [s for s in LONG if s.isascii()], "section": sec, "mn": mn, "vers": vers}
    for null, spellings in NULL_EQUAL.items():
        for sec in SECTION_KINDS:
            for mn in ("neutral", "API"):
                yield {"strings": spellings, "section": sec, "mn": mn, "null": null}
    # the ~Well items the reader and writer themselves consult (STRT, STOP, STEP, NULL), each holding one text - the empty one too -
    # in a file that has data rows
    for mn in ("STRT", "STOP", "STEP", "NULL"):
        for val in ("", "abc", "1670.0", "1,5", "12-34", "1_0", "nan", "0x10", "1e3"):
            for vers in ("2.0", "1.2"):
                yield {"strings": [val], "section": "Well", "mn": mn, "vers": vers, "replaces_table_item": True}


DESCRS = ["d%d", "d%d", "Well number %d {S}", "Latitude %d {F}", "%d {E}", "x%d {F10.4} | assoc", "{S} %d", "string %d", "float %d", "(int) %d", "%d 12,5", "%d 1e5"]
NULL_EQUAL = {
    "-999.25": ["-999.25", "-999.2500", "-999,25", "-99925e-2", "-9.9925E2", "-999.26", "-999.24", "999.25", "-999.25x"],
    "-9999": ["-9999", "-9999.0", "-9999,00", "-9.999e3", "-9998", "-99990e-1", "9999"],
    "0": ["0", "0.0", "-0.0", "-0", "0,0", "0e5", "00", "1e-30"],
    "999.25": ["999.25", "+999.25", "999.250", "9.9925e2", "-999.25"],
    "1e30": ["1e30", "1E+30", "1.0e30", "10e29", "1e29"],
    "-9999.25": ["-9999.25", "-9999.21", "-9999.250", "-9999,25"],
}


STEERING_VALUES = [("WRAP", "no"), ("WRAP", "No"), ("WRAP", "n/a"), ("WRAP", "yes please"), ("WRAP", "NO"), ("NULL", "n/a"), ("NULL", "none"),
                   ("NULL", "-999.25abc"), ("WRAP", "No wrap"), ("NULL", "Missing")]


def n_random(tier):
    return 300 if tier == "quick" else 6000


def random_case(rng, tier):
    out = []
    for _ in range(PER_FILE):
        c = rng.random()
        if c < 0.4:
            s = "".join(rng.choice(ALPHABET) for _ in range(rng.randint(5, 9)))
        elif c < 0.7:
            s = rng.choice(LONG[:-3])
        elif c < 0.85:
            s = "%s%d%s%d" % (rng.choice(["", "+", "-"]), rng.randint(0, 10 ** rng.randint(1, 22)), rng.choice([".", ",", "_", "e", "E", ""]), rng.randint(0, 999))
        else:
            s = "".join(rng.choice("0123456789_") for _ in range(rng.randint(2, 8)))
        out.append(s.strip())
    c = {"strings": out, "section": rng.choice(SECTION_KINDS), "mn": rng.choice(MN_KINDS), "vers": rng.choice(["2.0", "2.0", "1.2", "2.1", "3.0"])}
    if rng.random() < 0.2:
        c["null"] = rng.choice(list(NULL_EQUAL))
        c["strings"] = out[:len(out) // 2] + NULL_EQUAL[c["null"]]
    return c


def run_steering(case, ctx):
    """WRAP (in ~Version) and NULL (in ~Well) are header values like any other: non-numeric text stays verbatim."""
    lasio = ctx.lasio
    mn, val = case["steering"]
    wrap = "WRAP. %s : w" % val if mn == "WRAP" else "WRAP. NO : w"
    null = "NULL. %s : n" % val if mn == "NULL" else "NULL. -999.25 : n"
    text = "~Version\nVERS. 2.0 : v\n%s\n~Well\nSTRT.M 1 : s\nSTOP.M 2 : s\nSTEP.M 1 : s\n%s\n~Curves\nDEPT.M : d\nA.U : a\n~ASCII\n1.0 5.5\n2.0 6.5\n" % (wrap, null)
    for mc in ("upper", "preserve"):
        try:
            las = lasio.read(text, mnemonic_case=mc)
        except Exception as e:
            ctx.violation("read-raised:steering-item:%s" % type(e).__name__, "reading a file with %s. %s raised %r" % (mn, val, e), {"text": text})
            return
        item = (las.version if mn == "WRAP" else las.well)[mn]
        ctx.count("steering_item_values_checked")
        judge(ctx, val, item.value, "~%s %s" % ("Version" if mn == "WRAP" else "Well", mn), {"text": text})
    ctx.case_done(["steering", mn, val], nontrivial=True)


def run_case(case, ctx):
    if case.get("steering"):
        return run_steering(case, ctx)
    lasio = ctx.lasio
    sec, mnk = case["section"], case["mn"]
    strings = list(dict.fromkeys(case["strings"]))
    if sec == "Curves":
        strings = [s for s in strings if ".." not in s and ":" not in s]
    lines, used = [], []
    vers = case.get("vers", "2.0")
    swapped = vers == "1.2" and sec == "Well" and not case.get("replaces_table_item")    # LAS 1.2 ~Well lines are 'MNEM.UNIT DESCRIPTION : VALUE' (STRT, STOP, STEP and NULL excepted)
    for i, s in enumerate(strings):
        mn = ("K%d" % i) if mnk == "neutral" else mnk
        if ":" in s:
            if sec == "Curves" or mnk != "neutral" or swapped:
                continue
            lines.append("K%d : %s" % (i, s))
        elif swapped:
            lines.append("%s.  d%d : %s" % (mn, i, s))
        else:
            # the description of the same line is free text: format words, braces, numbers - it says nothing about the value
            lines.append("%s.  %s : %s" % (mn, s, DESCRS[(i + len(s)) % len(DESCRS)] % i))
        used.append((mn, s))
    head = ["~Version", "VERS. %s : v" % vers, "WRAP. NO : w"]
    ctx.count("files_declaring_version_" + vers)
    well = ["~Well", "STRT.M 1 : s", "STOP.M 2 : s", "STEP.M 1 : s", "NULL. %s : n" % case.get("null", "-999.25")]
    if case.get("replaces_table_item"):
        # the value line IS the file's STRT / STOP / STEP / NULL line (the base's own line of that name is left out), and the file has data rows
        well = [ln for ln in well if ln.split(".")[0].strip().upper() != mnk.upper()]
        ctx.count("files_whose_value_line_is_a_table_item_with_data_rows")
    if case.get("null"):
        ctx.count("files_with_values_equal_to_their_null")
    text = []
    if sec == "Version":
        text = head + lines + well
    elif sec == "Well":
        text = head + well + lines
    elif sec == "Parameter":
        text = head + well + ["~Parameter"] + lines
    elif sec == "custom":
        text = head + well + ["~Tools used"] + lines
    else:
        text = head + well + ["~Curves"] + lines
    if case.get("replaces_table_item"):
        text = text + ["~Curves", "DEPT.M : d", "A. : a", "~ASCII", "1670.0 1.5", "1670.5 2.5", "1671.0 3.5"]
    text = "\n".join(text) + "\n"
    try:
        las = lasio.read(text, mnemonic_case="preserve")
    except Exception as e:
        ctx.violation("read-raised:%s:%s" % (sec, type(e).__name__), "reading the generated file raised %r" % (e,), {"text": text[:3000]})
        return
    key = {"custom": "Tools used"}.get(sec, sec)
    section = las.sections.get(key)
    items = list(section)[-len(used):] if section is not None and used else []
    if len(items) != len(used) or any(it.original_mnemonic != mn for it, (mn, s) in zip(items, used)):
        ctx.violation("items-not-aligned:%s" % sec, "%d value lines placed in %s, %d items found / mnemonics differ" % (
            len(used), key, len(section) if section is not None else -1), {"text": text[:3000]})
        return
    ctx.count("section_" + sec)
    probe = case.get("probe", False)
    for it, (mn, s) in zip(items, used):
        where = "~%s %s" % (sec, mn)
        detail = {"line": next((l for l in lines if l.startswith(mn + ".") or l.startswith(mn + " :")), None), "section": sec}
        if sec == "Curves":
            ctx.count("curve_values_checked")
            if it.value != s:
                ctx.violation("curve-value-converted", "%s: ~Curves value %r became %r (%s)" % (where, s, it.value, type(it.value).__name__), detail)
        elif mnk != "neutral" and sec != "Parameter" and not case.get("replaces_table_item"):
            ctx.count("api_uwi_values_checked")
            if it.value != s:
                ctx.violation("api-uwi-not-verbatim", "%s: %s value %r became %r (%s)" % (where, mn, s, it.value, type(it.value).__name__), detail)
        elif probe:
            ctx.count("non_ascii_probes")
            ctx.seen("non_ascii_probe_results", "%r -> %r" % (s, it.value))
        else:
            judge(ctx, s, it.value, where, detail)
        ctx.case_done([s, sec, mnk], nontrivial=any(ch.isdigit() for ch in s))
    ctx.sample({"section": sec, "mnemonics": mnk, "first lines": lines[:5], "first values": [repr(it.value) for it in items[:5]]}, limit=4)
