"""C05 — every line is attributed to the section whose title precedes it.

Conservation over unique ids: every generated header item carries a unique tag in its description,
every free-text line a unique word, every data cell its (row, column); after a read the monitor
requires, per section, exactly the generated tags in the generated order (exactly-once, right
owner) and the data cell by cell.  Items named VERS / WRAP / NULL / DLM outside ~Version / ~Well
must change nothing (visible as a tag/cell/NaN-mask mismatch or an exception)."""
import itertools
import math

import numpy as np

from rv.gen import lastext

ID = "C05"
LEVEL = "exploration"
TITLES = {
    "V": ["~Version", "~V", "~Version Information", "~VERSION INFORMATION SECTION", "~v", "~version information", "~Vers", "~Vendor software release", "~vERSION"],
    "W": ["~Well", "~W", "~Well Information Block", "~WELL INFORMATION", "~w", "~well information", "~Wellsite data", "~W1", "~wELL"],
    "C": ["~Curve Information", "~C", "~Curves", "~CURVE INFORMATION", "~c", "~curve information", "~Channels", "~Cu", "~cURVES"],
    "P": ["~Parameter", "~P", "~Params Information Block", "~PARAMETER INFORMATION", "~p", "~parameter information", "~Pa", "~Program settings", "~pARAMS"],
    "O": ["~Other", "~O", "~Other Information", "~OTHER", "~o", "~other information", "~Operator remarks", "~Oth", "~oTHER"],
    "A": ["~ASCII", "~A", "~Ascii Log Data", "~A  DEPT  C1  C2", "~a", "~ascii log data", "~AData", "~Analog traces", "~a1 DEPT K0", "~Acquired log data", "~ASC", "~aSCII"],
}
CUSTOM_TITLES = ["~Tools", "~Drilling Notes", "~tools used", "~Remarks 2", "~Xtra", "~Inclinometry", "~Service company notes", "~zones"]
STEER = [["NULL", "", "55.5"], ["WRAP", "", "YES"], ["VERS", "", "1.2"], ["DLM", "", "COMMA"], ["null", "", "55.5"], ["Vers", "", "3.0"],
         # words of the LAS vocabulary that are ordinary mnemonics outside their home section (legend words, mandatory items, section words)
         ["MNEM", "UNIT", "VALUE"], ["mnem", "unit", "data"], ["STRT", "M", "7.5"], ["STOP", "M", "9.5"], ["STEP", "M", "0.25"],
         ["DEPT", "M", ""], ["ASCII", "", "1"], ["A", "", "2"], ["V", "", "3"], ["CURVE", "INFO", "4"], ["OTHER", "", "5"], ["COMP", "", "6"]]
RULE = ("layouts: all 120 orders of {~W, ~C, ~P, ~O, custom} after ~V with ~A at each of the 6 positions (720, full grid) x "
        "title spelling per section from {word, letter only, trailing text, upper case, lower-case letter, lower-case word} "
        "(each spelling of each kind at least once in canonical order, random otherwise) x 0-3 extra custom sections x "
        "section sizes 0..5 x steering-named items (VERS/WRAP/NULL/DLM) in ~C, ~P or custom sections x engine {numpy, "
        "normal}; every item tagged, every ~O line a unique word, every cell carrying its coordinates, one NULL-probe "
        "column. distinct = distinct (order, ~A position, spelling vector, sizes, steering placement, engine); "
        "non-trivial = layout with >= 4 sections and >= 1 data row Added later: re-reads into the same object, header-only reads, empty data sections at every position, LAS vocabulary (MNEM/UNIT, STRT, DEPT, ASCII, section letters ...) as ordinary mnemonics first / last in ~C/~P/custom, nine spellings per section title (any word beginning with the section letter, mixed case). Round 8: ~Well sections that state no NULL while another section holds an item named NULL.")
ASSUMPTIONS = [
    "VERS 2.0 / WRAP NO / DLM absent in ~Version, NULL -999.25 in ~Well; custom titles start with a letter outside V/W/C/P/O/A; titles with an underscore and two custom sections under one title only occur as the witnesses of two known findings",
    "items are compared with mnemonic_case='preserve'",
]
EXHAUSTIVE = "all 720 (section order x ~A position) layouts; every title spelling of every section kind"
REQUIRED = ["reads", "tags_checked", "cells_checked", "layouts_data_not_last", "lowercase_title_cases", "steering_name_cases",
            "custom_sections_checked", "other_lines_checked", "other_sections_with_blank_lines", "header_only_reads", "rereads_into_same_object", "empty_data_sections"]
SOFT_DEADLINE = {"quick": 90, "thorough": 1200}
LEVEL_TEXT = ("Exploration with an exactly-once conservation oracle over unique tags and coordinate-carrying cells; the "
              "section-order space (720 layouts) and the documented title spellings are enumerated completely.")
LEVEL_NOTE = "Ground truth by construction; trusts the renderer; section sizes beyond 5 and titles beyond the listed spellings are only sampled."
TECHNIQUE = "runtime monitoring: conservation (exactly-once, right owner) checker over uniquely tagged items/cells on reads of a fully enumerated layout grid"


def grid(tier):
    k = 0
    kinds = ["W", "C", "P", "O", "X"]
    for perm in itertools.permutations(kinds):
        for apos in range(6):
            order = list(perm)
            order.insert(apos, "A")
            k += 1
            yield {"order": order, "spell": "random", "seed": k, "engine": "numpy" if k % 2 else "normal", "steer": None, "extra": 0}
    for si in (0, 4):                 # NULL / null items (value 55.5, which the data hold) in ~P, ~C or a custom section of a file whose ~Well states no NULL
        for where in ("P", "C", "X"):
            for order in (["W", "C", "P", "O", "X", "A"], ["P", "X", "A", "W", "C", "O"], ["C", "X", "P", "W", "O", "A"]):
                for engine in ("numpy", "normal"):
                    k += 1
                    yield {"order": order, "spell": {}, "seed": 7 * k + 1, "engine": engine, "steer": [si, where], "extra": 0, "well_without_null": True}
    for perm in (["W", "C", "P", "O", "X"], ["C", "W", "X", "O", "P"], ["P", "X", "O", "C", "W"]):
        for apos in range(6):
            for engine in ("numpy", "normal"):
                order = list(perm)
                order.insert(apos, "A")
                k += 1
                yield {"order": order, "spell": "random", "seed": 5 * k + 2, "engine": engine, "steer": None, "extra": 0, "empty_data": True}
    for kind, ttl in (("C", "~Curve_Information"), ("P", "~PARAMETER_INFORMATION"), ("P", "~Parameter Information (run_1)"), ("X", "~Tops_Data"), ("X", "~Core_Data")):
        for engine in ("numpy", "normal"):
            k += 1
            yield {"order": ["W", "C", "P", "O", "X", "A"], "spell": {}, "seed": 5 * k + 2, "engine": engine, "steer": None, "extra": 0, "force_title": [kind, ttl]}
    for engine in ("numpy", "normal"):          # two custom sections under the same title
        k += 1
        yield {"order": ["W", "C", "X", "P", "X", "A"], "spell": {}, "seed": 5 * k + 2, "engine": engine, "steer": None, "extra": 0, "same_custom_title": True}
    for kind in "VWCPOA":
        for sp in range(len(TITLES[kind])):
            for engine in ("numpy", "normal"):
                k += 1
                yield {"order": ["W", "C", "P", "O", "A"], "spell": {kind: sp}, "seed": k, "engine": engine, "steer": None, "extra": 0}
    for si in range(len(STEER)):
        for where in ("C", "P", "X"):
            for order in (["X", "P", "C", "W", "O", "A"], ["W", "C", "P", "X", "O", "A"], ["C", "A", "P", "X", "W", "O"]):
                for engine in ("numpy", "normal"):
                    k += 1
                    yield {"order": order, "spell": {}, "seed": k, "engine": engine, "steer": [si, where], "extra": 0}
                k += 1
                yield {"order": order, "spell": {}, "seed": k, "engine": ["numpy", "normal"][k % 2], "steer": [si, where, ["first", "last"][si % 2] if order[0] == "X" else ["last", "first"][si % 2]], "extra": 0}


def n_random(tier):
    return 6000 if tier == "quick" else 120000


def random_case(rng, tier):
    kinds = ["W", "C", "P", "O", "X"]
    rng.shuffle(kinds)
    extra = rng.choice([0, 0, 1, 2, 3])
    order = kinds + ["X%d" % i for i in range(extra)]
    rng.shuffle(order)
    order.insert(rng.randint(0, len(order)), "A")
    steer = [rng.randrange(len(STEER)), rng.choice(["C", "P", "X"])] if rng.random() < 0.3 else None
    return {"order": order, "spell": "random" if rng.random() < 0.7 else {}, "seed": rng.randrange(10 ** 9),
            "engine": rng.choice(["numpy", "normal"]), "steer": steer, "extra": extra, "drop": rng.choice([None, None, None, "P", "O", "X"]),
            "empty_data": steer is None and rng.random() < 0.08}


def build(case):
    import random
    rng = random.Random(case["seed"])
    tag = [0]

    def t():
        tag[0] += 1
        return "tag%04d" % tag[0]
    spell = case["spell"]

    forced = case.get("force_title") or [None, None]

    def title(kind):
        if kind == forced[0] and not kind.startswith("X"):
            return forced[1]
        if kind.startswith("X"):
            return None
        if spell == "random":
            return rng.choice(TITLES[kind])
        return TITLES[kind][spell.get(kind, 0)]
    order = [k for k in case["order"] if k != case.get("drop")]
    c = rng.randint(1, 5)
    r = rng.randint(1, 4)
    if case.get("empty_data"):
        r = 0                 # "forall section sizes incl. empty": the ~A title is directly followed by the next title (or the end)
    secs = [{"kind": "V", "title": title("V"), "items": [["VERS", "", "2.0", t()], ["WRAP", "", "NO", t()]] +
             [["VX%d" % i, "", "vv%d" % i, t()] for i in range(rng.randint(0, 2))]}]
    customs = list(CUSTOM_TITLES)
    rng.shuffle(customs)
    expect = {}
    for kind in order:
        if kind == "W":
            items = [["STRT", "M", "1.0", t()], ["STOP", "M", "2.0", t()], ["STEP", "M", "0.5", t()], ["NULL", "", "-999.25", t()]]
            if case.get("well_without_null"):
                items.pop()       # a ~Well section that states no NULL: then nothing is a missing-value marker, whatever other sections hold
            items += [["WX%d" % i, "u", "wv%d" % i, t()] for i in range(rng.randint(0, 5))]
            secs.append({"kind": "W", "title": title("W"), "items": items})
        elif kind == "C":
            d = c if rng.random() < 0.85 else 0
            secs.append({"kind": "C", "title": title("C"), "items": [["K%d" % j, "U%d" % j, "", t()] for j in range(d)]})
        elif kind == "P":
            secs.append({"kind": "P", "title": title("P"), "items": [["PX%d" % i, "pu", "pv%d" % i, t()] for i in range(rng.randint(0, 5))]})
        elif kind == "O":
            olines = ["%s free text %d" % (t(), i) for i in range(rng.randint(0, 3))]
            for _ in range(rng.choice([0, 0, 1, 2])):       # blank lines are content of the free-text section too
                olines.insert(rng.randint(0, len(olines)), rng.choice(["", "   "]))
            secs.append({"kind": "O", "title": title("O"), "lines": olines})
        elif kind == "A":
            rows = [["%d.%03d" % (i + 1, j + 1) for j in range(c)] for i in range(r)]
            if c >= 2:
                for i in range(r):
                    rows[i][c - 1] = "-999.25" if i % 2 == 0 else "55.500"
            secs.append({"kind": "A", "title": title("A"), "rows": rows})
        else:
            xt = customs.pop()
            if forced[0] == "X":
                xt = forced[1]
            if case.get("same_custom_title"):
                xt = "~Remarks"
            secs.append({"kind": "X", "title": xt, "items": [["XX%d" % i, "xu", "xv%d" % i, t()] for i in range(rng.randint(1 if case.get("same_custom_title") else 0, 4))]})
    if case.get("steer"):
        si, where = case["steer"][:2]
        m, u, v = STEER[si]
        for s in secs:
            if s["kind"] == where:
                pos = rng.randint(0, len(s["items"]))
                if len(case["steer"]) > 2:
                    pos = 0 if case["steer"][2] == "first" else len(s["items"])
                s["items"].insert(pos, [m, u, v, t()])
                if where == "C":
                    # a curve named like a steering item still needs its data column
                    for a in secs:
                        if a["kind"] == "A":
                            for i, row in enumerate(a["rows"]):
                                row.insert(pos if len(s["items"]) - 1 == len(row) else len(row), "%d.9%02d" % (i + 1, pos))
                break
    return secs


def run_case(case, ctx):
    lasio = ctx.lasio
    secs = build(case)
    text = lastext.render({"sections": secs}, {"sep": " ", "lead": " "})
    ctx.count("reads")
    kinds_in_order = [s["kind"] for s in secs]
    lower = [s["kind"] for s in secs if s["kind"] != "X" and s["title"][1].islower()]
    if lower:
        ctx.count("lowercase_title_cases")
    if case.get("steer"):
        ctx.count("steering_name_cases")
    if kinds_in_order[-1] != "A":
        ctx.count("layouts_data_not_last")
    underscore = [s["title"] for s in secs if "_" in s["title"]]
    cls = "same-custom-title-twice" if case.get("same_custom_title") else "underscore-in-title" if underscore else ("lowercase-title:" + "".join(sorted(set(lower)))) if lower else \
          ("steering-name-in-%s:%s" % (case["steer"][1], STEER[case["steer"][0]][0].upper())) if case.get("steer") else "plain"
    detail = {"text": text, "engine": case["engine"], "order": kinds_in_order, "titles": [s["title"] for s in secs]}
    V = ctx.violation
    header_only = case["seed"] % 5 == 0
    if header_only:
        ctx.count("header_only_reads")
    try:
        las = lasio.read(text, engine=case["engine"], mnemonic_case="preserve", ignore_data=header_only)
    except Exception as e:
        V("read-raised:%s:%s" % (type(e).__name__, cls), "read raised %r" % (e,), detail)
        return
    if case["seed"] % 4 == 1:
        # reading the same text again into the same object must give the same attribution (nothing carried over, nothing doubled)
        ctx.count("rereads_into_same_object")
        try:
            las.read(text, engine=case["engine"], mnemonic_case="preserve", ignore_data=header_only)
        except Exception as e:
            V("reread-into-same-object-raised:%s" % type(e).__name__, "second read() into the same LASFile raised %r" % (e,), detail)
            return
    seen_tags = {}
    for name, sec in las.sections.items():
        if isinstance(sec, str):
            for ln in sec.splitlines():
                w = ln.split(" ")[0]
                seen_tags.setdefault(w, []).append(name)
        else:
            for it in sec:
                seen_tags.setdefault(it.descr, []).append(name)
    ncurves_declared = 0
    for s in secs:
        kind = s["kind"]
        key = {"V": "Version", "W": "Well", "C": "Curves", "P": "Parameter", "O": "Other"}.get(kind)
        if kind == "X":
            key = s["title"][1:]
            ctx.count("custom_sections_checked")
        if kind == "A":
            continue
        got = las.sections.get(key)
        if kind == "O":
            # blank lines may be kept or dropped (the statement is about attribution): compare the non-empty lines
            want = [ln.strip() for ln in s["lines"] if ln.strip()]
            ctx.count("other_lines_checked", len(s["lines"]))
            if any(not ln.strip() for ln in s["lines"]):
                ctx.count("other_sections_with_blank_lines")
            got_lines = [ln for ln in (got or "").split("\n") if ln.strip()] if isinstance(got, str) else None
            if got_lines != want:
                V("other-text:%s" % cls, "~Other text is %r, expected the lines %r" % (got, want), detail)
            continue
        if got is None or isinstance(got, str):
            V("section-missing:%s:%s" % (kind, cls), "section %r (title %r) not found; keys %r" % (key, s["title"], list(las.sections)), detail)
            continue
        items = list(got)
        if kind == "C":
            ncurves_declared = len(s["items"])
            items = items[:ncurves_declared]
        want_tags = [it[3] for it in s["items"]]
        got_tags = [it.descr for it in items]
        ctx.count("tags_checked", len(want_tags))
        if got_tags != want_tags:
            missing = [x for x in want_tags if x not in got_tags]
            elsewhere = {x: seen_tags.get(x) for x in missing}
            V("items-misattributed:%s:%s" % (kind, cls), "section %r holds tags %r, expected %r; missing ones found in %r" % (
                key, got_tags, want_tags, elsewhere), detail)
            continue
        for it, (m, u, v, d) in zip(items, s["items"]):
            ok = it.original_mnemonic == m and it.unit == u and (it.value == v if isinstance(it.value, str) else _numeq(it.value, v))
            if not ok:
                V("item-fields-changed:%s:%s" % (kind, cls), "item %r in %r read as (%r, %r, %r)" % ([m, u, v], key, it.original_mnemonic, it.unit, it.value), detail)
    for tg, owners in seen_tags.items():
        if tg.startswith("tag") and len(owners) > 1:
            V("line-duplicated:%s" % cls, "tag %s appears in %r" % (tg, owners), detail)
    expected_keys = {"Version", "Well", "Curves", "Parameter", "Other"} | {s["title"][1:] for s in secs if s["kind"] == "X"}
    extra_keys = [k for k in las.sections if k not in expected_keys]
    if extra_keys:
        V("unexpected-section:%s" % cls, "sections %r were created" % extra_keys, detail)
    # ---- data -----------------------------------------------------------------------------------------------
    if header_only:
        ctx.case_done([kinds_in_order, "header-only", case.get("steer"), case["engine"]], nontrivial=len(secs) >= 4)
        return
    a = next(s for s in secs if s["kind"] == "A")
    rows = a["rows"]
    if not rows:
        ctx.count("empty_data_sections")
        bad = [len(np.asarray(cu.data)) for cu in las.curves if len(np.asarray(cu.data)) != 0]
        if len(las.curves) != ncurves_declared or bad:
            V("empty-data-section:%s" % cls, "%d curves with lengths %r after an empty ~A; %d declared" % (len(las.curves), [len(cu.data) for cu in las.curves], ncurves_declared), detail)
        ctx.case_done([kinds_in_order, "empty-data", case.get("steer"), case["engine"]], nontrivial=len(secs) >= 4)
        return
    r, c = len(rows), len(rows[0])
    has_null = any(s["kind"] == "W" for s in secs) and not case.get("well_without_null")
    if case.get("well_without_null"):
        ctx.count("layouts_whose_well_section_states_no_null")
    curves = list(las.curves)
    if len(curves) != max(c, ncurves_declared):
        V("data-curve-count:%s" % cls, "%d curves for %d columns / %d declared" % (len(curves), c, ncurves_declared), detail)
    else:
        for j in range(c):
            col = np.asarray(curves[j].data)
            ctx.count("cells_checked", r)
            want = []
            for i in range(r):
                x = float(rows[i][j])
                want.append(float("nan") if (has_null and j > 0 and x == -999.25) else x)
            if col.shape != (r,) or col.dtype.kind != "f" or not np.array_equal(col, np.array(want), equal_nan=True):
                V("data-cell:%s" % cls, "column %d read as %s, expected %s" % (j, col.tolist()[:8], want[:8]), detail)
                break
    sig = [kinds_in_order, [TITLES[s["kind"]].index(s["title"]) if s["kind"] in TITLES and s["title"] in TITLES[s["kind"]] else -1 for s in secs],
           [len(s.get("items", s.get("lines", s.get("rows", [])))) for s in secs], case.get("steer"), case["engine"]]
    ctx.case_done(sig, nontrivial=len(secs) >= 4)
    if kinds_in_order[-1] != "A" or lower or case.get("steer"):
        ctx.sample({"titles": [s["title"] for s in secs], "engine": case["engine"], "steering": case.get("steer") and STEER[case["steer"][0]],
                    "text": text}, limit=4)


def _numeq(a, b):
    try:
        return float(a) == float(b)
    except Exception:
        return False
