"""C13 — duplicate and blank mnemonics: unique session names, originals preserved.

Monitors
  * icontract.snapshot/ensure post-conditions installed (from the harness) on the real
    SectionItems.append / SectionItems.insert: numbering of the inserted item's family, untouched
    names elsewhere, originals never altered.  They fire on every call, including the ones lasio
    makes itself while reading a file.  Conditions record and return True.
  * a state invariant evaluated at quiescent points (after every API-level operation of a history
    and after every read): session names pairwise distinct, each resolves by item / attribute /
    LASFile[...] access to its own item, blank -> UNKNOWN, originals unchanged.
  * a write -> read round trip compared with the session-name reference model (rv/ref/names.py).
"""
import glob
import io
import itertools
import os
import re

import numpy as np

from rv import env
from rv.gen import secops
from rv.ref import names as namesref

ID = "C13"
LEVEL = "exploration"
NAMES = ["A", "a", "", "B", "A:1", "A:2"]
OPS = ([("append", n) for n in NAMES] + [("insert", "first", n) for n in NAMES]
       + [("insert", "mid", n) for n in NAMES] + [("replace", "first", n) for n in NAMES]
       + [("del_idx", "first"), ("del_idx", "last"), ("del_key", "mid")])
RULE = ("in-memory: all operation histories over 27 operations {append/insert-first/insert-mid/"
        "replace-first x names {A,a,'',B,A:1,A:2}, delete first/last by index, delete mid by key} "
        "up to length 4 (quick) / 5 (thorough) x case normalisation {on,off}; the invariant and the "
        "insertion post-conditions are evaluated after the last operation of every history (all "
        "prefixes are histories of their own). Round trip: every name sequence over {A,a,'',B} up to "
        "length 3 (quick) / 4 (thorough) written to ~C, ~W and ~P, versions 1.2/2.0, re-read with "
        "mnemonic_case preserve/upper/lower; plus every corpus file. distinct = distinct reached "
        "(originals, session names, normalisation) state; non-trivial = state with a duplicate "
        "family or a blank mnemonic Added later: reads with 0..3 surplus columns next to declared blank / UNKNOWN curves, blank-only and underscore / non-ASCII names, round trips with the names placed in ~Version. Hunter round 2: a duplicated NULL with a NaN sample to write, one twin of a duplicated table mnemonic deleted again (stale suffix on the survivor) x write(wrap=...). Round 8: positional item assignment section[i] = item.")
ASSUMPTIONS = [
    "names containing ':' take part only in the in-memory histories (a header line cannot carry a colon inside a mnemonic)",
    "stale suffixes after a deletion (A:2 left alone) are allowed: the statement numbers families after insertions only",
]
EXHAUSTIVE = {"quick": "operation histories up to length 4; round-trip name sequences up to length 3",
              "thorough": "operation histories up to length 5; round-trip name sequences up to length 4"}
REQUIRED = ["invariant_evaluations", "contract_evaluations_append", "contract_evaluations_insert",
            "states_two_duplicate_families", "roundtrip_files", "lasfile_getitem_resolutions", "surplus_column_files", "surplus_exactly_one_column"]
SOFT_DEADLINE = {"quick": 90, "thorough": 1500}
LEVEL_TEXT = ("Bounded-exhaustive exploration of section edit histories with an invariant checked at every "
              "quiescent point and icontract post-conditions on the real append/insert, plus write->read round "
              "trips compared with an independent session-name model.")
LEVEL_NOTE = ("Trusts list primitives and HeaderItem attribute reads; histories longer than the bound are only "
              "sampled at random; names outside the alphabet only through the corpus.")
TECHNIQUE = "runtime monitoring: icontract post-conditions on SectionItems.append/insert + state invariant at quiescent points + reference name model over bounded-exhaustive histories"

_ctx = None
_LIT = re.compile(r".*:\d+$")


def _fam(items, useful, norm):
    return [it for it in items if namesref.same(it.useful_mnemonic, useful, norm)]


# ---- icontract post-conditions on the real append / insert ------------------------------------------
def _snap(self):
    return [(it, it.mnemonic, it.original_mnemonic) for it in secops.raw_items(self)]


def _post_insertion(self, newitem, OLD, which):
    ctx = _ctx
    if ctx is None:
        return True
    ctx.count("contract_evaluations_" + which)
    items = secops.raw_items(self)
    norm = bool(self.mnemonic_transforms)
    state = [(it.original_mnemonic, it.mnemonic) for it in items]
    if not hasattr(newitem, "useful_mnemonic"):
        return True
    u = newitem.useful_mnemonic
    fam = _fam(items, u, norm)
    if len(fam) > 1:
        want = ["%s:%d" % (it.useful_mnemonic, i + 1) for i, it in enumerate(fam)]
        got = [it.mnemonic for it in fam]
        if got != want:
            ctx.violation("numbering-after-insertion",
                          "after %s(%r) the family of %r is named %r, expected %r" % (which, newitem.original_mnemonic, u, got, want),
                          {"state(original,session)": state, "norm": norm})
    elif len(fam) == 1 and fam[0] is newitem and newitem.mnemonic != u:
        ctx.violation("unique-name-not-bare", "after %s the unique item %r has session name %r" % (
            which, u, newitem.mnemonic), {"state(original,session)": state, "norm": norm})
    for it, sess, orig in OLD.before:
        if it.original_mnemonic != orig:
            ctx.violation("original-altered", "%s(%r) changed an original mnemonic %r -> %r" % (
                which, newitem.original_mnemonic, orig, it.original_mnemonic), {"state(original,session)": state})
        if not namesref.same(it.useful_mnemonic, u, norm) and it.mnemonic != sess:
            ctx.violation("unrelated-name-touched", "%s(%r) renamed unrelated item %r: %r -> %r" % (
                which, newitem.original_mnemonic, orig, sess, it.mnemonic), {"state(original,session)": state})
    return True


def post_append(self, newitem, OLD):
    return _post_insertion(self, newitem, OLD, "append")


def post_insert(self, i, newitem, OLD):
    return _post_insertion(self, newitem, OLD, "insert")


class ContractBroken(Exception):
    pass


def setup(ctx):
    global _ctx
    import icontract
    _ctx = ctx
    S = ctx.lasio.SectionItems
    S.append = icontract.snapshot(_snap, name="before")(
        icontract.ensure(post_append, error=ContractBroken)(S.append))
    S.insert = icontract.snapshot(_snap, name="before")(
        icontract.ensure(post_insert, error=ContractBroken)(S.insert))


# ---- the invariant, evaluated at quiescent points ----------------------------------------------------
def invariant(ctx, sec, where, las=None, tracked=None):
    ctx.count("invariant_evaluations")
    lasio = ctx.lasio
    items = secops.raw_items(sec)
    norm = bool(sec.mnemonic_transforms)
    state = [(it.original_mnemonic, it.mnemonic) for it in items]
    detail = {"state(original,session)": state, "norm": norm, "where": where}
    groups = {}
    for it in items:
        groups.setdefault(it.mnemonic.upper() if norm else it.mnemonic, []).append(it)
    collided = set()
    for key, grp in groups.items():
        if len(grp) > 1:
            s = grp[0].mnemonic
            collided.update(id(g) for g in grp)
            lit = [g for g in grp if namesref.same(g.useful_mnemonic, g.mnemonic, norm) and _LIT.match(g.mnemonic)]
            gen = [g for g in grp if not namesref.same(g.useful_mnemonic, g.mnemonic, norm)]
            if lit and gen:
                ctx.violation("session-collision-with-literal-suffix-name",
                              "session name %r is shared by an item literally named so and a numbered duplicate" % s, detail)
            else:
                ctx.violation("session-names-not-distinct", "session name %r is carried by %d items" % (s, len(grp)), detail)
    for i, it in enumerate(items):
        if it.original_mnemonic.strip() == "" and not it.mnemonic.startswith("UNKNOWN"):
            ctx.violation("blank-not-unknown", "blank mnemonic shows as %r" % it.mnemonic, detail)
        if id(it) in collided:
            continue
        k = it.mnemonic
        try:
            got = sec[k]
        except Exception as e:
            ctx.violation("session-name-does-not-resolve", "s[%r] raised %r" % (k, e), detail)
            continue
        if got is not it:
            ctx.violation("session-name-resolves-to-other-item", "s[%r] is item #%d, not #%d" % (
                k, next((j for j, x in enumerate(items) if x is got), -1), i), detail)
        if not (k.isidentifier() and hasattr(type(sec), k)):
            try:
                ga = getattr(sec, k)
            except Exception as e:
                ctx.violation("attribute-does-not-resolve", "getattr(s, %r) raised %r" % (k, e), detail)
            else:
                if ga is not it:
                    ctx.violation("attribute-resolves-to-other-item", "getattr(s, %r) is not item #%d" % (k, i), detail)
        if las is not None and isinstance(it, lasio.CurveItem):
            ctx.count("lasfile_getitem_resolutions")
            try:
                d = las[k]
            except Exception as e:
                ctx.violation("lasfile-getitem-does-not-resolve", "las[%r] raised %r" % (k, e), detail)
            else:
                if d is not it.data:
                    ctx.violation("lasfile-getitem-resolves-to-other-curve", "las[%r] is not the data of curve #%d" % (k, i), detail)
    if tracked is not None:
        for it, orig in tracked:
            if it.original_mnemonic != orig:
                ctx.violation("original-altered", "original mnemonic %r became %r" % (orig, it.original_mnemonic), detail)
    fams = {}
    for it in items:
        fams.setdefault(it.useful_mnemonic.upper() if norm else it.useful_mnemonic, []).append(it)
    ndup = sum(1 for f in fams.values() if len(f) > 1)
    if ndup >= 2:
        ctx.count("states_two_duplicate_families")
    nontrivial = ndup >= 1 or any(it.original_mnemonic.strip() == "" for it in items)
    return state, norm, nontrivial


# ---- workload -------------------------------------------------------------------------------------------
RT_NAMES = ["A", "a", "", "B", "  "]      # "  ": a mnemonic of blanks only is blank too (it can only be made through the API)


def grid(tier):
    L = 4 if tier == "quick" else 5
    yield {"kind": "ops", "ops": [], "norm": False}
    for names in (["A", "B", "C"], ["A", "", "B"], ["A", "a", "B"]):         # positional item assignment with a name that is already there
        for w in ("first", "mid", "last"):
            for n2 in ("A", "", "a", "B"):
                for norm in (False, True):
                    yield {"kind": "ops", "ops": [["append", x] for x in names] + [["setitem_pos", w, n2]], "norm": norm}
    for n in range(0, L):
        for pre in itertools.product(range(len(OPS)), repeat=n):
            for norm in (False, True):
                yield {"kind": "ext", "prefix": list(pre), "norm": norm}
    RL = 3 if tier == "quick" else 4
    for n in range(1, RL + 1):
        for seq in itertools.product(RT_NAMES, repeat=n):
            for section in ("Curves", "Well", "Parameter", "Version"):        # ~Version is written from a deep copy of the section
                for version in (1.2, 2.0):
                    yield {"kind": "roundtrip", "names": list(seq), "section": section, "version": version}
    for names, section in ((["STRT"], "Well"), (["STOP", "STOP"], "Well"), (["step"], "Well"), (["VERS"], "Version"), (["WRAP"], "Version")):
        for version in (1.2, 2.0):       # duplicates of the items the writer itself looks up (witnesses of a known finding)
            yield {"kind": "roundtrip", "names": names, "section": section, "version": version}
    for version in (1.2, 2.0):
        # a duplicated NULL with a NaN sample to spell; one twin of a duplicated table mnemonic deleted again (stale suffix on the survivor),
        # written with and without an explicit wrap
        yield {"kind": "roundtrip", "names": ["NULL"], "section": "Well", "version": version, "nan_sample": True}
        yield {"kind": "roundtrip", "names": ["DLM", "DLM"], "section": "Version", "version": version, "nan_sample": True}
        for names, section in ((["WRAP"], "Version"), (["VERS"], "Version"), (["STRT"], "Well"), (["STOP"], "Well"), (["STEP"], "Well"), (["NULL"], "Well")):
            for wo in ({}, {"wrap": True}, {"wrap": False}):
                yield {"kind": "roundtrip", "names": names, "section": section, "version": version, "delete_first_twin": True, "write_opts": wo, "nan_sample": names == ["NULL"]}
    for n in range(0, 3):
        for seq in itertools.product(["A", "", "UNKNOWN", "unknown"], repeat=n):
            for surplus in (0, 1, 2, 3):
                for mc in ("preserve", "upper", "lower"):
                    yield {"kind": "surplus", "names": list(seq), "surplus": surplus, "mnemonic_case": mc, "engine": "numpy" if (surplus + n) % 2 else "normal"}
    for fn in sorted(glob.glob(os.path.join(env.REPO, "tests", "examples", "**", "*.las"), recursive=True)):
        for mc in ("preserve", "upper", "lower"):
            yield {"kind": "corpus", "file": os.path.relpath(fn, env.REPO), "mnemonic_case": mc}


def n_random(tier):
    return 3000 if tier == "quick" else 60000


def random_case(rng, tier):
    if rng.random() < 0.8:
        allops = OPS + [(k, w, n) for k in ("insert", "replace") for w in ("first", "last") for n in (" ", "   ", "\t")] + [("append", n) for n in (" ", "  ", "\t", "_A", "__a__", "É", "a b")] + [("insert", "first", n) for n in ("_A", "É", "é")] + \
            [("insert", "last", n) for n in NAMES] + [("replace", "last", n) for n in NAMES] + \
            [("replace", "mid", n) for n in NAMES] + [("pop", "mid"), ("del_key", "first"), ("del_key", "last")] + \
            [("setitem_pos", w, n) for w in ("first", "mid", "last") for n in NAMES] + \
            [("attr_new", n) for n in ("A", "a", "B", "Z9")] + [("attr_replace", "first", n) for n in NAMES] + [("attr_replace", "last", "A")]
        return {"kind": "ops", "ops": [list(rng.choice(allops)) for _ in range(rng.randint(5, 12))],
                "norm": rng.random() < 0.5, "curves": rng.random() < 0.3}
    pool = ["A", "a", "", "B", "DEPT", "Gr", "GR", "x1", " ", "   "]
    return {"kind": "roundtrip", "names": [rng.choice(pool) for _ in range(rng.randint(2, 8))],
            "section": rng.choice(["Curves", "Well", "Parameter", "Version"]), "version": rng.choice([1.2, 2.0])}


def run_case(case, ctx):
    kind = case["kind"]
    if kind == "ext":
        pre = [OPS[i] for i in case["prefix"]]
        for op in OPS:
            run_history(ctx, pre + [op], case["norm"], check_all_steps=False)
    elif kind == "ops":
        run_history(ctx, [tuple(o) for o in case["ops"]], case["norm"], check_all_steps=True,
                    curves=case.get("curves", False))
    elif kind == "roundtrip":
        run_roundtrip(ctx, case)
    elif kind == "corpus":
        run_corpus(ctx, case)
    elif kind == "surplus":
        run_surplus(ctx, case)


def run_surplus(ctx, case):
    """A file whose data section carries more columns than ~C declares: the library itself appends unnamed curves during
    the read, next to declared curves that may already be blank or literally called UNKNOWN."""
    lasio = ctx.lasio
    names, s, mc, engine = case["names"], case["surplus"], case["mnemonic_case"], case["engine"]
    lines = ["~Version", "VERS. 2.0 : v", "WRAP. NO : w", "~Well", "STRT.m 1.0 : s", "STOP.m 2.0 : s", "STEP.m 0.5 : s", "NULL. -999.25 : n", "~Curves", "DEPT.m : depth"]
    for i, nm in enumerate(names):
        lines.append("%-6s.ohmm : curve %d" % (nm, i))
    lines.append("~ASCII")
    ncols = 1 + len(names) + s
    for r in range(3):
        lines.append(" ".join("%.1f" % (1.0 + 0.5 * r + 10 * j) for j in range(ncols)))
    text = "\n".join(lines) + "\n"
    try:
        las = lasio.read(text, mnemonic_case=mc, engine=engine)
    except Exception as e:
        ctx.violation("surplus-read-raised:%s" % type(e).__name__, "reading %d declared + %d surplus columns raised %r" % (len(names), s, e), {"case": case, "text": text})
        return
    ctx.count("surplus_column_files")
    if s == 1:
        ctx.count("surplus_exactly_one_column")
    f = {"preserve": str, "upper": str.upper, "lower": str.lower}[mc]
    want_orig = [f("DEPT")] + [f(n) for n in names] + [""] * s
    got_orig = [it.original_mnemonic for it in secops.raw_items(las.curves)]
    if got_orig != want_orig:
        ctx.violation("surplus-originals-differ", "original mnemonics %r, expected %r" % (got_orig, want_orig), {"case": case, "text": text})
        return
    invariant(ctx, las.curves, "read with %d surplus columns (%s, %s)" % (s, mc, engine), las=las)
    want = namesref.sessions(want_orig, norm=(mc != "preserve"))
    got = [it.mnemonic for it in secops.raw_items(las.curves)]
    if got != want:
        ctx.violation("surplus-session-names-differ-from-model", "session names %r, model %r" % (got, want), {"case": case, "text": text})
    nt = "" in names or "UNKNOWN" in [n.upper() for n in names] or s > 1
    ctx.case_done(["surplus", names, s, mc, engine], nontrivial=nt)


def run_history(ctx, ops, norm, check_all_steps, curves=False):
    lasio = ctx.lasio
    las = None
    if curves:
        las = lasio.LASFile()
        sec = las.curves
        mk = lambda name: lasio.CurveItem(name, "", "v", "d", data=np.arange(3.0))
    else:
        sec = lasio.SectionItems()
        mk = None
    if norm:
        sec.mnemonic_transforms = True
    case = {"kind": "ops", "ops": [list(o) for o in ops], "norm": norm, "curves": curves}
    ctx.current_case = case
    state = None
    for n, op in enumerate(ops):
        last = n == len(ops) - 1
        tracked = [(it, it.original_mnemonic) for it in secops.raw_items(sec)] if (last or check_all_steps) else None
        before = [(it, it.mnemonic) for it in secops.raw_items(sec)] if (last or check_all_steps) else None
        try:
            tag = secops.apply_op(lasio, sec, op, mk)
        except Exception as e:
            ctx.violation("operation-raised", "%r raised %r" % (op, e), {"ops": case["ops"], "norm": norm})
            return
        if last or check_all_steps:
            state, nm, nontrivial = invariant(ctx, sec, "after %r" % (op,), las=las, tracked=tracked)
            if tag in ("del_idx", "del_key", "pop"):
                now = {id(it): it.mnemonic for it in secops.raw_items(sec)}
                removed = [it for it, _ in before if id(it) not in now]
                for it, sess in before:
                    if id(it) in now and now[id(it)] != sess and not any(
                            namesref.same(it.useful_mnemonic, r.useful_mnemonic, norm) for r in removed):
                        ctx.violation("unrelated-name-touched", "%r renamed unrelated item %r -> %r" % (
                            op, sess, now[id(it)]), {"ops": case["ops"], "norm": norm})
    if not ops:
        state, nm, nontrivial = invariant(ctx, sec, "empty", las=las)
    ctx.case_done([state, norm], nontrivial)
    if nontrivial and len(ops) >= 3:
        ctx.sample({"ops": case["ops"], "norm": norm, "state(original,session)": state})


def build_las(lasio, names, section):
    las = lasio.LASFile()
    n = 3
    if section == "Curves":
        las.append_curve("DEPT", np.arange(n) * 0.5 + 100, unit="m", descr="index")
        for i, nm in enumerate(names):
            las.append_curve(nm, np.arange(n) + 10.0 * (i + 1), unit="u%d" % i, descr="curve %d" % i)
    else:
        las.append_curve("DEPT", np.arange(n) * 0.5 + 100, unit="m", descr="index")
        las.append_curve("X", np.arange(n) + 1.0, unit="u", descr="x")
        sec = las.well if section == "Well" else las.version if section == "Version" else las.params
        for i, nm in enumerate(names):
            sec.append(lasio.HeaderItem(nm, "", "v%d" % i, "item %d" % i))
    return las


def run_roundtrip(ctx, case):
    lasio = ctx.lasio
    names, section, version = case["names"], case["section"], case["version"]
    las = build_las(lasio, names, section)
    sec = las.sections[section]
    if case.get("nan_sample"):
        # NaN samples are the normal state of a LASFile: the writer needs the NULL item to spell them
        las.curves[1].data[1] = np.nan
        ctx.count("roundtrips_with_a_nan_sample")
    if case.get("delete_first_twin"):
        # what a user does after seeing WRAP:1 / WRAP:2: delete one of the two; the survivor keeps its (allowed) stale suffix
        twin = next(it.mnemonic for it in secops.raw_items(sec) if it.original_mnemonic.upper() == names[0].upper())
        del sec[twin]
        ctx.count("roundtrips_after_deleting_one_twin")
    invariant(ctx, sec, "built in memory", las=las if section == "Curves" else None)
    mem_sessions = [it.mnemonic for it in secops.raw_items(sec)]
    mem_originals = [it.original_mnemonic for it in secops.raw_items(sec)]
    buf = io.StringIO()
    try:
        las.write(buf, version=version, **case.get("write_opts", {}))
    except Exception as e:
        table = {"STRT", "STOP", "STEP", "VERS", "WRAP"} | ({"NULL"} if case.get("delete_first_twin") else set())
        dup = any(n.upper() in table for n in names) and section in ("Well", "Version")
        stale = dup and case.get("delete_first_twin")
        ctx.violation("write-raised:lone-table-mnemonic-with-stale-suffix" if stale else "write-raised:duplicated-table-mnemonic" if dup else "write-raised",
                      "write() raised %r" % (e,), case)
        return
    text = buf.getvalue()
    if [it.original_mnemonic for it in secops.raw_items(sec)] != mem_originals:
        ctx.violation("write-changed-the-section", "write() left originals %r in the object's section, they were %r" % (
            [it.original_mnemonic for it in secops.raw_items(sec)], mem_originals), case)
    if [it.original_mnemonic for it in secops.raw_items(sec)] != mem_originals:
        ctx.violation("original-altered", "write() changed original mnemonics", case)
    # what write() emitted: the mnemonic field of every line of that section
    title = {"Curves": "~Curve", "Well": "~Well", "Parameter": "~Params", "Version": "~Version"}[section]
    body, on = [], False
    for ln in text.splitlines():
        if ln.startswith("~"):
            on = ln.startswith(title)
            continue
        if on and ln.strip():
            body.append(ln.split(".", 1)[0].strip())
    if body != [m.strip() for m in mem_originals]:
        ctx.violation("write-does-not-emit-originals", "%s lines carry mnemonics %r, originals are %r" % (
            title, body, mem_originals), {"case": case, "text": text})
    for mc in ("preserve", "upper", "lower"):
        ctx.count("roundtrip_files")
        try:
            back = lasio.read(text, mnemonic_case=mc)
        except Exception as e:
            ctx.violation("reread-raised", "re-reading lasio's own output (mnemonic_case=%s) raised %r" % (mc, e),
                          {"case": case, "text": text})
            continue
        bsec = back.sections[section]
        f = {"preserve": str, "upper": str.upper, "lower": str.lower}[mc]
        want_orig = [f(o) if o.strip() else "" for o in mem_originals]      # a blank mnemonic is written as blanks and read as ''
        got_orig = [it.original_mnemonic for it in secops.raw_items(bsec)]
        if got_orig != want_orig:
            ctx.violation("roundtrip-originals-differ", "mnemonic_case=%s: originals %r, expected %r" % (mc, got_orig, want_orig),
                          {"case": case, "text": text})
            continue
        want_sess = namesref.sessions(want_orig, norm=(mc != "preserve"))
        got_sess = [it.mnemonic for it in secops.raw_items(bsec)]
        if got_sess != want_sess:
            ctx.violation("roundtrip-session-names-differ", "mnemonic_case=%s: session names %r, model %r" % (mc, got_sess, want_sess),
                          {"case": case, "text": text})
        if mc == "preserve" and got_sess != mem_sessions and not case.get("delete_first_twin"):      # (a stale suffix in memory is allowed and not reproduced)
            ctx.violation("roundtrip-session-names-not-reproduced", "in memory %r, after round trip %r" % (mem_sessions, got_sess),
                          {"case": case, "text": text})
        st, nm, nontrivial = invariant(ctx, bsec, "after re-read (%s)" % mc, las=back if section == "Curves" else None)
    fam = len(set(names)) < len(names) or "" in names
    ctx.case_done(["rt", names, section, version], nontrivial=fam)
    if fam:
        ctx.sample({"roundtrip": case, "sessions_in_memory": mem_sessions}, limit=6)


def run_corpus(ctx, case):
    lasio = ctx.lasio
    try:
        las = lasio.read(os.path.join(env.REPO, case["file"]), mnemonic_case=case["mnemonic_case"])
    except Exception:
        ctx.count("corpus_unreadable")
        return
    ctx.count("corpus_files")
    nt = False
    for name, sec in las.sections.items():
        if isinstance(sec, str):
            continue
        st, norm, nontrivial = invariant(ctx, sec, "corpus %s %s" % (case["file"], name),
                                         las=las if name == "Curves" else None)
        nt = nt or nontrivial
        origs = [o for o, s in st]
        if any(_LIT.match(o) for o in origs):
            continue
        want = namesref.sessions(origs, norm)
        if [s for o, s in st] != want:
            ctx.violation("read-session-names-differ-from-model", "%s %s: %r, model %r" % (
                case["file"], name, [s for o, s in st], want), case)
    ctx.case_done(["corpus", case["file"], case["mnemonic_case"]], nt)
