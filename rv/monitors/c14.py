"""C14 — the curve collection behaves like an ordered list model under every edit history.

A plain list of (original name, unit, value, descr, array copy) is driven with the same operations
as the real LASFile; after each operation every view of the real object is compared with the model.
A second LASFile that the history does not touch is compared with its own last snapshot."""
import copy
import itertools

import numpy as np

from rv import canon
from rv.gen import secops

ID = "C14"
LEVEL = "exploration"
NROWS = 3

# symbolic operations, resolved against the current state
OPS = [
    ("append", "new"), ("append", "dup"), ("append", "blank"),
    ("insert", 0, "new"), ("insert", -1, "new"), ("insert", "mid", "dup"), ("insert", 99, "new"),
    ("delete_ix", 0), ("delete_ix", -1), ("delete_mn", "first"), ("delete_mn", "last"),
    ("update_ix", 0, "data"), ("update_mn", "last", "meta"), ("update_ix", -1, "all"),
    ("replace", 0, "new"), ("replace", -1, "dup"), ("replace", "mid", "new"),
    ("setitem_arr", "newkey"), ("setitem_arr", "first"), ("setitem_arr", "casevariant"), ("setitem_item", "last"), ("setitem_item", "newkey"),
    ("set_data", "same", None, False), ("set_data", "wider", "dupnames", False),
    ("set_data", "wider", None, True), ("set_data", "same", "newnames", False), ("set_data", "rows", None, False),
    ("inplace", 0), ("inplace", -1),
]
RANDOM_EXTRA = [
    ("delete_ix", 99), ("delete_mn", "missing"), ("update_ix", 99, "data"), ("replace", 99, "new"),
    ("set_data", "wider", "shortnames", False), ("set_data", "wider", "dupnames", True), ("set_data", "df", None, False),
    ("insert", -99, "dup"), ("update_mn", "first", "all"), ("replace", 1, "dup"), ("insert", 1, "blank"),
    ("setitem_item", "first"), ("delete_ix", 1), ("inplace", "mid"), ("getmissing",),
    ("update_both", 0, "all", "last"), ("update_both", -1, "meta", "first"), ("update_both", "mid", "data", "missing"), ("update_both", 99, "all", "first"),
    ("delete_both", -1, "first"), ("delete_both", 0, "missing"), ("delete_both", 0, "last"),
    ("move_last", 0), ("move_last", 1), ("move_last", "mid"), ("alias",),
    ("set_data", "empty_wider", None, False), ("set_data", "empty_wider", None, True),
]
RULE = ("histories over %d symbolic operations (append/insert/delete by index and mnemonic/update/replace/"
        "item assignment with arrays and CurveItems/set_data with same, wider, truncated, renamed, duplicate-named "
        "arrays/in-place sample edits), exhaustively up to length 3 (quick) / 4 (thorough) on a fresh LASFile and on "
        "a read LASFile, plus random histories of length 5..30 including out-of-range positions, missing mnemonics, "
        "short name lists and DataFrames, each with an untouched partner LASFile. After the last operation of every "
        "exhaustive history and after every operation of a random history all views (curves, keys, values, items, "
        "index, data, [int], [mnemonic]) are compared with the list model. distinct = distinct sequence of "
        "(operation kind, resolved position) ; non-trivial = history with >= 2 operations that leaves >= 2 curves Added later: index together with a mnemonic (update / delete), falsy and numeric curve metadata, names of several shapes, move-to-end and aliasing of arrays, arrays without samples, list / tuple / strided / Fortran-ordered array arguments, numpy-integer positions. Round 8: histories on a log of one depth step."
        % len(OPS))
ASSUMPTIONS = [
    "session names (keys) are predicted by the model with the documented rule: renumbered :1..:n in order after each insertion and after set_data, left alone by deletions and updates",
    "an array without samples (0 x k, k wider than the curve list) changes no curve and creates none, as set_data's own `data.size > 0` guards say; only the duplicate numbering is refreshed",
    "set_data() is only given 2-D arrays at least as wide as the curve list; names of curves beyond the end of a too-short names= list are don't-care",
    "where the plain list model raises (position out of range, missing mnemonic) lasio must raise too and leave the curves unchanged",
]
EXHAUSTIVE = {"quick": "all histories up to length 3 over the 28-operation alphabet, on a fresh and on a read LASFile",
              "thorough": "all histories up to length 4 over the 28-operation alphabet, on a fresh and on a read LASFile"}
REQUIRED = ["view_comparisons", "op_append", "op_insert", "op_delete_ix", "op_delete_mn", "op_update_ix", "op_update_mn",
            "op_replace", "op_update_both", "op_delete_both", "op_move_last", "op_alias", "op_setitem_arr", "op_setitem_item", "op_set_data", "op_set_data_truncate", "op_inplace",
            "partner_comparisons"]
SOFT_DEADLINE = {"quick": 90, "thorough": 1500}
LEVEL_TEXT = ("Bounded-exhaustive exploration of curve edit histories; every view of the real LASFile is compared with an "
              "independent plain-list model after the operations, and an untouched partner object is re-snapshotted.")
LEVEL_NOTE = "Trusts numpy array equality and the harness's own 40-line list model; longer histories are sampled randomly."
TECHNIQUE = "runtime monitoring: executable list model stepped in lock-step with the real LASFile over bounded-exhaustive and random edit histories"

BASE_TEXT = """~Version
VERS. 2.0 : v
WRAP. NO : w
~Well
STRT.m 1.0 : s
STOP.m 2.0 : s
STEP.m 0.5 : s
NULL. -999.25 : n
~Curves
DEPT.m : depth
GR.gapi : gamma
GR.gapi : gamma again
~ASCII
1.0 10.0 100.0
1.5 11.0 101.0
2.0 12.0 102.0
"""


def grid(tier):
    L = 3 if tier == "quick" else 4
    for start in ("fresh", "read"):
        for n in range(0, L):
            for pre in itertools.product(range(len(OPS)), repeat=n):
                yield {"kind": "ext", "prefix": list(pre), "start": start}
    for start in ("fresh", "read"):
        for seq in ([("move_last", 1)], [("move_last", 0), ("inplace", 0)], [("alias",), ("inplace", -1)], [("append", "new"), ("move_last", 1), ("alias",)],
                    [("set_data", "same", None, False), ("move_last", 1), ("inplace", -1)], [("append", "new"), ("alias",), ("move_last", 0), ("inplace", 0)]):
            yield {"kind": "ops", "ops": [list(o) for o in seq], "start": start}
    for start in ("fresh", "read"):
        for seq in ([("set_data", "empty_wider", None, False)], [("append", "new"), ("append", "new"), ("set_data", "empty_wider", None, False), ("append", "new")],
                    [("set_data", "empty_wider", None, True), ("set_data", "wider", None, False)]):
            yield {"kind": "ops", "ops": [list(o) for o in seq], "start": start}
    for n in range(1, 3):                  # the single operations and pairs again on a one-sample log
        for pre in itertools.product(range(len(OPS)), repeat=n):
            if n == 1 or (pre[0] + 7 * pre[1]) % 5 == 0:
                yield {"kind": "ops", "ops": [list(OPS[i]) for i in pre], "start": "fresh1"}
    setup_ops = [("append", "new"), ("append", "new"), ("append", "dup"), ("append", "new")]
    for start in ("fresh", "read"):        # an index together with a mnemonic that names another (or no) curve
        for both in [o for o in RANDOM_EXTRA if o[0] in ("update_both", "delete_both")]:
            for k in (2, 4):
                yield {"kind": "ops", "ops": [list(o) for o in setup_ops[:k]] + [list(both), ["append", "dup"], list(both)], "start": start}


def n_random(tier):
    return 1500 if tier == "quick" else 40000


def random_case(rng, tier):
    allops = OPS + RANDOM_EXTRA
    return {"kind": "ops", "ops": [list(rng.choice(allops)) for _ in range(rng.randint(5, 30))],
            "start": rng.choice(["fresh", "read", "fresh", "read", "fresh1"])}


NEW_NAME_SHAPES = ["N%d", "N%d", "_n%d", "N %d", "Ñ%d", "%d", "n%d", "N-%d", "N%d"]      # new (unique) names of several shapes
META_VALUES = ["v", 0, 7, 0.0, "", "0", 45.5, -0.0, "45 310 01 00"]


class Model:
    def __init__(self):
        self.c = []   # dicts: orig, unit, value, descr, data

    def snapshot_from(self, las):
        self.c = [{"orig": it.original_mnemonic, "sess": it.mnemonic, "unit": it.unit, "value": it.value, "descr": it.descr,
                   "data": np.array(it.data, copy=True)} for it in secops.raw_items(las.curves)]


def useful(o):
    return "UNKNOWN" if str(o).strip() == "" else o


def renumber(m, u, norm):
    """Session-name rule of the documentation: a name shared by n > 1 items is numbered :1..:n in order."""
    fam = [e for e in m if e["orig"] is not None and (useful(e["orig"]).upper() == u.upper() if norm else useful(e["orig"]) == u)]
    if len(fam) > 1:
        for i, e in enumerate(fam):
            e["sess"] = "%s:%d" % (useful(e["orig"]), i + 1)


def m_insert(m, ix, entry, norm):
    entry["sess"] = useful(entry["orig"])
    m.insert(ix, entry)
    renumber(m, useful(entry["orig"]), norm)


class Run:
    def __init__(self, ctx, start):
        self.ctx = ctx
        lasio = ctx.lasio
        self.lasio = lasio
        if start == "read":
            self.las = lasio.read(BASE_TEXT)
            self.partner = lasio.read(BASE_TEXT)
        else:
            self.las = lasio.LASFile()
            self.partner = lasio.LASFile()
            self.partner.append_curve("DEPT", np.arange(NROWS) + 0.5, unit="m")
            self.partner.append_curve("P", np.arange(NROWS) + 70.0)
        self.norm = bool(self.las.curves.mnemonic_transforms)
        self.m = Model()
        self.m.snapshot_from(self.las)
        self.partner_snap = canon.clas(self.partner)
        self.k = 0          # operation counter -> unique sample values
        self.nrows = 1 if start == "fresh1" else NROWS      # "fresh1": a log of one depth step - every curve is a 1-D array of length 1
        if start == "fresh1":
            ctx.count("histories_on_one_sample_logs")
        self.newnames = 0

    # -- helpers -----------------------------------------------------------------------------
    def arr(self, n=None):
        self.k += 1
        return np.arange(n or self.nrows, dtype=float) + 1000.0 * self.k

    def name(self, kind):
        if kind == "new":
            self.newnames += 1
            return NEW_NAME_SHAPES[self.newnames % len(NEW_NAME_SHAPES)] % self.newnames
        if kind == "dup":
            return self.m.c[0]["orig"] if self.m.c else "D"
        if kind == "blank":
            return ""
        return kind

    def pos(self, code, n):
        return n // 2 if code == "mid" else code

    def keys(self):
        return [e["sess"] for e in self.m.c]

    def key_at(self, which):
        ks = self.keys()
        if which == "missing":
            return "NO_SUCH_CURVE"
        if not ks:
            return None
        return ks[0] if which == "first" else ks[-1]

    def first_index_of_key(self, key):
        ks = self.keys()
        return ks.index(key) if key in ks else None

    # -- one operation on both the real object and the model ---------------------------------
    def step(self, op):
        """Returns (tag, expect_raise, exc) ; tag None = not applicable in this state."""
        las, m, ctx = self.las, self.m.c, self.ctx
        kind = op[0]
        n = len(m)
        exc = None
        expect_raise = False
        resolved = None
        before = copy.copy(m)
        try:
            if kind == "append":
                nm, a = self.name(op[1]), self.arr()
                resolved = ("append", op[1])
                v = META_VALUES[self.k % len(META_VALUES)]          # the API code may be int / float / str, falsy values included
                m_insert(m, len(m), {"orig": nm, "unit": "u%d" % self.k, "value": v, "descr": "d%d" % self.k, "data": a.copy()}, self.norm)
                arg = a
                if self.k % 4 == 1:
                    arg = a.tolist()                      # data given as a list ...
                elif self.k % 4 == 2:
                    arg = tuple(a.tolist())               # ... a tuple ...
                elif self.k % 4 == 3:
                    big = np.zeros(2 * len(a))
                    big[::2] = a
                    arg = big[::2]                        # ... or a strided view
                las.append_curve(nm, arg, unit="u%d" % self.k, descr="d%d" % self.k, value=v)
            elif kind == "insert":
                ix, nm, a = self.pos(op[1], n), self.name(op[2]), self.arr()
                resolved = ("insert", _cls(ix, n), op[2])
                v = META_VALUES[(self.k + 3) % len(META_VALUES)]
                if self.k % 2:
                    m_insert(m, ix, {"orig": nm, "unit": "", "value": v, "descr": "i%d" % self.k, "data": a.copy()}, self.norm)
                    las.insert_curve(ix, nm, a, descr="i%d" % self.k, value=v)
                else:
                    m_insert(m, ix, {"orig": nm, "unit": "", "value": "", "descr": "i%d" % self.k, "data": a.copy()}, self.norm)
                    las.insert_curve(ix, nm, a, descr="i%d" % self.k)
            elif kind == "delete_ix":
                ix = self.pos(op[1], n)
                resolved = ("delete_ix", _cls(ix, n))
                try:
                    m.pop(ix)
                except IndexError:
                    expect_raise = True
                las.delete_curve(ix=ix)
            elif kind == "delete_both":           # an index and a mnemonic naming another curve: the index decides
                ix = self.pos(op[1], n)
                resolved = ("delete_both", _cls(ix, n), op[2])
                try:
                    m.pop(ix)
                except IndexError:
                    expect_raise = True
                las.delete_curve(mnemonic=self.key_at(op[2]) or "NO_SUCH_CURVE", ix=ix)
            elif kind == "delete_mn":
                key = self.key_at(op[1])
                if key is None:
                    return None, False, None
                ix = self.first_index_of_key(key)
                resolved = ("delete_mn", op[1], _cls(ix, n))
                if ix is None:
                    expect_raise = True
                else:
                    m.pop(ix)
                las.delete_curve(mnemonic=key)
            elif kind in ("update_ix", "update_mn", "update_both"):
                if kind in ("update_ix", "update_both"):
                    ix = self.pos(op[1], n)
                    kw = {"ix": ix}
                    if kind == "update_both":      # documented: "The index takes precedence over the mnemonic"
                        kw["mnemonic"] = self.key_at(op[3]) or "NO_SUCH_CURVE"
                    try:
                        tgt = m[ix]
                    except IndexError:
                        tgt, expect_raise = None, True
                else:
                    key = self.key_at(op[1])
                    if key is None:
                        return None, False, None
                    ix = self.first_index_of_key(key)
                    kw = {"mnemonic": key}
                    tgt = m[ix] if ix is not None else None
                    expect_raise = ix is None
                resolved = (kind, _cls(ix, n), op[2])
                a = self.arr()
                if op[2] in ("data", "all"):
                    kw["data"] = a
                    if tgt is not None:
                        tgt["data"] = a.copy()
                if op[2] in ("meta", "all"):
                    kw.update(unit="U%d" % self.k, descr="D%d" % self.k, value=self.k)
                    if tgt is not None:
                        tgt.update(unit="U%d" % self.k, descr="D%d" % self.k, value=self.k)
                las.update_curve(**kw)
            elif kind == "replace":
                ix, nm, a = self.pos(op[1], n), self.name(op[2]), self.arr()
                resolved = ("replace", _cls(ix, n), op[2])
                new = {"orig": nm, "unit": "r", "value": "", "descr": "r%d" % self.k, "data": a.copy()}
                try:
                    pos_ix = range(len(m))[ix]
                    m.pop(pos_ix)
                    m_insert(m, pos_ix, new, self.norm)
                except IndexError:
                    expect_raise = True
                las.replace_curve_item(ix, self.lasio.CurveItem(nm, "r", "", "r%d" % self.k, a))
            elif kind == "setitem_arr":
                a = self.arr()
                if op[1] == "newkey":
                    key = self.name("new")
                    m_insert(m, len(m), {"orig": key, "unit": "", "value": "", "descr": "", "data": a.copy()}, self.norm)
                elif op[1] == "casevariant":
                    # a name that differs from an existing one only in letter case is a *new* key (keys() is matched exactly)
                    base = next((c["orig"] for c in m if c["orig"] and c["orig"].swapcase() != c["orig"]), None)
                    if base is None or base.swapcase() in self.keys():
                        return None, False, None
                    key = base.swapcase()
                    m_insert(m, len(m), {"orig": key, "unit": "", "value": "", "descr": "", "data": a.copy()}, self.norm)
                else:
                    key = self.key_at(op[1])
                    if key is None:
                        return None, False, None
                    m[self.first_index_of_key(key)]["data"] = a.copy()
                resolved = ("setitem_arr", op[1])
                las[key] = a
            elif kind == "setitem_item":
                a = self.arr()
                if op[1] == "newkey":
                    key = self.name("new")
                    m_insert(m, len(m), {"orig": key, "unit": "si", "value": "", "descr": "s%d" % self.k, "data": a.copy()}, self.norm)
                    item = self.lasio.CurveItem(key, "si", "", "s%d" % self.k, a)
                else:
                    key = self.key_at(op[1])
                    if key is None:
                        return None, False, None
                    ix = self.first_index_of_key(key)
                    # the CurveItem must carry the key as its (session) mnemonic
                    item = self.lasio.CurveItem(key, "si", "", "s%d" % self.k, a)
                    m.pop(ix)
                    m_insert(m, ix, {"orig": key, "unit": "si", "value": "", "descr": "s%d" % self.k, "data": a.copy()}, self.norm)
                resolved = ("setitem_item", op[1])
                las[key] = item
            elif kind == "set_data":
                width, names_kind, truncate = op[1], op[2], op[3]
                if n == 0 and width in ("same", "rows"):
                    return None, False, None
                rows = self.nrows
                if width == "rows":
                    rows = 2 if self.nrows != 2 else 4
                if width == "empty_wider":
                    rows = 0              # an array without samples: no curve changes, no curve is created (set_data's own guards)
                ncols = n if width in ("same", "rows", "df") else n + 2
                if ncols == 0:
                    return None, False, None
                self.k += 1
                A = (np.arange(rows * ncols, dtype=float).reshape(rows, ncols) + 1000.0 * self.k)
                eff = A[:, :n] if truncate else A
                final_n = max(n, eff.shape[1])
                names = None
                if names_kind == "dupnames":
                    names = ["S", "S", "T", "S"][:final_n] + ["Q%d" % i for i in range(max(0, final_n - 4))]
                elif names_kind == "newnames":
                    names = ["R%d_%d" % (self.k, i) for i in range(final_n)]
                elif names_kind == "shortnames":
                    names = ["H%d" % self.k]
                resolved = ("set_data", width, names_kind, truncate)
                while len(m) < eff.shape[1] and eff.size > 0:
                    m.append({"orig": "", "sess": "UNKNOWN", "unit": "", "value": "", "descr": "", "data": np.array([])})
                for i, c in enumerate(m):
                    if eff.size == 0:
                        break             # nothing is assigned from an array without samples
                    if names is not None:
                        c["orig"] = names[i] if i < len(names) else None     # None = don't care
                    c["data"] = eff[:, i].copy()
                    c["sess"] = useful(c["orig"]) if c["orig"] is not None else None     # assigning .mnemonic resets the session name
                if eff.size:              # (an array without samples changes nothing at all - since fix "set_data keeps the names of curves that already go by them" not even stale numbers)
                    for u in {useful(c["orig"]) for c in m if c["orig"] is not None}:
                        renumber(m, u, self.norm)
                if eff.size:
                    self.nrows = rows
                if width == "df":
                    import pandas as pd
                    cols = [c["orig"] for c in m]
                    if any(x is None for x in cols) or n < 1:
                        return None, False, None
                    df = pd.DataFrame(A[:, 1:], index=pd.Index(A[:, 0], name=cols[0]), columns=cols[1:])
                    las.set_data(df)
                elif names is None and not truncate and self.k % 2:
                    las.data = A.copy()          # the property setter is documented as equivalent to set_data(array)
                else:
                    arg = A.copy()
                    if self.k % 3 == 0 and A.size:
                        arg = A.tolist()                   # array-likes: a list of rows ...
                    elif self.k % 3 == 1 and A.size:
                        arg = np.asfortranarray(A)[:, :]   # ... or a non-C-contiguous array
                    las.set_data(arg, names=list(names) if names is not None else None, truncate=truncate)
            elif kind == "inplace":
                if n == 0:
                    return None, False, None
                ix = self.pos(op[1], n)
                self.k += 1
                resolved = ("inplace", _cls(ix, n))
                if m[ix]["data"].size == 0:
                    return None, False, None
                d = secops.raw_items(las.curves)[ix].data
                if d.dtype.kind != "f" or not d.flags.writeable:
                    return None, False, None
                m[ix]["data"][0] = -float(self.k)
                d[0] = -float(self.k)
            elif kind == "move_last":
                # a curve taken out and appended again as the same item (the arrays of a read LASFile are views of one block)
                if n < 2:
                    return None, False, None
                ix = self.pos(op[1], n)
                resolved = ("move_last", _cls(ix, n))
                item = secops.raw_items(las.curves)[ix]
                e = m.pop(range(n)[ix])
                las.delete_curve(ix=ix)
                m.append(e)                       # the item keeps the session name it carries (possibly a stale suffix) unless it meets a namesake
                renumber(m, useful(e["orig"]), self.norm)
                las.append_curve_item(item)
            elif kind == "alias":
                # one curve is given the very array object of another one
                if n < 2:
                    return None, False, None
                resolved = ("alias",)
                ks = self.keys()
                if ks[0] == ks[-1]:
                    return None, False, None
                m[self.first_index_of_key(ks[-1])]["data"] = m[self.first_index_of_key(ks[0])]["data"]
                las[ks[-1]] = las[ks[0]]
            elif kind == "getmissing":
                resolved = ("getmissing",)
                try:
                    las["NO_SUCH_CURVE"]
                except KeyError:
                    pass
                except Exception as e:
                    ctx.violation("missing-mnemonic-not-keyerror", "las['NO_SUCH_CURVE'] raised %s" % type(e).__name__)
                else:
                    ctx.violation("missing-mnemonic-not-keyerror", "las['NO_SUCH_CURVE'] returned a value")
            else:
                raise ValueError(op)
        except Exception as e:   # raised by lasio (the model part cannot raise past its own try blocks)
            exc = e
        if expect_raise:
            self.m.c = before if exc is not None else self.m.c
            if exc is None:
                ctx.violation("no-exception-where-list-model-raises", "%r succeeded although the position/mnemonic does not exist" % (op,))
                self.m.snapshot_from(las)
        elif exc is not None:
            ctx.violation("operation-raised:%s:%s" % (kind + ("-truncate" if kind == "set_data" and op[3] else ""), type(exc).__name__),
                          "%r raised %r" % (op, exc))
            self.m.snapshot_from(las)      # resynchronise so that later steps stay meaningful
        ctx.count("op_" + kind)
        if kind == "set_data" and op[3]:
            ctx.count("op_set_data_truncate")
        return resolved, expect_raise, exc

    # -- compare every view with the model -----------------------------------------------------
    def compare(self, op):
        ctx, las, m = self.ctx, self.las, self.m.c
        V = ctx.violation
        ctx.count("view_comparisons")
        items = secops.raw_items(las.curves)
        tag = "after %r" % (op,)
        if las.curves is not las.sections["Curves"]:
            V("curves-view-not-section", "las.curves is not las.sections['Curves'] " + tag)
        if len(items) != len(m):
            V("curve-count", "%d curves, model has %d %s" % (len(items), len(m), tag),
              {"real": [i.original_mnemonic for i in items], "model": [c["orig"] for c in m]})
            self.m.snapshot_from(las)
            return
        for i, (it, c) in enumerate(zip(items, m)):
            if c["orig"] is None:
                c["orig"] = it.original_mnemonic      # don't-care name: adopt what lasio chose
                for cc, ii in zip(m, items):
                    cc["sess"] = ii.mnemonic
            if it.original_mnemonic != c["orig"]:
                V("curve-order-or-name", "curve #%d is %r, model says %r %s" % (i, it.original_mnemonic, c["orig"], tag),
                  {"real": [x.original_mnemonic for x in items], "model": [x["orig"] for x in m]})
            if (it.unit, it.descr) != (c["unit"], c["descr"]) or canon.cval(it.value) != canon.cval(c["value"]):
                V("curve-metadata", "curve #%d metadata (%r,%r,%r), model (%r,%r,%r) %s" % (
                    i, it.unit, it.value, it.descr, c["unit"], c["value"], c["descr"], tag))
            if not canon.arrays_equal(it.data, c["data"]):
                V("curve-array", "curve #%d (%r) holds %r, model %r %s" % (i, it.original_mnemonic, _a(it.data), _a(c["data"]), tag))
            u = it.useful_mnemonic
            if not (it.mnemonic == u or (it.mnemonic.startswith(u + ":") and it.mnemonic[len(u) + 1:].isdigit())):
                V("session-name-pattern", "curve #%d original %r has session name %r" % (i, it.original_mnemonic, it.mnemonic))
        keys = las.keys()
        sess = [it.mnemonic for it in items]
        if keys != sess:
            V("keys-view", "keys() = %r, curves carry %r %s" % (keys, sess, tag))
        want_sess = [c["sess"] for c in m]
        if sess != want_sess and op and op[0] in ("delete_ix", "delete_mn") and len(sess) == len(want_sess):
            # After a deletion the statement does not say whether the remaining members of the deleted item's family keep
            # their (stale) suffixes or are renumbered: both are accepted for names that still fit ORIGINAL[:n]; the model adopts them.
            for cc, ii in zip(m, items):
                u = ii.useful_mnemonic
                if cc["sess"] != ii.mnemonic and (ii.mnemonic == u or (ii.mnemonic.startswith(u + ":") and ii.mnemonic[len(u) + 1:].isdigit())):
                    cc["sess"] = ii.mnemonic
            want_sess = [c["sess"] for c in m]
        if sess != want_sess:
            V("session-names-vs-model", "keys() = %r, the list model (names numbered :1..:n after each insertion) says %r %s" % (keys, want_sess, tag))
            for cc, ii in zip(m, items):
                cc["sess"] = ii.mnemonic
        vals = las.values()
        if len(vals) != len(items) or any(v is not it.data for v, it in zip(vals, items)):
            V("values-view", "values() is not the list of the curves' arrays " + tag)
        its = las.items()
        if len(its) != len(items) or any(k != it.mnemonic or v is not it.data for (k, v), it in zip(its, items)):
            V("items-view", "items() disagrees with the curves " + tag)
        try:
            if list(las.iterkeys()) != sess or [id(v) for v in las.itervalues()] != [id(it.data) for it in items] or \
                    [(k, id(v)) for k, v in las.iteritems()] != [(it.mnemonic, id(it.data)) for it in items]:
                V("iter-views", "iterkeys()/itervalues()/iteritems() disagree with the curves " + tag)
        except Exception as e:
            V("iter-views", "iterator views raised %r %s" % (e, tag))
        n = len(items)
        if n:
            if las.index is not items[0].data:
                V("index-view", "index is not the first curve's array " + tag)
            if len({len(c["data"]) for c in m}) == 1:
                try:
                    D = las.data
                except Exception as e:
                    V("data-view-raises", "las.data raised %r %s" % (e, tag))
                else:
                    want = np.column_stack([c["data"] for c in m])
                    if D.shape != want.shape or not np.array_equal(D, want, equal_nan=True):
                        V("data-view", "data has shape %r / differs from the model's columns (%r) %s" % (D.shape, want.shape, tag))
        for i in list(range(-n, n)) + ([np.int64(0), np.intp(n - 1), np.int32(-1)] if n else []):       # numpy integers are integer positions too
            try:
                ok = las[i] is items[i].data
            except Exception as e:
                V("int-index-raises", "las[%d] raised %r %s" % (i, e, tag))
            else:
                if not ok:
                    V("int-index", "las[%d] is not curve #%d's array %s" % (i, i % n, tag))
        fold = (lambda x: x.upper()) if self.norm else (lambda x: x)
        folded = [fold(x) for x in sess]
        for i, k in enumerate(sess):
            if folded.count(fold(k)) == 1:      # colliding session names are C13's known finding, not a list-model matter
                try:
                    ok = las[k] is items[i].data
                except Exception as e:
                    V("mnemonic-index-raises", "las[%r] raised %r %s" % (k, e, tag))
                else:
                    if not ok:
                        V("mnemonic-index", "las[%r] is not curve #%d's array %s" % (k, i, tag))
        # the partner object was not touched
        ctx.count("partner_comparisons")
        now = canon.clas(self.partner)
        if now != self.partner_snap:
            V("other-lasfile-affected", "an operation on one LASFile changed another: %s %s" % (
                canon.diff(self.partner_snap, now)[:3], tag))
            self.partner_snap = now


def _cls(ix, n):
    if ix is None:
        return "missing"
    if ix >= n:
        return "beyond"
    if ix < -n:
        return "below"
    return ix if abs(ix) <= 1 else ("mid" if ix > 0 else "negmid")


def _a(a):
    a = np.asarray(a)
    return a.tolist() if a.size <= 8 else (a[:8].tolist(), "...")


def run_case(case, ctx):
    if case["kind"] == "ext":
        pre = [OPS[i] for i in case["prefix"]]
        for op in OPS:
            run_history(ctx, pre + [op], case["start"], every_step=False)
    else:
        run_history(ctx, [tuple(o) for o in case["ops"]], case["start"], every_step=True)


def run_history(ctx, ops, start, every_step):
    ctx.current_case = {"kind": "ops", "ops": [list(o) for o in ops], "start": start}
    r = Run(ctx, start)
    sig = []
    if not ops:
        r.compare("start")
    for i, op in enumerate(ops):
        resolved, _, _ = r.step(op)
        if resolved is None:
            ctx.count("ops_not_applicable")
            sig.append(("n/a",))
            continue
        sig.append(resolved)
        if every_step or i == len(ops) - 1:
            r.compare(op)
    nt = len(ops) >= 2 and len(r.m.c) >= 2
    ctx.case_done([start, sig], nontrivial=nt)
    if nt and len(ops) >= 3:
        ctx.sample({"start": start, "ops": [list(o) for o in ops], "final_curves(original)": [c["orig"] for c in r.m.c]})
