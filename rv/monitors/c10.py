"""C10 — result is independent of input channel and encoding; reads are pure.

(a) Channels/encodings: the same LAS text (with non-ASCII header text) is supplied as path string,
    pathlib.Path, open text file, StringIO and multi-line string, stored as UTF-8 with BOM
    (autodetected) or in a codec named with encoding= (UTF-8, UTF-16 with BOM, UTF-16-LE/BE, Latin-1,
    cp1252), with LF / CRLF / CR line ends; every result must be canonically equal to the reference
    read and carry the generated non-ASCII text character for character.
(b) Purity: a history checker over random interleavings of reads with writes, header mutations,
    curve edits, deep copies, JSON exports and fresh LASFile() objects: the first observation for a
    key (content, options) is the reference for every later read with the same key; at every
    quiescent point a digest of lasio's module-level state and the snapshots of all objects the
    history did not mutate must be unchanged."""
import copy
import codecs
import io
import os
import pathlib

import numpy as np

from rv import canon
from rv.gen import lastext

ID = "C10"
LEVEL = "exploration"
RULE = ("(a) generated texts with non-ASCII header text from four repertoires (Latin-1 range, cp1252-only, Cyrillic/CJK, Unicode/C0 line-separator look-alikes) x channel "
        "{str path, Path, open text file, StringIO, multi-line string} x stored form {utf-8 BOM autodetected; utf-8, utf-16 (BOM), "
        "utf-16-le, utf-16-be, latin-1, cp1252 with explicit encoding=} x line ends {LF, CRLF, CR (files only)} x engine; (b) "
        "histories of length 5..40 over {read(text_i, options_j), write, header mutation, in-place curve edit, deepcopy, to_json, "
        "df, LASFile()} on a pool of 3-6 texts (incl. files lacking ~W/~P/~O, duplicates, wrapped, non-ASCII). distinct = "
        "distinct (repertoire, stored form, eol, channel) for (a) and distinct operation-kind trigrams + history digests for (b); "
        "non-trivial = (a) a non-reference channel read, (b) a history with >= 2 reads of one key separated by >= 1 mutation Added later: indented titles, the constructor channel, first non-ASCII character 1..3 bytes before 1024..16384-byte boundaries, data section not last, a data row with a trailing remark. Hunter round 2: codecs.open() / codecs.getreader() file objects as channels. Round 8: the file addressed through a symlinked directory and '..', as str and as Path.")
ASSUMPTIONS = [
    "chardet-based detection is environment dependent and is not part of any oracle: every file is UTF-8 with BOM, read with an explicit encoding=, or valid UTF-8 read without one (which lasio decides without the detector since fix 0f795ac)",
    "CR-only line ends are used for files only (text-mode universal newlines); strings are given LF or CRLF",
]
REQUIRED = ["channel_reads_compared", "channel_str_path", "channel_Path", "channel_file_object", "channel_StringIO", "channel_string", "channel_codecs_open_file_object", "channel_str_path_no_encoding_given", "channel_Path_through_symlink_and_dotdot",
            "channel_cases_multibyte_char_at_window_boundary", "channel_cases_variant_remark_after", "codec_utf-8-sig", "codec_utf-8", "codec_utf-16", "codec_utf-16-le", "codec_utf-16-be", "codec_latin-1", "codec_cp1252",
            "eol_CR", "eol_CRLF", "channel_cases_indented_titles", "history_reads_compared", "rereads_after_mutation", "quiescent_state_checks", "unmutated_object_checks"]
SOFT_DEADLINE = {"quick": 100, "thorough": 1500}
LEVEL_TEXT = ("Exploration: (a) full product of channels x stored forms x line ends per generated text, (b) history checking with a "
              "module-state invariant at every quiescent point.")
LEVEL_NOTE = "Trusts Python's codecs and the canonical snapshot; encodings outside the list and chardet-detected files are not covered."
TECHNIQUE = "runtime monitoring: history checker (first observation per (content, options) key is the reference) + module-state invariant at quiescent points + cross-channel equality"

REPERTOIRES = {
    "latin": ("SOCIÉTÉ PÉTROLIÈRE Ñandú", "°C", "Bohrlochgröße µ", ["utf-8-sig", "utf-8", "utf-16", "utf-16-le", "utf-16-be", "latin-1", "cp1252"]),
    "cp1252": ("Œuvre – 5 € “quoted”", "‰", "Šiauliai well", ["utf-8-sig", "utf-8", "utf-16", "utf-16-le", "utf-16-be", "cp1252"]),
    "wide": ("Скважина №7 深度", "м", "глубина 测井", ["utf-8-sig", "utf-8", "utf-16", "utf-16-le", "utf-16-be"]),
    # characters str.splitlines() treats as line boundaries although text files and StringIO do not: they are ordinary header text
    "linesep": ("Soci\x85t\u2028 NEL\x0bVT", "µ", "form\x0cfeed \u2029 PS \x1d\x1e end", ["utf-8-sig", "utf-8", "utf-16", "utf-16-le", "utf-16-be"]),
}
EOLS = {"LF": "\n", "CRLF": "\r\n", "CR": "\r"}
READ_OPTS = [{}, {"engine": "normal"}, {"mnemonic_case": "preserve"}, {"null_policy": "none"}, {"ignore_header_errors": True},
             {"null_policy": "all"}, {"read_policy": ()}, {"null_policy": "aggressive", "engine": "normal"}, {"dtypes": "auto", "mnemonic_case": "lower"}]


def make_text(rep, seed, variant=None):
    comp, unit, descr, _ = REPERTOIRES[rep]
    secs = lastext.std_header(3, extra_w=[["COMP", "", comp, "company"], ["FLD", "", "field %d" % seed, descr]], units=["M", unit, "U"],
                              params=[["BHT", unit, "35.5", descr], ["MUD", "", comp, "mud"]])
    secs.append({"kind": "O", "title": "~Other", "lines": [descr + " free text", comp]})
    rows = [["%.1f" % (100 + i), "%d.25" % (i + seed % 7), "-999.25" if i == 1 else "%d.5" % i] for i in range(4)]
    if variant in ("remark", "remark_after"):
        rows[2].append("# remark")               # only the fast engine tolerates a trailing remark: every channel must take the same route
    secs.append({"kind": "A", "title": "~ASCII", "rows": rows})
    if variant in ("after", "remark_after"):
        secs.append({"kind": "X", "title": "~Tools used", "items": [["AFT", unit, "1.5", descr]]})      # the data section is not the last one
    return lastext.render({"sections": secs}, {"sep": "  ", "lead": " "})


def pad_to_offset(text, codec, eol, target):
    first, rest = text.split("\n", 1)
    n = 10
    for _ in range(6):
        cand = first + "\n#" + "p" * n + "\n" + rest
        idx = next(i for i, ch in enumerate(cand) if ord(ch) > 127)
        b = len(cand[:idx].replace("\n", eol).encode(codec))
        if b == target:
            return cand
        per = len("p".encode(codec.replace("utf-16", "utf-16-le") if codec == "utf-16" else codec))
        n += (target - b) // per
        if n < 0:
            return text
    return cand


def grid(tier):
    k = 0
    for W in (1024, 2048, 4000, 4096, 8192):
        for back in (1, 2, 3):
            for rep, codec in (("latin", "utf-8"), ("cp1252", "utf-8"), ("wide", "utf-8"), ("wide", "utf-16"), ("latin", "utf-8-sig"), ("wide", "utf-16-le")):
                k += 1
                yield {"kind": "channels", "rep": rep, "codec": codec, "eol": ["LF", "CRLF"][k % 2], "seed": 3 * k, "straddle": W - back}
    for rep in REPERTOIRES:
        for codec in REPERTOIRES[rep][3]:
            for eol in EOLS:
                k += 1
                yield {"kind": "channels", "rep": rep, "codec": codec, "eol": eol, "seed": k}
    for variant in ("after", "remark", "remark_after"):
        for rep, codec in (("latin", "utf-8"), ("latin", "latin-1"), ("wide", "utf-16"), ("cp1252", "utf-8-sig")):
            for eol in ("LF", "CRLF"):
                k += 1
                yield {"kind": "channels", "rep": rep, "codec": codec, "eol": eol, "seed": k, "variant": variant}
    for k in range(40 if tier == "quick" else 300):
        yield {"kind": "history", "seed": k, "length": 10 + k % 30}


def n_random(tier):
    return 300 if tier == "quick" else 8000


def random_case(rng, tier):
    if rng.random() < 0.3:
        rep = rng.choice(list(REPERTOIRES))
        c = {"kind": "channels", "rep": rep, "codec": rng.choice(REPERTOIRES[rep][3]), "eol": rng.choice(list(EOLS)), "seed": rng.randrange(10 ** 6)}
        if rng.random() < 0.3:
            c["variant"] = rng.choice(["after", "remark", "remark_after"])
        if rng.random() < 0.3:
            c["straddle"] = rng.choice([512, 1000, 1024, 2048, 4000, 4096, 8000, 8192, 16384]) - rng.randint(0, 3)
        return c
    return {"kind": "history", "seed": rng.randrange(10 ** 9), "length": rng.randint(5, 40)}


def run_case(case, ctx):
    if case["kind"] == "channels":
        run_channels(case, ctx)
    else:
        run_history(case, ctx)


def run_channels(case, ctx):
    lasio = ctx.lasio
    rep, codec, eolname = case["rep"], case["codec"], case["eol"]
    text = make_text(rep, case["seed"], case.get("variant"))
    if case.get("variant"):
        ctx.count("channel_cases_variant_" + case["variant"])
    if case["seed"] % 3 == 1:
        # section titles indented by an odd number of blanks (presentation only; byte and character offsets differ in UTF-16)
        ind = " " * (1 + 2 * (case["seed"] % 2))
        text = "\n".join((ind + ln) if ln.startswith("~") else ln for ln in text.split("\n"))
        ctx.count("channel_cases_indented_titles")
    if case.get("straddle"):
        # a comment line sized so that the first non-ASCII character of the header starts at a given byte offset of the
        # stored file (just before a power-of-two / 4000-byte boundary: any fixed-size sniffing window would cut it in two)
        text = pad_to_offset(text, codec, EOLS[case["eol"]], case["straddle"])
        ctx.count("channel_cases_multibyte_char_at_window_boundary")
    comp, unit, descr, _ = REPERTOIRES[rep]
    ref = lasio.read(io.StringIO(text))
    ref_snap = canon.clas(ref)
    V = ctx.violation
    # the reference itself must carry the non-ASCII text character for character
    if ref.well["COMP"].value != comp or ref.params["BHT"].unit != unit or ref.well["FLD"].descr != descr or ref.curves[1].unit != unit:
        V("non-ascii-text-changed:StringIO", "reference read altered non-ASCII header text: %r %r %r" % (
            ref.well["COMP"].value, ref.params["BHT"].unit, ref.well["FLD"].descr))
    eol = EOLS[eolname]
    data = text.replace("\n", eol)
    os.makedirs(ctx.scratch, exist_ok=True)
    path = os.path.join(ctx.scratch, "c10-%s-%s-%s.las" % (rep, codec, eolname))
    with open(path, "wb") as f:
        f.write(data.encode(codec))
    enc_kw = {} if codec == "utf-8-sig" else {"encoding": codec}
    ctx.count("codec_" + codec)
    ctx.count("eol_" + eolname)
    # the same file addressed through a symlinked directory and '..' (for the OS: <scratch>/c10-archive/<file>; collapsed textually it
    # would be <scratch>/c10-links/<file>, where another well's file lies)
    arch = os.path.join(ctx.scratch, "c10-archive")
    os.makedirs(os.path.join(arch, "run1"), exist_ok=True)
    os.makedirs(os.path.join(ctx.scratch, "c10-links"), exist_ok=True)
    link = os.path.join(ctx.scratch, "c10-links", "current")
    if not os.path.islink(link):
        try:
            os.symlink(os.path.join(arch, "run1"), link)
        except OSError:
            pass
    twin = os.path.join(arch, os.path.basename(path))
    with open(twin, "wb") as f:
        f.write(data.encode(codec))
    with open(os.path.join(ctx.scratch, "c10-links", os.path.basename(path)), "wb") as f:
        f.write(data.replace("100.0", "555.0").encode(codec))          # a decoy: another well
    dotdot = os.path.join(link, "..", os.path.basename(path))
    channels = [("str_path", lambda: lasio.read(path, **enc_kw)),
                ("str_path_through_symlink_and_dotdot", (lambda: lasio.read(dotdot, **enc_kw)) if os.path.islink(link) else None),
                ("Path_through_symlink_and_dotdot", (lambda: lasio.read(pathlib.Path(dotdot), **enc_kw)) if os.path.islink(link) else None),
                ("str_path_bom_with_explicit_utf8", (lambda: lasio.read(path, encoding="utf-8")) if codec == "utf-8-sig" else None),
                ("Path", lambda: lasio.read(pathlib.Path(path), **enc_kw)),
                # a UTF-8 file without BOM and without encoding=: decided by lasio itself (valid UTF-8 is opened as UTF-8), not by the detector
                ("str_path_no_encoding_given", (lambda: lasio.read(path)) if codec == "utf-8" else None),
                ("LASFile_constructor", lambda: lasio.LASFile(path, **enc_kw)),
                ("str_path_second_read", lambda: lasio.read(path, **enc_kw)),
                ("file_object", None),
                # other open text files: the codecs module's readers (what lasio's documentation still names), whose tell() is the
                # byte stream's read-ahead position
                ("codecs_open_file_object", (lambda: lasio.read(codecs.open(path, "r", encoding="utf-8-sig" if codec == "utf-8-sig" else codec)))
                 if eolname != "CR" and not codec.startswith("utf-16") else None),
                ("codecs_getreader_file_object", (lambda: lasio.read(codecs.getreader(codec)(open(path, "rb"))))
                 if eolname == "LF" and codec in ("latin-1", "cp1252", "utf-8") else None),
                ("StringIO", lambda: lasio.read(io.StringIO(data if eolname != "CR" else text))),
                ("string", lambda: lasio.read(data if eolname != "CR" else text))]
    for name, thunk in channels:
        detail = {"rep": rep, "codec": codec, "eol": eolname, "channel": name}
        if thunk is None and name != "file_object":
            continue
        try:
            if name == "file_object":
                with open(path, "r", encoding="utf-8-sig" if codec == "utf-8-sig" else codec) as fo:
                    las = lasio.read(fo)
            else:
                las = thunk()
        except Exception as e:
            V("channel-read-raised:%s:%s:%s" % (name, codec, type(e).__name__), "read via %s (%s, %s) raised %r" % (name, codec, eolname, e), detail)
            continue
        ctx.count("channel_reads_compared")
        ctx.count("channel_" + name)
        snap = canon.clas(las)
        if snap != ref_snap:
            diffs = canon.diff(ref_snap, snap)
            V("channel-result-differs:%s:%s:%s" % (name, codec, eolname), "read via %s differs from the reference: %s" % (name, diffs[:3]), detail)
        ctx.case_done([rep, codec, eolname, name], nontrivial=name != "StringIO" or eolname != "LF")
    ctx.sample({"rep": rep, "codec": codec, "eol": eolname, "COMP": ref.well["COMP"].value, "file bytes head": repr(data.encode(codec)[:24])}, limit=3)
    try:
        os.unlink(path)
    except OSError:
        pass


# ---- (b) purity ---------------------------------------------------------------------------------------------------------
MINIMAL = "~A\n 1.0 10.5\n 2.0 -999.25\n 3.0 30.5\n"
NO_WELL = "~Version\nVERS. 2.0 : v\nWRAP. NO : w\n~Curves\nDEPT.M : depth\nGR.GAPI : gamma\n~ASCII\n 1.0 10.5\n 2.0 20.5\n"
DUPS = ("~Version\nVERS. 2.0 : v\nWRAP. NO : w\n~Well\nSTRT.M 1.0 : s\nSTOP.M 2.0 : s\nSTEP.M 1.0 : s\nNULL. -999.25 : n\nCOMP. ACME : c\n"
        "~Curves\nDEPT.M : depth\nRES.OHMM : a\nRES.OHMM : b\n.U : blank\n~Parameter\nBHT.DEGC 35.5 : t\nBHT.DEGF 95.9 : t\n~ASCII\n 1.0 1.5 2.5 3.5\n 2.0 -999.25 4.5 5.5\n")
WRAPPED = ("~V\nVERS. 1.2 : v\nWRAP. YES : w\n~W\nSTRT.M 1.0 : s\nSTOP.M 2.0 : s\nSTEP.M 1.0 : s\nNULL. -999.25 : n\nCOMP. COMPANY : ACME\n"
           "~C\nDEPT.M : d\nA.U : a\nB.U : b\nC.U : c\n~A\n1.0\n 10.5 20.5\n 30.5\n2.0\n 11.5 -999.25\n 31.5\n")


COMMA_DLM = ("~Version\nVERS. 2.0 : v\nWRAP. NO : w\nDLM. COMMA : d\n~Well\nSTRT.M 1.0 : s\nSTOP.M 2.0 : s\nSTEP.M 1.0 : s\nNULL. -999.25 : n\n"
             "~Curves\nDEPT.M : d\nA.U : a\nB.U : b\n~ASCII\n1.0,10.5,-999.25\n2.0,20.5,30.25\n")
TAB_DLM = COMMA_DLM.replace("COMMA", "TAB").replace(",", "\t")
DECIMAL_COMMA = ("~Version\nVERS. 2.0 : v\nWRAP. NO : w\n~Well\nSTRT.M 100,5 : s\nSTOP.M 101,5 : s\nSTEP.M 1,0 : s\nNULL. -999,25 : n\n"
                 "~Curves\nDEPT.M : d\nA.U : a\n~ASCII\n100,5  46,50\n101,5  -999,25\n")
RUNON = ("~Version\nVERS. 2.0 : v\nWRAP. NO : w\n~Well\nNULL. -999.25 : n\n~Curves\nDEPT.M : d\nA.U : a\nB.U : b\n~ASCII\n"
         "100.5 -12.5-13.5\n101.5 -14.5-15.5\n")
CUSTOM_SECTION = DUPS.replace("~Parameter", "~Tools used\nTOOL.mm 216 : bit\n~Parameter")


def module_state(lasio):
    d = lasio.las.defaults
    parts = [repr(d.ORDER_DEFINITIONS), repr(d.READ_POLICIES), repr(d.NULL_POLICIES), repr(d.DEPTH_UNITS), repr(d.HYPHEN_SUBS),
             repr([(k, [(getattr(p, "pattern", p), s) if isinstance(x, tuple) else x for x in v for (p, s) in ([x] if isinstance(x, tuple) else [(x, None)])])
                   for k, v in sorted(d.READ_SUBS.items())]),
             repr([(k, [((x[0].pattern, x[1]) if isinstance(x, tuple) else x) for x in v]) for k, v in sorted(d.NULL_SUBS.items())]),
             lasio.reader.sow_regex.pattern]
    for cls in (lasio.HeaderItem, lasio.CurveItem, lasio.SectionItems, lasio.LASFile):
        parts.append(repr(sorted((k, repr(v) if not callable(v) and not isinstance(v, (property, staticmethod, classmethod)) else "<code>")
                                 for k, v in vars(cls).items() if k != "__slotnames__")))   # copyreg caches __slotnames__ on first copy/pickle: benign
    parts.append(repr(canon.clas(lasio.LASFile())))
    return canon._short("|".join(parts), 10 ** 7)


def run_history(case, ctx):
    import random
    lasio = ctx.lasio
    rng = random.Random(case["seed"])
    pool = [MINIMAL, NO_WELL, DUPS, WRAPPED, make_text("latin", 3), make_text("wide", 5), COMMA_DLM, TAB_DLM, DECIMAL_COMMA, RUNON, CUSTOM_SECTION]
    rng.shuffle(pool)
    pool = pool[:rng.randint(3, 7)]
    refs = {}                     # (text index, options index) -> snapshot of the first observation
    objs = []                     # [las, snapshot or None (None = mutated by the history)]
    state0 = module_state(lasio)
    kinds = []
    reads_after_mut = 0
    mutated_since = {}
    V = ctx.violation
    for step in range(case["length"]):
        op = rng.choice(["read", "read", "read", "write", "mutate_header", "edit_curve", "deepcopy", "to_json", "df", "new", "set_data"])
        kinds.append(op)
        hist = {"seed": case["seed"], "step": step, "ops": kinds[-6:]}
        try:
            if op == "read" or not objs:
                ti, oi = rng.randrange(len(pool)), rng.randrange(len(READ_OPTS))
                las = lasio.read(pool[ti], **READ_OPTS[oi])
                snap = canon.clas(las)
                key = (ti, oi)
                if key in refs:
                    ctx.count("history_reads_compared")
                    if mutated_since.get(key):
                        ctx.count("rereads_after_mutation")
                        reads_after_mut += 1
                    if snap != refs[key]:
                        V("reread-differs-from-first-read", "read #2 of the same (content, options) differs after %r: %s" % (
                            kinds[-6:], canon.diff(refs[key], snap)[:3]), hist)
                else:
                    refs[key] = snap
                mutated_since[key] = False
                objs.append([las, snap])
            else:
                k = rng.randrange(len(objs))
                las = objs[k][0]
                if op in ("write", "mutate_header", "edit_curve", "set_data"):
                    objs[k][1] = None        # marked before the operation: it may fail half-way
                if op == "write":
                    las.write(io.StringIO(), version=rng.choice([1.2, 2, None]), wrap=rng.choice([True, False, None]))
                    objs[k][1] = None
                elif op == "mutate_header":
                    las.well["COMP"] = "changed %d" % step
                    las.params.append(lasio.HeaderItem("NEW%d" % step, "u", step, "added"))
                    las.version["VERS"].descr = "edited"
                    if len(las.well) > 2:
                        las.well[1].unit = "zz"
                    las.other = "edited other"
                    objs[k][1] = None
                elif op == "edit_curve":
                    if len(las.curves) and np.asarray(las.curves[0].data).dtype.kind == "f" and len(las.curves[0].data):
                        las.curves[-1].data[0] = -12345.0
                        las.curves[0].unit = "edited"
                        las.curves[0].mnemonic = "RENAMED"
                    objs[k][1] = None
                elif op == "set_data":
                    if len(las.curves) and len(las.curves[0].data):
                        las.set_data(np.arange(2.0 * len(las.curves)).reshape(2, -1) + step)
                    objs[k][1] = None
                elif op == "deepcopy":
                    cp = copy.deepcopy(las)
                    objs.append([cp, canon.clas(cp)])
                elif op == "to_json":
                    try:
                        las.to_json()
                    except Exception:
                        pass
                elif op == "df":
                    try:
                        las.df()
                    except Exception:
                        pass
                elif op == "new":
                    n = lasio.LASFile()
                    objs.append([n, canon.clas(n)])
                if op in ("write", "mutate_header", "edit_curve", "set_data"):
                    for key in mutated_since:
                        mutated_since[key] = True
        except Exception as e:
            ctx.count("history_ops_raised")
            ctx.seen("history_exceptions", "%s: %s" % (op, type(e).__name__))
        # ---- quiescent point ------------------------------------------------------------------------------------------
        ctx.count("quiescent_state_checks")
        st = module_state(lasio)
        if st != state0:
            V("module-state-changed", "module-level state of lasio changed after %r" % (kinds[-3:],), hist)
            state0 = st
        for entry in objs:
            if entry[1] is not None:
                ctx.count("unmutated_object_checks")
                now = canon.clas(entry[0])
                if now != entry[1]:
                    V("object-changed-by-unrelated-operation", "an object the history did not touch changed after %r: %s" % (
                        kinds[-3:], canon.diff(entry[1], now)[:3]), hist)
                    entry[1] = now
        if len(objs) > 14:
            del objs[:4]
    tri = {tuple(kinds[i:i + 3]) for i in range(len(kinds) - 2)}
    for t in tri:
        ctx.seen("operation_trigrams", "-".join(t))
    ctx.case_done(["history", case["seed"], case["length"]], nontrivial=reads_after_mut >= 1)
    ctx.sample({"history": kinds[:20], "pool_size": len(pool), "rereads_after_mutation": reads_after_mut}, limit=3)
