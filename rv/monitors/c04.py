"""C04 — header line grammar: parsing inverts formatting under any padding.

Ground truth by construction: a line is rendered from (mnemonic, unit, value, description) with
generated padding, and the tuple it was rendered from is registered as the expectation for that
(line, section).  An icontract.ensure post-condition installed from the harness on the real
lasio.reader.read_header_line looks the expectation up on *every* call - the direct ones made by
the harness and the ones lasio makes itself while reading a generated file - and records any
disagreement.  The items of the files read are additionally compared at the API."""
import re

from rv.gen import fields, lastext

ID = "C04"
LEVEL = "exploration"
FORMS = ["std", "ptime", "pdescr_colon", "noperiod", "numunit", "lastcolon", "digitunit"]
SECTIONS = ["Version", "Well", "Curves", "Parameter", "~Tools Used", None]
RULE = ("lines rendered from conformant (mnemonic, unit, value, description) over text classes (letters, digits, punctuation, "
        "quotes, brackets, non-ASCII; empty allowed except mnemonic; mnemonics with inner blanks; units with interior dots/"
        "colons) x six padding positions from {none, blank, many blanks, tab, mixed} x section kinds {Version, Well, Curves, "
        "Parameter, custom, None}; special forms: ~Parameter clock times HH:MM[:SS] for all 24 hours with/without dates, "
        "~Parameter descriptions with colons (separator ' : '), values with colons outside ~Parameter (last colon separates), no-period lines NAME : VALUE, 'digits blank word' units. "
        "Each line is parsed directly and, embedded in a generated file, through lasio.read (declared versions 1.2, 2.0, 2.1 and 3.0). "
        "distinct = distinct (form, field classes, padding tuple, section); non-trivial = every case (a rendered line) Added later: the same text read under the other mnemonic_case settings first, direct parses repeated after the file reads, mixed-case table mnemonics in 1.2 / 2.0 ~Well sections read with upper / lower. Hunter round 2: no-period ~Curve lines whose value holds '..' and a further colon. Round 8: through-file reads under declared versions 2.1 and 3.0.")
ASSUMPTIONS = [
    "the position between the period and the unit carries no padding (the grammar gives it meaning); a non-empty value is set off from the unit by at least one blank/tab",
    "in ~Curves no '..' precedes the description (conformance clause)",
    "through-file comparison maps values by lasio's documented conversions: numeric literals compared numerically, v1.2 ~Well value/description layout",
]
REQUIRED = ["contract_evaluations_direct", "form_std", "form_ptime", "form_pdescr_colon",
            "form_noperiod", "form_numunit", "form_lastcolon", "form_digitunit", "file_items_compared", "file_reads_preceded_by_other_case", "direct_calls_after_file_reads", "hours_seen_24"]
SOFT_DEADLINE = {"quick": 90, "thorough": 1200}
LEVEL_TEXT = ("Exploration: each rendered line's parse is checked against the tuple it was rendered from by a post-condition on "
              "the real parser (evaluated on direct and through-file calls); the generators cover the joint space of field "
              "classes, padding and section kind that selects the regular-expression cascade.")
LEVEL_NOTE = "Ground truth by construction; trusts the renderer (rv/gen/lastext.hline) and the domain guards that keep a rendered line unambiguous."
TECHNIQUE = "runtime monitoring: icontract post-condition on reader.read_header_line with registered expectations (ground truth by construction), plus API-level comparison of items read from generated files"

_ctx = None
_expect = {}          # (line, section_name) -> expected dict
_mode = ["direct"]


class Broken(Exception):
    pass


def post(line, section_name, result):
    ctx = _ctx
    if ctx is None:
        return True
    exp = _expect.get((line, section_name))
    if exp is None:
        return True
    ctx.count("contract_evaluations_" + _mode[0])
    got = {k: result.get(k) for k in ("name", "unit", "value", "descr")}
    if got != exp["fields"]:
        ctx.violation(classify(exp, got, section_name, line), "%r in section %r parsed as %r, rendered from %r" % (
            line, section_name, got, exp["fields"]), {"form": exp["form"], "line": line, "section": section_name, "mode": _mode[0]})
    return True


KF_KEY = "parse:param-unit-colon-with-time-like-separator"


def kf_param_unit_colon(exp_fields, got, line, section):
    """Known finding, by mechanism: in ~Parameter the time-colon pattern refuses a separating colon that is directly
    followed by two digits [0-5][0-9] (or mm/MM) or directly preceded by ' HH'-like text; when the unit has an interior
    colon the pattern then backtracks *into the unit* and splits it there (unit 'e:bc' -> unit 'e', rest -> descr)."""
    if section != "Parameter" or ":" not in exp_fields["unit"] or ":" in exp_fields["descr"]:
        return False
    if got.get("name") != exp_fields["name"] or got.get("value") != "":
        return False
    if not exp_fields["unit"].startswith(got.get("unit", "\0") + ":"):
        return False
    s = line.strip()
    i = s.rfind(":")
    before, after = (" " + s[:i])[-3:], s[i + 1:i + 3]
    return bool(re.match(r" [0-2][0-3]$| hh$| HH$", before)) or bool(re.match(r"[0-5][0-9]|mm|MM", after))


def classify(exp, got, section, line=""):
    if kf_param_unit_colon(exp["fields"], got, line, section):
        return KF_KEY
    wrong = [k for k in ("name", "unit", "value", "descr") if got.get(k) != exp["fields"][k]]
    sec = section if section in ("Version", "Well", "Curves", "Parameter", None) else "custom"
    return "parse:%s:%s:%s" % (exp["form"], sec, "+".join(wrong))


def setup(ctx):
    global _ctx
    import icontract
    _ctx = ctx
    reader = __import__("lasio.reader", fromlist=["x"])
    reader.read_header_line = icontract.ensure(post, error=Broken)(reader.read_header_line)


LITERALS = [
    ("REMARK : depth ref: KB", 3, {"name": "REMARK", "unit": "", "value": "depth ref: KB", "descr": ""}),
    ("RATIO:1:2", 3, {"name": "RATIO", "unit": "", "value": "1:2", "descr": ""}),   # documented examples and the witnesses of known findings (always part of the grid)
    ("r .e:bc (RT) :12-34-12-34W5M", 3, {"name": "r", "unit": "e:bc", "value": "(RT)", "descr": "12-34-12-34W5M"}),
    ("TIML.hh:mm 23:15 23-JAN-2001:   Time Logger: At Bottom", 3, {"name": "TIML", "unit": "hh:mm", "value": "23:15 23-JAN-2001", "descr": "Time Logger: At Bottom"}),
    ("HKLA            .1000 lbf                                  :(RT)", 3, {"name": "HKLA", "unit": "1000 lbf", "value": "", "descr": "(RT)"}),
    ("              HOLE DIA :85.7", 1, {"name": "HOLE DIA", "unit": "", "value": "85.7", "descr": ""}),
    ("              TIME     :14:00:32", 1, {"name": "TIME", "unit": "", "value": "14:00:32", "descr": ""}),
    (" DEPT.M                      :  1  DEPTH", 2, {"name": "DEPT", "unit": "M", "value": "", "descr": "1  DEPTH"}),
]


def grid(tier):
    import random
    k = 0
    yield {"form": "literal", "section": 0, "seed": 0, "n": 0}
    for h in range(24):
        for sec_i in (3,):
            for variant in range(4):
                k += 1
                yield {"form": "ptime", "section": sec_i, "seed": k, "hour": h, "n": 6}
    for form in FORMS:
        for sec_i in range(len(SECTIONS)):
            for rep in range(25 if tier == "quick" else 120):
                k += 1
                yield {"form": form, "section": sec_i, "seed": k, "n": 12}


def n_random(tier):
    return 8000 if tier == "quick" else 150000


def random_case(rng, tier):
    return {"form": rng.choice(FORMS + ["std", "std"]), "section": rng.randrange(len(SECTIONS)), "seed": rng.randrange(10 ** 9), "n": 12}


def protected_sep(value, p3, p4, descr):
    """Would the ~Parameter time-colon pattern refuse the separating colon?"""
    before = (" " + value + p3)[-3:]
    after = (p4 + descr)[:2]
    return bool(re.match(r" [0-2][0-3]$| hh$| HH$", before)) or bool(re.match(r"[0-5][0-9]|mm|MM", after))


def make_line(rng, form, section, hour=None):
    """Returns (line, expected fields, signature) or None when the draw left the domain."""
    F = fields
    sec = SECTIONS[section]
    in_param = sec == "Parameter"
    in_curves = sec == "Curves"
    if form in ("ptime", "pdescr_colon") and not in_param:
        form = "std"
    if form == "lastcolon" and in_param:
        form = "ptime"
    m = F.mnemonic(rng)
    if form == "noperiod":
        v = F.text(rng, colons=rng.random() < 0.4, periods=True)
        k = rng.random()
        if k < 0.2:
            v = F.clock(rng)
        elif k < 0.45:      # the value of a NAME : VALUE line is everything after the first colon, further colons included
            v = rng.choice(["depth ref: KB", "1:2", "a: b: c", "see.. remark: x", "a..b: c", "x: y..z", "14:30 23-JAN-2001 : night shift", "x :y", "ratio 1:100 (approx.)", F.text(rng, colons=False) + ": " + F.text(rng, colons=False)]).strip()
        p = [rng.choice(F.PADS) for _ in range(4)]
        line = "%s%s%s:%s%s%s" % (p[0], m, p[1], p[2], v, p[3])
        if "." in line[:line.find(":")]:
            return None
        return line, {"name": m, "unit": "", "value": v, "descr": ""}, (form, _cls(v), tuple(map(_pc, p)))
    u = F.unit(rng)
    extra = {}
    if form == "digitunit":
        # a unit of digits only: it keeps a suffix only across a SINGLE BLANK (the documented '1000 lbf' form); a tab, two blanks
        # or the separating colon itself end it
        u = "%d" % rng.choice([1, 5, 10, 25, 1000])
        v = F.text(rng, colons=False, double_dots=not in_curves) if rng.random() < 0.7 else ""
        d = F.text(rng, colons=False) if not (in_param and rng.random() < 0.4) else rng.choice(["bit size : nominal", "note: see above", "a: b"])
    elif form == "numunit":
        u = "%d %s" % (rng.choice([1, 10, 1000, 25]), rng.choice(["lbf", "psi", "kg", "m3/d", "%"]))
        v = F.text(rng, colons=False) if rng.random() < 0.6 else ""
        d = F.text(rng, colons=False)
    elif form == "ptime":
        t = F.clock(rng, hour)
        v = rng.choice([t, t, "23-JAN-2001 " + t, t + " 23-JAN-2001", "13/05/2015 " + t, t + " UTC", "hh:mm " + t])
        d = F.text(rng, colons=False)
        if rng.random() < 0.3:
            d = "Time Logger: At Bottom"
    elif form == "lastcolon":
        # outside ~Parameter the LAST colon separates value from description
        v = rng.choice([F.clock(rng), "23-JAN-2001 " + F.clock(rng), "ratio 1:2", "a: b", F.text(rng, colons=False) + ":" + F.text(rng, colons=False),
                        "x:", ":y"]).strip()
        if in_curves:
            v = v.replace("..", ".")
        d = F.text(rng, colons=False)
    elif form == "pdescr_colon":
        v = F.text(rng, colons=False)
        d = rng.choice(["Time Logger: At Bottom", "note: see above", "a: b: c", "ratio 1:2"]) if rng.random() < 0.7 else F.text(rng, colons=True) + ": x"
    else:
        v = F.text(rng, colons=False, double_dots=not in_curves)
        d = F.text(rng, colons=False)
    p = F.pads(rng, value_present=bool(v))
    if ":" in d:
        p[3] = p[3] if p[3].endswith(" ") else p[3] + " "
        p[4] = p[4] if p[4].startswith(" ") else " " + p[4]
    if form == "ptime" and ":" not in d and rng.random() < 0.25:
        # clock time + a description that starts like minutes, with or without padding after the colon
        d = rng.choice(["45 min logging", "30 samples", "05", "mm of mud", "59"])
        if rng.random() < 0.6:
            p[4] = ""
    if form == "digitunit":
        if v:
            p[2] = rng.choice(["\t", "  ", "      ", " \t  ", "\t\t", "\t "])
        else:
            p[2] = rng.choice(["", " ", "\t", "  "])
            if ":" in d:
                p[3] = " "
    line = lastext.hline((m, u, v, d), p)
    head = line[:line.rfind(":")] if ":" not in d else line[:line.find(" : ") + 1]
    if in_curves and ".." in head:
        return None
    if form == "numunit" and v and re.match(r"\s", p[2]) is None:
        return None
    if in_param and ":" in d and form != "ptime" and ":" in v:
        return None
    exp = {"name": m.strip(), "unit": u, "value": v.strip(), "descr": d.strip()}
    sig = (form, _cls(m), _cls(u), _cls(v), _cls(d), tuple(map(_pc, p)))
    return line, exp, sig, extra


def _cls(s):
    if s == "":
        return "empty"
    c = set()
    for ch in s:
        c.add("a" if ch.isalpha() and ch.isascii() else "9" if ch.isdigit() else "_" if ch in " \t" else
              "u" if not ch.isascii() else "." if ch == "." else ":" if ch == ":" else "q" if ch in "'\"" else "b" if ch in "()[]" else "p")
    return "".join(sorted(c))


def _pc(p):
    return "0" if p == "" else "b" if p == " " else "t" if p == "\t" else "B" if set(p) == {" "} else "m"


def run_case(case, ctx):
    import random
    rng = random.Random(case["seed"])
    lasio = ctx.lasio
    reader = __import__("lasio.reader", fromlist=["x"])
    sec = SECTIONS[case["section"]]
    made = []
    if case["form"] == "literal":
        for line, sec_i, exp in LITERALS:
            _expect.clear()
            _expect[(line, SECTIONS[sec_i])] = dict(fields=exp, form="literal")
            _mode[0] = "direct"
            try:
                reader.read_header_line(line, section_name=SECTIONS[sec_i])
            except Exception as e:
                ctx.violation("parse-raised:literal", "read_header_line(%r) raised %r" % (line, e))
            ctx.case_done(["literal", line], nontrivial=True)
        # ---- the table mnemonics of a LAS 1.2 ~Well section in mixed case, read with case normalisation -----------------------
        for vers in ("1.2", "2.0"):
            for mc, f in (("upper", str.upper), ("lower", str.lower)):
                names = ["Strt", "sTOP", "Step", "Null"]
                text = "~Version\nVERS. %s : v\nWRAP. NO : w\n~Well\n%s.M 1670.5 : START DEPTH\n%s.M 1680.25 : STOP DEPTH\n%s.M 0.25 : STEP\n%s. -999.25 : NULL VALUE\n~Curves\nDEPT.M : d\n~ASCII\n1670.5\n" % ((vers,) + tuple(names))
                _mode[0] = "through_file"
                try:
                    las = lasio.read(text, mnemonic_case=mc)
                except Exception as e:
                    ctx.violation("file-read-raised:mixed-case-table-mnemonics", "read raised %r" % (e,), {"text": text})
                    continue
                finally:
                    _mode[0] = "direct"
                got = [(it.original_mnemonic, it.unit, it.value, it.descr) for it in las.well]
                want = [(f(names[0]), "M", 1670.5, "START DEPTH"), (f(names[1]), "M", 1680.25, "STOP DEPTH"), (f(names[2]), "M", 0.25, "STEP"), (f(names[3]), "", -999.25, "NULL VALUE")]
                ctx.count("mixed_case_table_mnemonic_files")
                if got != want:
                    ctx.violation("file-item:mixed-case-table-mnemonic:v%s" % vers, "~Well of a %s file read with mnemonic_case=%s: %r, expected %r" % (vers, mc, got, want), {"text": text})
        return
    for _ in range(case["n"]):
        r = make_line(rng, case["form"], case["section"], case.get("hour"))
        if r is None:
            ctx.count("draws_outside_domain")
            continue
        if len(r) == 3:
            line, exp, sig = r
            extra = {}
        else:
            line, exp, sig, extra = r
        form = sig[0]
        made.append((line, exp, sig, form))
        ctx.count("form_" + form)
        if case.get("hour") is not None:
            ctx.seen("hours", "%02d" % case["hour"])
        # ---- direct call (the post-condition decides) ----------------------------------------------------------
        _expect.clear()
        _expect[(line, sec)] = dict(fields=exp, form=form, **extra)
        _mode[0] = "direct"
        try:
            reader.read_header_line(line, section_name=sec)
        except Exception as e:
            ctx.violation("parse-raised:%s:%s" % (form, sec if sec in ("Version", "Well", "Curves", "Parameter", None) else "custom"),
                          "read_header_line(%r, section_name=%r) raised %r" % (line, sec, e), {"form": form, "expected": exp})
        ctx.case_done([sig, case["section"]], nontrivial=True)
    if made:
        ctx.sample({"section": sec, "form": case["form"], "line": made[0][0], "expected": made[0][1]}, limit=6)
    # ---- the same lines inside a file, through lasio.read -------------------------------------------------------------
    if sec is None or not made:
        return
    for vers in ("2.0", "1.2", "3.0", "2.1"):      # "in every ... version": every version number lasio tabulates a layout for
        secs = lastext.std_header(0, vers=vers)
        title = {"Version": "~Version", "Well": "~Well", "Curves": "~Curves", "Parameter": "~Parameter"}.get(sec, sec)
        _expect.clear()
        lines_in = []
        for line, exp, sig, form in made:
            s = line.strip()
            if not s or s[0] in "#~":
                continue
            lines_in.append((s, exp, form))
            _expect[(s, sec)] = dict(fields=exp, form=form)
        text_lines = []
        placed = False
        for s in secs:
            text_lines.append(s["title"])
            text_lines += [lastext.hline(it) for it in s.get("items", [])]
            if s["title"] == title:
                text_lines += [l for l, _, _ in lines_in]
                placed = True
        if not placed:
            text_lines.append(title)
            text_lines += [l for l, _, _ in lines_in]
        text = "\n".join(text_lines) + "\n"
        _mode[0] = "through_file"
        try:
            # the same text is first read with the *other* mnemonic_case settings (as any program that uses lasio's
            # default does): a parse of a line must not depend on earlier parses of the same line
            lasio.read(text, mnemonic_case="upper" if vers == "2.0" else "lower")
            ctx.count("file_reads_preceded_by_other_case")
        except Exception:
            pass
        try:
            las = lasio.read(text, mnemonic_case="preserve")
        except Exception as e:
            ctx.violation("file-read-raised:%s" % (sec if sec in ("Version", "Well", "Curves", "Parameter") else "custom"),
                          "reading a file with the generated lines in %s raised %r" % (title, e), {"text": text})
            continue
        finally:
            _mode[0] = "direct"
        key = {"Version": "Version", "Well": "Well", "Curves": "Curves", "Parameter": "Parameter"}.get(sec, sec[1:])
        section = las.sections.get(key)
        if section is None or isinstance(section, str):
            ctx.violation("file-section-missing", "section %r not found after read" % key, {"text": text})
            continue
        items = list(section)[-len(lines_in):] if lines_in else []
        if len(items) != len(lines_in) or len(section) < len(lines_in):
            ctx.violation("file-item-count", "%d lines placed in %s, section has %d items" % (len(lines_in), title, len(section)), {"text": text})
            continue
        for s, exp, form in lines_in[:8]:      # and direct parses of the same (stripped) lines after the file reads
            _mode[0] = "direct"
            try:
                reader.read_header_line(s, section_name=sec)
                ctx.count("direct_calls_after_file_reads")
            except Exception as e:
                ctx.violation("parse-raised-after-file-read", "read_header_line(%r, section_name=%r) raised %r after file reads" % (s, sec, e))
        for it, (s, exp, form) in zip(items, lines_in):
            ctx.count("file_items_compared")
            ev, ed = exp["value"], exp["descr"]
            if vers == "1.2" and sec == "Well" and exp["name"] not in ("STRT", "STOP", "STEP", "NULL", "strt", "stop", "step", "null"):
                ev, ed = ed, ev
            ok_val = it.value == ev if isinstance(it.value, str) else _numeq(it.value, ev)
            if sec == "Curves":
                ok_val = it.value == ev
            if (it.original_mnemonic, it.unit, it.descr) != (exp["name"], exp["unit"], ed) or not ok_val:
                gotf = {"name": it.original_mnemonic, "unit": it.unit, "value": it.value if isinstance(it.value, str) else str(it.value), "descr": it.descr}
                key = KF_KEY if kf_param_unit_colon(exp, gotf, s, sec) else "file-item:%s:%s:v%s" % (
                    form, sec if sec in ("Version", "Well", "Curves", "Parameter") else "custom", vers)
                ctx.violation(key,
                              "line %r became item (%r, %r, %r, %r), expected (%r, %r, %r, %r)" % (
                                  s, it.original_mnemonic, it.unit, it.value, it.descr, exp["name"], exp["unit"], ev, ed), {"text": text})


def _numeq(num, text):
    try:
        return float(num) == float(text.replace(",", "."))
    except Exception:
        return False


def verdict_extra(counters, sets, tier):
    hrs = sets.get("hours", set())
    if len(hrs) < 24:
        return ["only %d of 24 hours were exercised in ~Parameter time values" % len(hrs)]
    return []


REQUIRED = [r for r in REQUIRED if r != "hours_seen_24"]
