"""C20 — every file lasio opens is closed again, whatever fails and wherever.

Fault enumeration with three independent observers of 'a handle opened during the call is still
open after it returned or raised (exception object kept alive)':
  A. the open() proxy's ledger (rv/iofault.py), with an OSError injected at the k-th low-level I/O
     operation for every k of a clean run;
  B. a scan of /proc/self/fd for descriptors pointing into the scratch directory (OS-level truth,
     independent of the proxy), used in every mode;
  C. source-free failpoints (sys.monitoring LINE events raising OSError at the n-th executed line of
     lasio's *callee* functions - reader.*, writer.*, LASFile.data ... - never inside the frames that
     own the handle, whose cleanup code must be allowed to run), with CPython's own ResourceWarning
     as a further witness.
An audit hook proves that no open() bypassed the proxy (count mismatch = inconclusive)."""
import gc
import io
import os
import pathlib
import shutil
import warnings

import numpy as np

from rv import env, iofault

ID = "C20"
LEVEL = "fault_enumeration"
RULE = ("call kinds {read(str path), read(Path), write(path), to_csv(path), write(file object), to_csv(file object)} x "
        "inputs (generated files: v2.0, v1.2, wrapped, UTF-8 BOM, Latin-1, custom section; corpus files) x read options "
        "(default, autodetect_encoding=False, explicit encoding, engine=normal) x fault: none | every k-th proxied I/O "
        "operation of the clean run (exhaustive per scenario) | every n-th executed line of lasio's callee functions "
        "(exhaustive per scenario, quick: first 400 lines) | each input-induced failure (no sections, header error, "
        "reshape error, strict decoding error, LiDAR signature, empty file, bad version=, bad fmt, missing STRT, ragged "
        "curves, bad csv kwargs ...). distinct = distinct (call kind, scenario, fault kind, k); non-trivial = a run in "
        "which the fault actually fired (or the induced exception was raised) while a handle opened by lasio existed Added later: persistent (sticky) faults including flush, text no codec can encode, argument-induced failures after the open (bad handler name, unknown codec, bad policies / engine / dtypes), structural failpoint placement.")
ASSUMPTIONS = [
    "faults are injected on read/readline/readlines/next/write/writelines/seek/tell, not on close(); a persistent fault additionally fails every later operation and flush()",
    "failpoints are placed only in callee frames (reader.*, writer.*, update_start_stop_step, LASFile.data ...), never in LASFile.read/write/to_csv, in open_with_codecs or in any function that itself calls open()/urlopen(), and never on the header line of a `with` statement or inside a `finally:` body: an exception raised between the end of a block and its __exit__/close() is not a failure lasio can be asked to survive",
    "a caller-supplied file object passed to read() may be closed by lasio (the statement speaks about write() and to_csv() only)",
]
EXHAUSTIVE = "for every scenario of the grid, every fault position k = 1..N of its clean run (proxied I/O operations); thorough: also every executed line n = 1..M of the callee functions"
REQUIRED = ["runs_with_fault_fired_while_handle_open", "ledger_checks", "fd_scans", "audit_matches", "induced_failures_raised",
            "caller_file_checks", "lasfile_handle_scans", "failpoint_runs_fired", "op_fault_runs_persistent"]
SOFT_DEADLINE = {"quick": 100, "thorough": 1500}
LEVEL_TEXT = ("Fault enumeration: for each scenario every I/O-operation fault position of the clean run is executed against "
              "the real code (exhaustive for the scenario), plus executed-line failpoints and input-induced failures; three "
              "independent observers (ledger, /proc/self/fd, ResourceWarning) decide each run.")
LEVEL_NOTE = ("Holds for the scenarios enumerated; trusts /proc/self/fd and the proxy's forwarding; failures inside close() itself "
              "and inside handle-owning frames' cleanup are outside the fault model.")
TECHNIQUE = "runtime monitoring: exhaustive k-th-I/O-operation fault injection through an open() proxy with handle ledger, /proc fd scan, audit-hook cross-check, sys.monitoring failpoints"
WORKERS = {"quick": 16, "thorough": 16}

V2 = """~Version Information
 VERS.   2.0 : CWLS LOG ASCII STANDARD -VERSION 2.0
 WRAP.   NO  : ONE LINE PER DEPTH STEP
~Well Information
 STRT.M   1670.0000 : START DEPTH
 STOP.M   1669.6250 : STOP DEPTH
 STEP.M     -0.1250 : STEP
 NULL.      -999.25 : NULL VALUE
 COMP.  ANY OIL COMPANY INC. : COMPANY
 WELL.  ANY ET AL 12-34 : WELL
~Curve Information
 DEPT.M        : 1 DEPTH
 DT  .US/M     : 2 SONIC TRANSIT TIME
 RHOB.K/M3     : 3 BULK DENSITY
~Parameter Information
 MUD .   GEL CHEM : MUD TYPE
 BHT .DEGC 35.5   : BOTTOM HOLE TEMPERATURE
~Other
 free text line
~A  DEPTH     DT    RHOB
1670.000   123.450 2550.000
1669.875   123.450 2550.000
1669.750   123.450 -999.25
1669.625   123.450 2550.000
"""
V12 = V2.replace("2.0 : CWLS LOG ASCII STANDARD -VERSION 2.0", "1.2 : CWLS LOG ASCII STANDARD -VERSION 1.2") \
    .replace(" COMP.  ANY OIL COMPANY INC. : COMPANY", " COMP.  COMPANY : ANY OIL COMPANY INC.") \
    .replace(" WELL.  ANY ET AL 12-34 : WELL", " WELL.  WELL : ANY ET AL 12-34")
WRAPPED = V2.replace("WRAP.   NO  : ONE LINE PER DEPTH STEP", "WRAP.   YES : MULTIPLE LINES") \
    .replace("1670.000   123.450 2550.000", "1670.000\n123.450 2550.000").replace("1669.875   123.450 2550.000", "1669.875\n123.450 2550.000") \
    .replace("1669.750   123.450 -999.25", "1669.750\n123.450 -999.25").replace("1669.625   123.450 2550.000", "1669.625\n123.450 2550.000")
NONASCII = V2.replace("ANY OIL COMPANY INC.", "SOCIÉTÉ PÉTROLIÈRE").replace("DEGC", "°C")
CUSTOM = V2.replace("~Other", "~Drilling Notes\n BIT .mm 216 : bit size\n~Other")

INPUTS = {
    "v2.las": V2.encode("ascii"), "v12.las": V12.encode("ascii"), "wrapped.las": WRAPPED.encode("ascii"),
    "bom.las": b"\xef\xbb\xbf" + NONASCII.encode("utf-8"), "latin1.las": NONASCII.encode("latin-1"),
    "utf8.las": NONASCII.encode("utf-8"), "custom.las": CUSTOM.encode("ascii"), "crlf.las": V2.replace("\n", "\r\n").encode("ascii"),
}
CORPUS = ["tests/examples/sample.las", "tests/examples/1.2/sample_wrapped.las", "tests/examples/2.0/sample_2.0.las",
          "tests/examples/3.0/sample_3.0.las", "tests/examples/encodings_utf8wbom.las", "tests/examples/encodings_utf16lebom.las", "tests/examples/encodings_cp1252.las", "tests/examples/data_characters.las"]
INDUCED_READ = {
    "nosections.las": (b"this is not\na LAS file\n", {}),
    "headererr.las": (V2.replace(" WELL.  ANY ET AL 12-34 : WELL", " THIS LINE HAS NO DELIMITERS AT ALL").encode(), {}),
    "reshape.las": (V2.replace("1669.750   123.450 -999.25", "1669.750   123.450").encode(), {}),
    "reshape_normal.las": (V2.replace("1669.750   123.450 -999.25", "1669.750   123.450").encode(), {"engine": "normal"}),
    "strictdecode.las": (NONASCII.encode("latin-1"), {"encoding": "utf-8", "encoding_errors": "strict"}),
    "lidar.las": (b"LASF" + b"\0" * 200, {"encoding": "latin-1"}),
    "empty.las": (b"", {}),
    "badversion.las": (V2.replace("2.0 : CWLS", "two : CWLS").replace("1670.000   123.450 2550.000", "1670.000   abc 2550.000").encode(), {}),
    # argument values that are only looked at after the file has been opened (a misspelt error handler, an unknown codec, wrong types)
    "badhandler.las": (NONASCII.encode("latin-1"), {"encoding": "utf-8", "encoding_errors": "stict"}),
    "badhandler_clean.las": (V2.encode(), {"encoding_errors": "stict"}),
    "nonehandler.las": (V2.encode(), {"encoding": "utf-8", "encoding_errors": None}),
    "badcodec.las": (V2.encode(), {"encoding": "no-such-codec"}),
    "badpolicy.las": (V2.encode(), {"null_policy": "no-such-policy"}),
    "badreadpolicy.las": (V2.encode(), {"read_policy": "no-such-policy"}),
    "badengine.las": (V2.encode(), {"engine": "no-such-engine"}),
    "baddtypes.las": (V2.encode(), {"dtypes": 5}),
    "textdata_strictfloat.las": (V2.replace("1669.875   123.450 2550.000", "1669.875   12-3.4x50 2550.000").encode(), {"dtypes": [float, float, float]}),
}
READ_OPTS = [{}, {"autodetect_encoding": False}, {"encoding": "utf-8"}, {"engine": "normal"}, {"encoding": "latin-1", "ignore_header_errors": True}]
WRITE_OPTS = [{}, {"version": 1.2, "wrap": True}, {"fmt": "%.2f", "mnemonics_header": True}]
INDUCED_WRITE = {
    "bad_version": {"version": 3}, "bad_fmt": {"fmt": "%q"}, "bad_column_fmt": {"column_fmt": {1: "%z"}},
    "bad_len_field": {"len_numeric_field": "wide"}, "bad_data_width": {"wrap": True, "data_width": 0},
    "missing_strt": {}, "unprintable_value": {}, "missing_null_with_nan": {},
    "unencodable_text": {}, "unencodable_text_in_data": {},        # an encoding error on write: text no codec can encode (lone surrogates)
}
CSV_OPTS = [{}, {"units_loc": "[]"}, {"mnemonics": False, "units": False}, {"lineterminator": "\r\n"}]
INDUCED_CSV = {"ragged_curves": {}, "unencodable_text_in_data": {}, "bad_delimiter": {"delimiter": "ab"}, "bad_mnemonics_type": {"mnemonics": [1, 2, 3], "units_loc": "()"},
               "bad_lineterminator": {"lineterminator": 5}, "bad_quoting": {"quoting": "all"}}
CALLEE_FUNCS = None
OPENERS = {"open", "urlopen"}
_CLEANUP_LINES = {}


def cleanup_lines(filename):
    """Lines at which an injected exception would not model a failing operation: the header of a `with`
    statement (sys.monitoring reports it a second time when the block is left, just before __exit__ runs)
    and the body of a `finally:` clause."""
    if filename not in _CLEANUP_LINES:
        import ast
        lines = set()
        try:
            tree = ast.parse(open(filename, encoding="utf-8").read())
            for node in ast.walk(tree):
                if isinstance(node, (ast.With, ast.AsyncWith)):
                    last = max(getattr(it.context_expr, "end_lineno", node.lineno) for it in node.items)
                    lines.update(range(node.lineno, last + 1))
                elif isinstance(node, ast.Try) and node.finalbody:
                    lines.update(range(node.finalbody[0].lineno, node.finalbody[-1].end_lineno + 1))
        except (OSError, SyntaxError):
            pass
        _CLEANUP_LINES[filename] = lines
    return _CLEANUP_LINES[filename]
CHUNK = 50


def grid(tier):
    # proxied I/O-operation faults (chunks of fault positions; a chunk beyond N is a no-op)
    for name in list(INPUTS) + CORPUS:
        for oi, opts in enumerate(READ_OPTS):
            for call in ("read_str", "read_path"):
                if call == "read_path" and oi not in (0, 1):
                    continue
                for lo in range(0, 900, CHUNK):
                    yield {"call": call, "input": name, "opts": oi, "fault": "op", "lo": lo}
    for oi in range(len(WRITE_OPTS)):
        for call in ("write", "write_obj"):
            for lo in range(0, 100, CHUNK):
                yield {"call": call, "input": "v2.las", "opts": oi, "fault": "op", "lo": lo}
    for oi in range(len(CSV_OPTS)):
        for call in ("to_csv", "to_csv_obj"):
            for lo in range(0, 100, CHUNK):
                yield {"call": call, "input": "v2.las", "opts": oi, "fault": "op", "lo": lo}
    # input-induced failures
    for name in INDUCED_READ:
        for call in ("read_str", "read_path"):
            yield {"call": call, "input": name, "fault": "induced"}
    for name in INDUCED_WRITE:
        for call in ("write", "write_obj"):
            yield {"call": call, "input": "v2.las", "induced": name, "fault": "induced"}
    for name in INDUCED_CSV:
        for call in ("to_csv", "to_csv_obj"):
            yield {"call": call, "input": "v2.las", "induced": name, "fault": "induced"}
    # executed-line failpoints in callee frames
    maxline = 400 if tier == "quick" else 6000
    for name, oi in (("v2.las", 0), ("v2.las", 3), ("wrapped.las", 0), ("latin1.las", 0), ("custom.las", 4)):
        for lo in range(0, maxline, 100):
            yield {"call": "read_str", "input": name, "opts": oi, "fault": "line", "lo": lo}
    for oi in range(len(WRITE_OPTS)):
        for lo in range(0, maxline, 100):
            yield {"call": "write", "input": "v2.las", "opts": oi, "fault": "line", "lo": lo}
    for lo in range(0, 200, 100):
        yield {"call": "to_csv", "input": "v2.las", "opts": 0, "fault": "line", "lo": lo}


def n_random(tier):
    return 0 if tier == "quick" else 400


def random_case(rng, tier):
    files = sorted(p for p in _corpus_files())
    fn = rng.choice(files)
    return {"call": rng.choice(["read_str", "read_path"]), "input": fn, "opts": rng.randrange(len(READ_OPTS)),
            "fault": "op", "lo": rng.choice([0, 50, 100, 150, 200, 300, 500]), "span": 25}


def _corpus_files():
    import glob
    return [os.path.relpath(f, env.REPO) for f in glob.glob(os.path.join(env.REPO, "tests", "examples", "**", "*.las"), recursive=True)
            if os.path.getsize(f) < 40000]


# ---- scenario set-up ----------------------------------------------------------------------------------------
def setup(ctx):
    global CALLEE_FUNCS
    d = os.path.join(ctx.scratch, "files")
    os.makedirs(d, exist_ok=True)
    ctx.filedir = d
    for name, data in INPUTS.items():
        with open(os.path.join(d, name), "wb") as f:
            f.write(data)
    for name, (data, _) in INDUCED_READ.items():
        with open(os.path.join(d, name), "wb") as f:
            f.write(data)
    names = []
    for (fn, q) in ctx.probe.by_name:
        if fn in ("reader.py", "writer.py"):
            if q.split(".")[0] in ("open_file", "open_with_codecs", "adhoc_test_encoding", "get_encoding", "check_for_path_obj"):
                continue
            if any(OPENERS & set(c.co_names) for c in ctx.probe.by_name[(fn, q)]):
                continue          # structural form of the same rule: a function that opens a file itself is not a callee frame
            names.append((fn, q))
        elif fn == "las.py" and q in ("LASFile.update_start_stop_step", "LASFile.update_units_from_index_curve", "LASFile.data",
                                      "LASFile.index", "LASFile.curves", "LASFile.well"):
            names.append((fn, q))
        elif fn == "las_items.py":
            names.append((fn, q))
    CALLEE_FUNCS = names


def input_path(ctx, name):
    p = os.path.join(ctx.filedir, os.path.basename(name))
    if not os.path.exists(p):
        shutil.copyfile(os.path.join(env.REPO, name), p)
    return p


def make_las(ctx, induced=None):
    lasio = ctx.lasio
    las = lasio.read(V2)
    if induced == "missing_strt":
        del las.well["STRT"]
    elif induced == "unprintable_value":
        class Bad:
            def __str__(self):
                raise RuntimeError("cannot print")
            __repr__ = __str__
        las.params["MUD"].value = Bad()
    elif induced == "missing_null_with_nan":
        del las.well["NULL"]
    elif induced == "unencodable_text":
        las.well["COMP"].value = "comp\udc80any"          # as read with encoding_errors="surrogateescape"
    elif induced == "unencodable_text_in_data":
        las.append_curve("LITH", np.array(["a", "b\udcff", "c"] + ["d"] * (len(las.index) - 3))[:len(las.index)])
    elif induced == "ragged_curves":
        las.curves[1].data = np.arange(7.0)
    return las


def scenario(ctx, case, ledger_factory):
    """Returns (thunk, caller_file_or_None, las_or_None, out_path)."""
    lasio = ctx.lasio
    call = case["call"]
    out = os.path.join(ctx.filedir, "out-%s.tmp" % call)
    if call in ("read_str", "read_path"):
        if case["fault"] == "induced":
            path = input_path(ctx, case["input"])
            kw = dict(INDUCED_READ[case["input"]][1])
        else:
            path = input_path(ctx, case["input"])
            kw = dict(READ_OPTS[case["opts"]])
        ref = path if call == "read_str" else pathlib.Path(path)
        las = lasio.LASFile()
        return (lambda: las.read(ref, **kw)), None, las, None
    induced = case.get("induced")
    las = make_las(ctx, induced)
    if call in ("write", "write_obj"):
        kw = dict(INDUCED_WRITE[induced]) if induced else dict(WRITE_OPTS[case["opts"]])
        if call == "write":
            return (lambda: las.write(out, **kw)), None, las, out
        real = iofault._real_builtin_open(out, "w")
        f = iofault.FileProxy(real, ledger_factory(), out, "w")
        return (lambda: las.write(f, **kw)), f, las, out
    kw = dict(INDUCED_CSV[induced]) if induced else dict(CSV_OPTS[case["opts"]])
    if call == "to_csv":
        return (lambda: las.to_csv(out, **kw)), None, las, out
    real = iofault._real_builtin_open(out, "w")
    f = iofault.FileProxy(real, ledger_factory(), out, "w")
    return (lambda: las.to_csv(f, **kw)), f, las, out


def scan_lasfile(las):
    """File-like objects reachable from the LASFile object that are still open."""
    found = []
    for k, v in list(vars(las).items()):
        for obj in ([v] if not isinstance(v, dict) else list(v.values())):
            if hasattr(obj, "closed") and (hasattr(obj, "read") or hasattr(obj, "write")):
                try:
                    if not obj.closed:
                        found.append("%s=%r" % (k, obj))
                except Exception:
                    pass
    return found


def one_run(ctx, case, fail_at=None, line_at=None, sticky=False):
    """Execute the scenario once under observation.  Returns a dict describing what was seen."""
    V = ctx.violation
    holder = {}

    def ledger_factory():
        return holder["ledger"]
    ledger = iofault.Ledger(ctx.filedir, fail_at=fail_at, sticky=sticky)
    holder["ledger"] = ledger
    thunk, caller_file, las, out = scenario(ctx, case, ledger_factory)
    base_fds = iofault.fds_into(ctx.filedir) or {}
    exc = None
    fired_line = {"n": 0, "fired": False}
    if line_at is not None:
        def fp(code, line):
            if line in cleanup_lines(code.co_filename):
                return None
            fired_line["n"] += 1
            if fired_line["n"] == line_at:
                fired_line["fired"] = True
                return OSError(5, "injected failure at executed line #%d (%s:%d)" % (line_at, code.co_qualname, line))
            return None
        ctx.probe.failpoint = fp
    elif case.get("count_lines"):
        def fp(code, line):
            if line in cleanup_lines(code.co_filename):
                return None
            fired_line["n"] += 1
            return None
        ctx.probe.failpoint = fp
    try:
        if line_at is not None or case.get("count_lines"):
            mgr = iofault.audit_only(ledger)
        else:
            mgr = iofault.active(ledger)
        with mgr:
            try:
                thunk()
            except BaseException as e:     # keep the exception (and its frames) alive while we look
                exc = e
    finally:
        ctx.probe.failpoint = None
    # ---- observers (exception object still referenced by `exc`) -----------------------------------------
    desc = {k: case.get(k) for k in ("call", "input", "opts", "induced", "fault")}
    desc.update(fail_at=fail_at, line_at=line_at, raised=type(exc).__name__ if exc is not None else None)
    handle_existed = bool(ledger.opened) or ledger.audit_opens > 0
    ctx.count("ledger_checks")
    unclosed = ledger.unclosed()
    if unclosed:
        V("handle-leak:%s:%s" % (case["call"], "on-failure" if exc is not None else "on-success"),
          "%d file(s) opened by lasio are still open after the call %s: %r" % (
              len(unclosed), "raised %r" % (exc,) if exc is not None else "returned", unclosed), desc)
    fds = iofault.fds_into(ctx.filedir)
    if fds is not None:
        ctx.count("fd_scans")
        extra = {fd: t for fd, t in fds.items() if fd not in base_fds}
        if caller_file is not None:
            pass    # the caller's descriptor was opened before base_fds was taken
        if extra and not unclosed:
            V("fd-leak:%s:%s" % (case["call"], "on-failure" if exc is not None else "on-success"),
              "descriptors %r still point into the scratch directory after the call %s" % (
                  extra, "raised %r" % (exc,) if exc is not None else "returned"), desc)
    if line_at is None and not case.get("count_lines"):
        if ledger.audit_opens == len(ledger.opened) + ledger.failed_opens:
            ctx.count("audit_matches")
        else:
            ctx.count("audit_mismatch")
            ctx.seen("audit_mismatch_cases", "%s audit=%d proxy=%d" % (desc, ledger.audit_opens, len(ledger.opened)))
    if caller_file is not None:
        ctx.count("caller_file_checks")
        if caller_file.real.closed:
            V("caller-file-closed:%s" % case["call"], "the file object supplied by the caller was closed by %s (%s)" % (
                case["call"], "call raised %r" % (exc,) if exc is not None else "call returned"), desc)
    if las is not None:
        ctx.count("lasfile_handle_scans")
        held = scan_lasfile(las)
        if held:
            V("lasfile-holds-open-handle", "after the call the LASFile object references open file objects: %s" % held, desc)
    fired = ledger.fired or fired_line["fired"] or (case["fault"] == "induced" and exc is not None)
    if fired and handle_existed:
        ctx.count("runs_with_fault_fired_while_handle_open")
    res = {"ops": ledger.ops, "lines": fired_line["n"], "exc": exc, "fired": fired, "trace": ledger.trace,
           "handle_existed": handle_existed}
    # ---- clean up, and let CPython's own leak detector speak (ResourceWarning) ------------------------------
    ledger.cleanup()
    if caller_file is not None:
        caller_file.real.close()
    if line_at is not None:
        with warnings.catch_warnings(record=True) as w:
            warnings.simplefilter("always", ResourceWarning)
            exc = None
            res["exc"] = None
            del thunk, las
            gc.collect()
        rw = [str(x.message) for x in w if issubclass(x.category, ResourceWarning) and ctx.filedir in str(x.message)]
        if rw:
            ctx.count("resource_warnings")
            if not (fds and extra):
                V("resource-warning:%s" % case["call"], "CPython reports %s" % rw[:2], desc)
    if out and os.path.exists(out):
        try:
            os.unlink(out)
        except OSError:
            pass
    return res


def run_case(case, ctx):
    fault = case["fault"]
    if fault == "induced":
        r = one_run(ctx, case)
        if r["exc"] is not None or r["fired"]:
            ctx.count("induced_failures_raised")
            ctx.seen("induced_exception_classes", "%s/%s: %s" % (case["call"], case.get("induced") or case["input"], type(r["exc"]).__name__))
        else:
            ctx.count("induced_failures_not_raised")
            ctx.seen("induced_not_raised", "%s/%s" % (case["call"], case.get("induced") or case["input"]))
        ctx.case_done([case["call"], case.get("induced") or case["input"], "induced"], nontrivial=r["exc"] is not None and r["handle_existed"])
        ctx.sample({"case": case, "raised": repr(r["exc"])[:200]}, limit=3)
        return
    if fault == "op":
        clean = one_run(ctx, case)
        if clean["exc"] is not None:
            ctx.count("clean_run_failed")
            ctx.seen("clean_run_failures", "%s %s %r" % (case["call"], case["input"], clean["exc"]))
            return
        N = clean["ops"]
        lo = case["lo"]
        if lo == 0:
            ctx.count("scenarios")
            ctx.seen("fault_points_per_scenario", "%s/%s/opts%s: %d I/O operations" % (case["call"], case["input"], case.get("opts"), N))
            ctx.case_done([case["call"], case["input"], case.get("opts"), "clean"], nontrivial=False)
            ctx.sample({"scenario": {k: case[k] for k in ("call", "input", "opts")}, "io_operations_in_clean_run": N,
                        "first_operations": clean["trace"][:25]}, limit=3)
        hi = min(N, lo + case.get("span", CHUNK))
        writing = case["call"] in ("write", "write_obj", "to_csv", "to_csv_obj")
        for k in range(lo + 1, hi + 1):
            # one-shot fault at the k-th operation; for the writers (few operations) and every 4th reader position also a
            # *persistent* device error: every later operation, flush included, fails as well (disk full, device gone)
            for sticky in ((False, True) if (writing or k % 4 == 0) else (False,)):
                r = one_run(ctx, case, fail_at=k, sticky=sticky)
                ctx.count("op_fault_runs")
                if sticky:
                    ctx.count("op_fault_runs_persistent")
                if not r["fired"]:
                    ctx.count("op_fault_not_fired")
                ctx.case_done([case["call"], case["input"], case.get("opts"), "op", k, sticky], nontrivial=r["fired"] and r["handle_existed"])
        return
    if fault == "line":
        ntr = ctx.probe.trace(CALLEE_FUNCS, lines=True)
        try:
            c2 = dict(case, count_lines=True)
            clean = one_run(ctx, c2)
            M = clean["lines"]
            lo = case["lo"]
            if lo == 0:
                ctx.seen("failpoint_lines_per_scenario", "%s/%s/opts%s: %d executed lines in %d callee functions" % (
                    case["call"], case["input"], case.get("opts"), M, ntr))
            hi = min(M, lo + 100)
            for n in range(lo + 1, hi + 1):
                r = one_run(ctx, case, line_at=n)
                ctx.count("failpoint_runs")
                if r["fired"]:
                    ctx.count("failpoint_runs_fired")
                ctx.case_done([case["call"], case["input"], case.get("opts"), "line", n], nontrivial=r["fired"] and r["handle_existed"])
        finally:
            ctx.probe.untrace()


def verdict_extra(counters, sets, tier):
    out = []
    if counters.get("audit_mismatch", 0):
        out.append("open() audit events and proxied opens disagree in %d runs: something opened a file behind the proxy" % counters["audit_mismatch"])
    return out
