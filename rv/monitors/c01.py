"""C01 — numeric curve data survives write -> read within the printed precision.

A write(StringIO, **options) event (curves, NULL, options, emitted text) is linked to read(text,
engine=e) events; the oracle compares curve count/order/mnemonics/rows and every sample: finite
samples within half a unit of the last digit of the token the format prints, NaN <-> NaN off the
index, index never nulled.  The emitted data section is tokenised by the monitor itself, which
makes 'the curve count is a multiple of the line capacity' an observed fact."""
import io
import math

import numpy as np

ID = "C01"
LEVEL = "exploration"
RULE = ("grid: curves 1..40 x rows {1,2,3} x wrap {F,T} x engine {numpy, normal} under default options (contains every "
        "multiple of the default line capacity 7), plus a capacity sweep per (fmt, len_numeric_field, spacer, data_width); "
        "random: rows 1..30, curves 1..40, samples from magnitude classes (0, 1e-300..1e300, integers, half-way cases of "
        "the printed digit, long mantissas, samples next to the NULL value, NULL-equal index samples), NaN density 0..60% off the index, options from "
        "version x wrap x fmt x column_fmt x len_numeric_field x spacer x lhs_spacer x data_width x mnemonics_header x "
        "data_section_header. distinct = distinct (curve count, row class, option tuple, value classes, engine); "
        "non-trivial = (>= 2 curves or >= 2 rows) and >= 1 finite non-integer sample Added later: a second write after in-place edits, second-generation writes of the re-read object, digit-named curves, data_width equal to the widest field (+0..3) x every lhs_spacer, the object's own WRAP item in six spellings with wrap left to write(). Hunter rounds: NULL values that are blank, text, of several words, a numpy.float32, or absent altogether; short %g / %e formats next to short-mantissa NULLs (-1000, 1e30); samples next to the largest float.")
ASSUMPTIONS = [
    "spacer contains at least one blank; data_width is at least the widest field in most cases (exactly widest field + 0..3 in the grid and a quarter of the random cases) and *below* it in the 'narrow' cases, where a field must stand alone on an over-long line",
    "no finite non-index sample is *equal* to NULL, except in the three witnesses of the known finding; samples that round onto NULL under the chosen format are generated",
    "tolerance = half a unit of the last printed digit of the token fmt % x, plus 4 ulp of slack",
]
REQUIRED = ["write_read_pairs", "samples_compared", "wrapped_pairs_multi_line", "pairs_curve_count_multiple_of_capacity",
            "engine_numpy_pairs", "engine_normal_pairs", "nan_samples_compared", "index_null_equal_samples", "cases_in_memory_dlm_not_space", "rewrites_after_inplace_edit", "cases_data_width_equals_widest_field", "second_generation_writes", "cases_digit_named_curves", "cases_wrap_left_to_the_object", "cases_wrap_argument_not_a_python_bool", "cases_data_width_below_widest_field"]
SOFT_DEADLINE = {"quick": 90, "thorough": 1500}
LEVEL_TEXT = ("Exploration of the (shape x values x writer options x engine) product space with a per-sample oracle whose "
              "tolerance is derived from the token actually printed; line capacity is observed from the emitted text.")
LEVEL_NOTE = "Round trip through the real writer and reader; trusts Python's float()/% formatting for the tolerance; options outside the listed sets are not covered."
TECHNIQUE = "runtime monitoring: write-event/read-event round-trip relation with a printed-precision oracle and an independent tokeniser of the emitted text"

FMTS = ["%.5f", "%.2f", "%.0f", "%.3e", "%.10g", "%12.4f"]


def grid(tier):
    for n in range(1, 41):
        for r in (1, 2, 3):
            for wrap in (False, True):
                for engine in ("numpy", "normal"):
                    yield {"n": n, "r": r, "opts": {"wrap": wrap}, "engine": engine, "values": "plain", "seed": n * 10 + r}
    k = 0
    for fmt in ("%.2f", "%.3e", "%12.4f"):
        for lnf in (None, -1, 14):
            for spacer in (" ", "   "):
                for dw in (40, 79, 120):
                    for n in range(2, 26):
                        k += 1
                        yield {"n": n, "r": 2, "opts": {"wrap": True, "fmt": fmt, "len_numeric_field": lnf, "spacer": spacer,
                                                          "data_width": dw}, "engine": "normal", "values": "plain", "seed": k}


    for n in (7, 8, 14, 21, 28, 35):
        for spell in ("Yes", "yes", "YES", "No", "NO", "Y"):
            k += 1
            yield {"n": n, "r": 3, "opts": {}, "engine": ["numpy", "normal"][k % 2], "values": "plain", "seed": 8 * k, "wrap_item": spell}
    for k, nullv in enumerate(("", "", " ", "N/A")):      # a NULL line without a value (or with text): NaN samples must still come back as NaN
        yield {"n": 3, "r": 4, "opts": [{}, {"wrap": True}, {"version": 1.2}, {}][k], "engine": ["numpy", "normal"][k % 2], "values": "plain", "seed": 9100 + k, "null": nullv, "nan": 0.5}
    # formats with few significant digits round from far away onto a NULL with a short mantissa (-1000, 1e30); a float32 NULL; no NULL item
    for nullv in (-1000, -100, 1e30, -1e30, -10000):
        for fmt in ("%.3g", "%.2e", "%.2g", "%.1e", "%.0e", "%g"):
            k += 1
            yield {"n": 3, "r": 12, "opts": {"fmt": fmt}, "engine": ["numpy", "normal"][k % 2], "values": "nearnull", "seed": 9200 + k, "null": nullv}
    for k2, fmt in enumerate(("%.3e", "%.10g", "%.0e", "%g", "%.5e", "%.15e")):
        yield {"n": 2, "r": 8, "opts": {"fmt": fmt}, "engine": ["numpy", "normal"][k2 % 2], "values": "dblmax", "seed": 9300 + k2}
    for k2 in range(4):
        yield {"n": 3, "r": 6, "opts": {"fmt": "%.1f"}, "engine": ["numpy", "normal"][k2 % 2], "values": "plain", "seed": 9400 + k2, "null": -999.1, "null_float32": True}
        yield {"n": 3, "r": 6, "opts": [{}, {"wrap": True}, {"version": 1.2}, {"fmt": "%.2f"}][k2], "engine": ["numpy", "normal"][k2 % 2], "values": "plain", "seed": 9500 + k2, "null": None, "null_absent": True, "nan": 0.4}
    for nullv in (-999.25, -9999.25, 0):      # witness of the known finding: a reading equal to the NULL value
        k += 1
        yield {"n": 3, "r": 3, "opts": {}, "engine": ["numpy", "normal"][k % 2], "values": "plain", "seed": 8 * k, "null": nullv, "null_equal_sample": True}
    for form in ("numpy", "int"):
        for wrap in (True, False):
            for n in (3, 8, 14, 21):
                k += 1
                yield {"n": n, "r": 3, "opts": {"wrap": wrap}, "engine": ["numpy", "normal"][k % 2], "values": "plain", "seed": 8 * k, "wrap_form": form}
    for narrow in (1, 3, 8):
        for values, fmt in (("plain", "%.5f"), ("wide", "%.5f"), ("wide", "%24.16e")):
            for n in (1, 2, 8):
                k += 1
                yield {"n": n, "r": 3, "opts": {"wrap": True, "fmt": fmt}, "engine": ["numpy", "normal"][k % 2], "values": values, "seed": k, "narrow_width": narrow}
    for tight in (0, 1, 2):
        for lhs in ("", " ", "  ", "   "):
            for values, fmt in (("plain", "%.5f"), ("wide", "%.5f"), ("wide", "%24.16e"), ("plain", "%.2f")):
                for n in (1, 3, 8):
                    k += 1
                    yield {"n": n, "r": 3, "opts": {"wrap": True, "fmt": fmt, "lhs_spacer": lhs}, "engine": ["numpy", "normal"][k % 2], "values": values,
                           "seed": k, "tight_width": tight}


def n_random(tier):
    return 2500 if tier == "quick" else 60000


def random_case(rng, tier):
    o = {}
    if rng.random() < 0.7:
        o["version"] = rng.choice([1.2, 2])
    o["wrap"] = rng.random() < 0.5
    if rng.random() < 0.7:
        o["fmt"] = rng.choice(FMTS)
    n = rng.choice([1, 2, 3, 5, 7, 8, 14, 21, 28, 35, 40]) if rng.random() < 0.5 else rng.randint(1, 40)
    if rng.random() < 0.4:
        cols = rng.sample(range(n), min(n, rng.randint(1, 3))) if rng.random() < 0.6 else [0]
        o["column_fmt"] = {str(c): rng.choice(FMTS) for c in cols}
    if rng.random() < 0.5:
        o["len_numeric_field"] = rng.choice([-1, 8, 12, 20])
    if rng.random() < 0.4:
        o["spacer"] = rng.choice([" ", "  ", "   "])
    if rng.random() < 0.4:
        o["lhs_spacer"] = rng.choice(["", " ", "  ", "   "])
    if rng.random() < 0.5:
        o["data_width"] = rng.choice([40, 79, 120, 400])
    if rng.random() < 0.25:
        o["mnemonics_header"] = True
    if rng.random() < 0.3:
        o["data_section_header"] = rng.choice(["~A", "~ASCII Log Data", "~ASCII"])
    return {"n": n, "r": rng.choice([1, 2, 3, 5, 12, 20, 21, 22, 30]), "opts": o, "engine": rng.choice(["numpy", "normal"]),
            "values": rng.choice(["plain", "wide", "wide", "halfway", "ints", "nearnull"]), "nan": rng.choice([0, 0, 0.2, 0.6]),
            "null": rng.choice([-999.25, -9999, 0, 999.25, 2147483647, -9999999.25, 99999999999, 3.4028235e+38]), "seed": rng.randrange(10 ** 9),
            "tight_width": rng.choice([None, None, None, 0, 1, 2, 3]), "wrap_item": rng.choice([None] * 8 + ["Yes", "yes", "YES", "No"]), "wrap_form": rng.choice([None] * 6 + ["numpy", "int"]), "narrow_width": rng.choice([None] * 9 + [1, 2, 5, 20])}


def fnull(null):
    """The NULL value as a float; NaN (equal to nothing) for a NULL line whose value is empty or text."""
    try:
        return float(null)
    except (TypeError, ValueError):
        return float("nan")


def make_values(case):
    import random
    rng = random.Random(case["seed"])
    n, r = case["n"], case["r"]
    kind = case["values"]
    null = case.get("null", -999.25)

    def sample():
        if kind == "plain":
            return round(rng.uniform(-1000, 3000), 4)
        if kind == "ints":
            return float(rng.randint(-5000, 5000))
        if kind == "nearnull":
            nv = fnull(null)
            return nv + rng.choice([-1, 1]) * rng.choice([1e-3, 4e-3, 0.05, 0.011, 1.0, abs(nv) * 3e-6 + 2e-3, abs(nv) * 4e-3, abs(nv) * 0.04, abs(nv) * 0.3])
        if kind == "dblmax":
            return rng.choice([1.7976931348623157e308, -1.7976931348623157e308, 1.6e308, 1.79e308, -1.75e308, 9.99e307, 1.4e308])
        if kind == "halfway":
            return rng.choice([0.000005, 1.000005, 2.5, 0.125, 1234.565, -0.005, 0.0049999, 99.9999949, 1e-7]) * rng.choice([1, -1, 10])
        c = rng.random()
        if c < 0.15:
            return 0.0
        if c < 0.3:
            return rng.uniform(-1, 1) * 10.0 ** rng.randint(-300, -5)
        if c < 0.45:
            return rng.uniform(-1, 1) * 10.0 ** rng.randint(6, 300)
        if c < 0.6:
            return float(rng.randint(-10 ** 9, 10 ** 9))
        return rng.uniform(-1e4, 1e4)
    start = rng.choice([0.0, 100.0, 1670.0, -50.0])
    step = rng.choice([0.5, 0.1524, -0.125, 1.0])
    idx = [start + i * step for i in range(r)]
    if case.get("null") is not None and not math.isnan(fnull(null)) and rng.random() < 0.3:
        idx[rng.randrange(r)] = fnull(null)
    data = [idx]
    p = case.get("nan", 0.1 if kind == "plain" else 0)
    for j in range(1, n):
        data.append([float("nan") if rng.random() < p else sample() for _ in range(r)])
    return data


def fmt_for(opts, j):
    return opts.get("column_fmt", {}).get(str(j), opts.get("fmt", "%.5f"))


def unit_of_token(tok):
    t = tok.strip().lower()
    mant, _, exp = t.partition("e")
    e = int(exp) if exp else 0
    frac = len(mant.split(".")[1]) if "." in mant else 0
    return 10.0 ** (e - frac)


def run_case(case, ctx):
    lasio = ctx.lasio
    n, r = case["n"], case["r"]
    opts = dict(case["opts"])
    null = case.get("null", -999.25)
    data = make_values(case)
    # a NULL value that is text (not a number, not blank): lasio writes it for NaN but only understands numbers when reading (known finding)
    text_null = isinstance(null, str) and null.strip() != "" and math.isnan(fnull(null))
    # ---- domain guards (the statement's 'supported combination of options') ------------------------------------
    toks = [[(fmt_for(opts, j) % x) if not math.isnan(x) else str(null) for x in col] for j, col in enumerate(data)]
    for j in range(1, n):
        for i in range(r):
            x = data[j][i]
            if not math.isnan(x):
                try:
                    if float(toks[j][i]) == fnull(null) and x == fnull(null) and not case.get("null_equal_sample"):
                        # a sample *equal* to NULL is what NULL means (known finding; its witness keeps it); samples that merely
                        # round onto NULL are kept: the writer must spell them out
                        data[j][i] = x = x + 1.0 if abs(x) < 1e15 else x * 2
                        toks[j][i] = fmt_for(opts, j) % x
                except ValueError:
                    pass
    if case.get("null_equal_sample") and n >= 2:
        data[1][0] = fnull(null)
        ctx.count("cases_with_a_sample_equal_to_null")
    width = max(len(t.strip()) if opts.get("len_numeric_field", None) == -1 else max(len(t), opts.get("len_numeric_field") or 0)
                for col in toks for t in col)
    lnf = opts.get("len_numeric_field", None)
    if lnf is None:
        width = max(width, 10, len(opts.get("fmt", "%.5f") % math.pi) + 1)
    need = width + max(len(opts.get("spacer", " ")), len(opts.get("lhs_spacer", " "))) + 1
    if opts.get("wrap") and opts.get("data_width", 79) < need:
        opts["data_width"] = need
    if opts.get("wrap") and case.get("narrow_width"):
        # a line narrower than one field ("float64 samples over the whole magnitude range": 1e80 prints 87 characters with %.5f):
        # the field then stands alone on an over-long line, it is never cut
        opts["data_width"] = max(4, width - case["narrow_width"])
        ctx.count("cases_data_width_below_widest_field")
    elif opts.get("wrap") and case.get("tight_width") is not None:
        # the narrowest supported line: exactly as wide as the widest field (+0, +1, +2) - the field then stands on a line of its own
        opts["data_width"] = width + case["tight_width"]
        ctx.count("cases_data_width_equals_widest_field" if case["tight_width"] == 0 else "cases_data_width_just_above_widest_field")
    kw = dict(opts)
    if "column_fmt" in kw:
        kw["column_fmt"] = {int(k): v for k, v in kw["column_fmt"].items()}
    las = lasio.LASFile()
    las.well["NULL"].value = null
    if case.get("null_float32"):
        # a NULL taken from a float32 array: the header states str(value) = -999.1, float(value) is -999.0999755859375
        las.well["NULL"].value = np.float32(null)
        data[1][0] = float(str(np.float32(null))) - 0.04     # a real reading that rounds (%.1f) onto the text the header states for NULL
        data[2][1] = float(str(np.float32(null))) + 0.04
        ctx.count("cases_with_float32_null")
    if case.get("null_absent"):
        del las.well["NULL"]       # a LASFile without a NULL item (a file read without that line): NaN still has to be spelled somehow
        ctx.count("cases_without_null_item")
    names = ["DEPT"] + ["C%d" % j for j in range(1, n)]
    if case.get("seed", 0) % 5 == 4 and n >= 3:
        # curves named by bare numbers that are positions of *other* curves (array channels, DataFrame integer labels)
        names = ["DEPT"] + [str((j + 1) % n) for j in range(1, n)]
        ctx.count("cases_digit_named_curves")
    for j in range(n):
        las.append_curve(names[j], np.array(data[j], dtype=float), unit="m" if j == 0 else "u")
    if case.get("wrap_form") and "wrap" in kw:
        # the same choice in another argument form: a numpy bool (what a comparison of arrays yields) or 0 / 1
        kw["wrap"] = {"numpy": np.bool_(kw["wrap"]), "int": int(kw["wrap"])}[case["wrap_form"]]
        ctx.count("cases_wrap_argument_not_a_python_bool")
    if case.get("wrap_item"):
        # the object's own WRAP item in some spelling, and write() left to decide (wrap=None)
        las.version["WRAP"].value = case["wrap_item"]
        kw.pop("wrap", None)
        opts.pop("wrap", None)
        ctx.count("cases_wrap_left_to_the_object")
    if case.get("seed", 0) % 4 == 1:
        las.version["DLM"].value = ["COMMA", "TAB"][case.get("seed", 0) % 8 == 1]
        ctx.count("cases_in_memory_dlm_not_space")
    if kw.get("wrap") is True and case.get("seed", 0) % 3 == 0:
        # wrap=None: the in-memory WRAP item decides
        del kw["wrap"]
        las.version["WRAP"].value = "YES"
    buf = io.StringIO()
    try:
        las.write(buf, **kw)
    except Exception as e:
        ctx.violation("write-raised:%s" % type(e).__name__, "write(%r) raised %r" % (kw, e))
        return
    text = buf.getvalue()
    # ---- observe the emitted data section ---------------------------------------------------------------------------------
    lines = text.splitlines()
    a0 = max(i for i, ln in enumerate(lines) if ln.startswith("~A"))
    phys = [ln.split() for ln in lines[a0 + 1:] if ln.strip()]
    per_line = sorted({len(p) for p in phys})
    total = sum(len(p) for p in phys)
    wrapped_multi = bool(opts.get("wrap")) and len(phys) > r
    cap = max(per_line) if per_line else 0
    if total != n * r:
        ctx.violation("emitted-token-count", "data section carries %d tokens for %d curves x %d rows" % (total, n, r),
                      {"text": text, "opts": opts})
    try:
        las2 = lasio.read(text, engine=case["engine"])
    except Exception as e:
        ctx.violation("reread-raised:%s:%s" % (type(e).__name__, "wrapped" if opts.get("wrap") else "unwrapped"),
                      "read(engine=%s) of lasio's own output raised %r" % (case["engine"], e), {"text": text, "opts": opts})
        return
    ctx.count("write_read_pairs")
    ctx.count("engine_%s_pairs" % case["engine"])
    if wrapped_multi:
        ctx.count("wrapped_pairs_multi_line")
        if cap and n % cap == 0 and n > cap:
            ctx.count("pairs_curve_count_multiple_of_capacity")
    tag = "wrapped" if opts.get("wrap") else "unwrapped"
    detail = {"text": text if len(text) < 6000 else text[:6000], "opts": opts, "engine": case["engine"], "tokens_per_physical_line": per_line}
    keys = [c.original_mnemonic for c in list.__iter__(las2.curves)]
    if len(keys) != n:
        ctx.violation("curve-count-changed:" + tag, "%d curves written, %d read back (tokens per line %r)" % (n, len(keys), per_line), detail)
        return
    if keys != names:
        ctx.violation("curve-order-or-mnemonics-changed:" + tag, "mnemonics %r -> %r" % (names[:8], keys[:8]), detail)
    finite_nonint = 0
    curves2 = [c for c in list.__iter__(las2.curves)]      # by position: lasio's own integer lookup tries mnemonics first
    for j in range(n):
        got = np.asarray(curves2[j].data)
        if got.shape != (r,):
            ctx.violation("row-count-changed:" + tag, "curve #%d has %r samples, %d written" % (j, got.shape, r), detail)
            return
        if got.dtype.kind != "f":
            ctx.violation("text-null-marker:column-read-as-text" if text_null and any(math.isnan(x) for x in data[j]) else "numeric-curve-read-as-text:" + tag,
                          "curve #%d came back with dtype %s" % (j, got.dtype), detail)
            continue
        for i in range(r):
            x, y = data[j][i], float(got[i])
            ctx.count("samples_compared")
            if math.isnan(x):
                ctx.count("nan_samples_compared")
                if not math.isnan(y):
                    ctx.violation("nan-not-restored:" + tag, "curve #%d row %d was NaN, read back %r" % (j, i, y), detail)
                continue
            if j == 0 and x == fnull(null):
                ctx.count("index_null_equal_samples")
            if math.isnan(y):
                ctx.violation("index-sample-nulled" if j == 0 else "finite-sample-equal-to-null-became-nan" if x == fnull(null) else "finite-sample-became-nan:" + tag,
                              "curve #%d row %d was %r (token %r), read back NaN" % (j, i, x, toks[j][i]), detail)
                continue
            tok = fmt_for(opts, j) % x
            tol = 0.5 * unit_of_token(tok) * (1 + 1e-9) + 4 * abs(math.ulp(x)) if math.isfinite(x) else 0
            if x != int(x):
                finite_nonint += 1
            if not abs(y - x) <= tol:
                ctx.violation("sample-outside-printed-precision:" + tag, "curve #%d row %d: %r written as %r, read back %r (tolerance %g)" % (
                    j, i, x, tok, y, tol), detail)
    # ---- second generation: the object just read (its arrays may be views into one block) written with the same options -----
    if case.get("seed", 0) % 4 == 3:
        ctx.count("second_generation_writes")
        b2 = io.StringIO()
        try:
            las2.write(b2, **kw)
        except Exception as e:
            ctx.violation("second-generation-write-raised:%s" % type(e).__name__, "writing the re-read object raised %r" % (e,), detail)
        else:
            l2 = b2.getvalue().splitlines()
            a2 = max(i for i, ln in enumerate(l2) if ln.startswith("~A"))
            t1 = [t for p_ in phys for t in p_]
            t2 = [t for ln in l2[a2 + 1:] for t in ln.split()]
            if t1 != t2:
                k = next((i for i, (a, b) in enumerate(zip(t1, t2)) if a != b), min(len(t1), len(t2)))
                ctx.violation("text-null-marker:second-generation-tokens-differ" if text_null else "second-generation-data-tokens-differ:" + tag, "re-writing the object read back gives %d data tokens (first difference at #%d: %r vs %r), the first write gave %d" % (
                    len(t2), k, t1[k:k + 1], t2[k:k + 1], len(t1)), dict(detail, second_text=b2.getvalue()[:4000]))
    # ---- a second write after in-place edits of the samples must carry the edited samples --------------------------
    if case.get("seed", 0) % 3 == 2 and n >= 2:
        ctx.count("rewrites_after_inplace_edit")
        edits = []
        for j in range(1, n):
            i = (case["seed"] + j) % r
            newv = round(123.456 + j + i / 7.0, 3)
            if float(fmt_for(opts, j) % newv) == fnull(null):
                newv += 1.0
            las.curves[j].data[i] = newv
            edits.append((j, i, newv))
        buf2 = io.StringIO()
        kw2 = dict(kw)
        if kw2.get("wrap") and "data_width" in kw2:
            # the edited samples may print wider than the first table's widest field: keep data_width >= widest field (domain guard)
            widest_new = max(len(fmt_for(opts, j) % newv) for j, i, newv in edits)
            kw2["data_width"] = max(kw2["data_width"], widest_new, opts.get("len_numeric_field") or 0)
        try:
            las.write(buf2, **kw2)
            las3 = lasio.read(buf2.getvalue(), engine=case["engine"])
        except Exception as e:
            ctx.violation("rewrite-after-edit-raised:%s" % type(e).__name__, "second write/read after in-place edits raised %r" % (e,), detail)
        else:
            for j, i, newv in edits:
                c3 = [c for c in list.__iter__(las3.curves)]
                if len(c3) != n or len(c3[j].data) != r:
                    ctx.violation("rewrite-after-edit-shape", "shape changed on the second write", detail)
                    break
                y = float(c3[j].data[i])
                tok = fmt_for(opts, j) % newv
                tol = 0.5 * unit_of_token(tok) * (1 + 1e-9) + 4 * abs(math.ulp(newv))
                if not abs(y - newv) <= tol:
                    ctx.violation("stale-samples-on-second-write", "curve #%d row %d was edited in place to %r after the first write; the second write/read gives %r" % (j, i, newv, y), detail)
                    break
    sig = [n, "r1" if r == 1 else "r2-3" if r <= 3 else "r>3", sorted((k, str(v)) for k, v in opts.items()), case["values"],
           case.get("nan", 0), case["engine"]]
    ctx.case_done(sig, nontrivial=(n >= 2 or r >= 2) and finite_nonint >= 1)
    if wrapped_multi and n >= 8:
        ctx.sample({"curves": n, "rows": r, "opts": opts, "engine": case["engine"], "tokens_per_physical_line": per_line,
                    "first data lines": lines[a0:a0 + 4]}, limit=4)
