"""C15 — section lookup by key, attribute, membership and get() always agree.

Every reachable section state (exhaustive operation histories up to a length bound over a small
name alphabet, with and without case normalisation, plus the sections of the example corpus) is
probed through the real accessors; each observed result is compared with a plain-list reference
evaluated on the same state (the items as seen through list.__getitem__)."""
import glob
import os

import numpy as np

from rv import env
from rv.gen import secops

ID = "C15"
LEVEL = "exploration"
RULE = ("cases = operation histories over {append(n), insert(0,n), del first, del last} with "
        "n in {A,a,B,'',1,A:1}, exhaustively up to length 3 (quick) / 4 (thorough), x case "
        "normalisation {on, off}; each distinct reached state is probed with every present "
        "session mnemonic, case variants, absent keys, all ints in [-n-1, n] and slices through "
        "__contains__/__getitem__/__getattr__/get/__delitem__/__setitem__/__setattr__. "
        "distinct = distinct (state, normalisation); non-trivial = state with >= 2 items Added later: curve samples in the snapshots, underscore-leading and other name shapes, letters whose upper / lower foldings disagree, numpy-integer and bool positions, slice deletion.")
ASSUMPTIONS = [
    "the reference reads each item's session mnemonic through list.__getitem__ (C13 decides whether those names are right)",
    "probe keys that are attributes of the list type itself (append, index, ...) are outside the domain of attribute access",
]
EXHAUSTIVE = {"quick": "all operation histories up to length 3 over the 14-operation alphabet",
              "thorough": "all operation histories up to length 4 over the 14-operation alphabet"}
REQUIRED = ["probes_contains", "probes_getitem", "probes_getattr", "probes_get", "probes_get_add",
            "probes_delitem", "probes_setvalue", "probes_int", "probes_slice",
            "states_with_duplicates", "states_norm_on", "probes_get_default_kinds", "probes_int_numpy_or_bool", "probes_slice_delete", "states_of_text_curves"]
SOFT_DEADLINE = {"quick": 90, "thorough": 1200}

NAMES = ["A", "a", "B", "", "1", "A:1", "_A"]      # "_A": a legal mnemonic that looks like a private attribute; "A:1" collides with a generated suffix: the only way to reach duplicate session names
OPS = [("append", n) for n in NAMES] + [("insert", "first", n) for n in NAMES] + \
      [("del_idx", "first"), ("del_idx", "last")]
EXTRA_KEYS = ["A", "a", "B", "b", "", "1", "UNKNOWN", "unknown", "A:1", "a:1", "A:2", "Z", "UNKNOWN:1", "_A", "_a", "__A", "_Z"]
RANDOM_NAMES = ["_A", "__x__", "_", "A B", "É", "é", "x-1", "A.1", "Ünit", "DEPT", "very_long_mnemonic_name_0123456789", "2A", "a b",
                "Straße", "STRASSE", "sıcaklık", "SICAKLIK", "\u212a", "K", "k", "ǅ", "ǆ"]      # letters whose upper() and lower() foldings disagree
FOLD_KEYS = ["Straße", "STRASSE", "strasse", "sıcaklık", "SICAKLIK", "sicaklik", "\u212a", "K", "k", "ǅ", "ǆ", "Ǆ"]


def grid(tier):
    L = 3 if tier == "quick" else 4
    for seq in secops.sequences(OPS, L):
        for norm in (False, True):
            yield {"kind": "ops", "ops": seq, "norm": norm}
    for ops in ([["append", "A"]], [["append", "A"], ["append", "B"]], [["append", "A"], ["append", "A"], ["append", ""]]):
        for norm in (False, True):
            yield {"kind": "ops", "ops": ops, "norm": norm, "curves": "text"}
    for names in (["Straße", "B"], ["STRASSE", "sıcaklık"], ["\u212a", "A"], ["K", "ǅ"], ["SICAKLIK", "Straße", "k"]):
        for norm in (False, True):
            yield {"kind": "ops", "ops": [["append", n] for n in names], "norm": norm}
    files = sorted(glob.glob(os.path.join(env.REPO, "tests", "examples", "**", "*.las"),
                             recursive=True))
    for fn in files:
        for mc in ("preserve", "upper"):
            yield {"kind": "corpus", "file": os.path.relpath(fn, env.REPO), "mnemonic_case": mc}


def n_random(tier):
    return 600 if tier == "quick" else 20000


def random_case(rng, tier):
    if rng.random() < 0.3:
        return {"kind": "ops", "ops": [list(rng.choice(OPS)) for _ in range(rng.randint(1, 5))], "norm": rng.random() < 0.5, "curves": True}
    L = rng.randint(4, 9)
    allops = OPS + [("insert", "mid", n) for n in NAMES] + [("del_key", "mid"), ("replace", "first", "A"),
                                                            ("replace", "last", "a"), ("pop", "mid")] + \
        [("append", n) for n in RANDOM_NAMES] + [("insert", "first", n) for n in RANDOM_NAMES]
    return {"kind": "ops", "ops": [list(rng.choice(allops)) for _ in range(L)],
            "norm": rng.random() < 0.5}


# ---- reference -------------------------------------------------------------------------------
def ref_match(a, b, norm):
    if norm:
        try:
            return a.upper() == b.upper()
        except AttributeError:
            return False
    return a == b


def ref_find(items, key, norm):
    for i, it in enumerate(items):
        if ref_match(it.mnemonic, key, norm):
            return i
    return None


def _data(it):
    d = getattr(it, "data", None)
    return None if d is None else repr(getattr(d, "tolist", lambda: d)())


def snap(items):
    return [(id(it), it.mnemonic, it.original_mnemonic, it.unit, repr(it.value), it.descr, _data(it))
            for it in items]


def snap_nosession(items):
    return [(id(it), it.original_mnemonic, it.unit, repr(it.value), it.descr, _data(it)) for it in items]


_seen_states = set()


def run_case(case, ctx):
    lasio = ctx.lasio
    if case["kind"] == "corpus":
        try:
            las = lasio.read(os.path.join(env.REPO, case["file"]),
                             mnemonic_case=case["mnemonic_case"], ignore_data=True)
        except Exception:
            ctx.count("corpus_unreadable")
            return
        ctx.count("corpus_files")
        for name, sec in las.sections.items():
            if isinstance(sec, str):
                continue
            norm = bool(sec.mnemonic_transforms)
            origs = [it for it in secops.raw_items(sec)]

            def rebuild(origs=origs, norm=norm):
                s = lasio.SectionItems()
                if norm:
                    s.mnemonic_transforms = True
                for it in origs:
                    new = type(it)(it.original_mnemonic, it.unit, it.value, it.descr)
                    s.append(new)
                return s
            probe_state(ctx, rebuild, norm, ("corpus", case["file"], name))
        ctx.case_done(("corpus", case["file"], case["mnemonic_case"]), True)
        return
    ops = [tuple(o) for o in case["ops"]]
    norm = case["norm"]

    curves = case.get("curves", False)
    factory = (lambda name: lasio.CurveItem(name, "u", "v", "d", data=[1.0, 2.0])) if curves else None
    if curves == "text":
        # curves whose samples are text (time stamps, labels): get() derives its default item from the first curve
        factory = lambda name: lasio.CurveItem(name, "u", "v", "d", data=np.array(["08:00", "08:01"]))
        ctx.count("states_of_text_curves")

    def rebuild():
        return secops.build(lasio, ops, norm, factory)
    sec = rebuild()
    sig = (tuple(secops.state_sig(sec)), norm, curves)
    if curves:
        ctx.count("states_of_curve_items")
    if sig in _seen_states:
        ctx.count("histories_reaching_already_probed_state")
        ctx.evaluations += 1
        return
    _seen_states.add(sig)
    probe_state(ctx, rebuild, norm, None)
    ctx.case_done([list(map(list, sig[0])), norm], nontrivial=len(sig[0]) >= 2)
    if len(sig[0]) >= 2:
        ctx.sample({"ops": case["ops"], "norm": norm, "state(original,session)": sig[0]})


def probe_state(ctx, rebuild, norm, tag):
    lasio = ctx.lasio
    V = ctx.violation
    sec = rebuild()
    items = secops.raw_items(sec)
    n = len(items)
    sessions = [it.mnemonic for it in items]
    if len(set(i.useful_mnemonic.upper() if norm else i.useful_mnemonic for i in items)) < n:
        ctx.count("states_with_duplicates")
    if norm:
        ctx.count("states_norm_on")
    pick = sessions if n <= 10 else sessions[:3] + sessions[n // 2:n // 2 + 2] + sessions[-3:]
    keys = list(dict.fromkeys(pick + [s.lower() for s in pick] + [s.upper() for s in pick]
                              + EXTRA_KEYS + (FOLD_KEYS if any(ord(ch) > 127 or ch in "Kk" for s in sessions for ch in s) else [])))
    int_range = list(range(-n - 1, n + 1)) if n <= 10 else [-n - 1, -n, -n + 1, -1, 0, 1, n // 2, n - 1, n]
    before = snap(items)
    for k in keys:
        exp = ref_find(items, k, norm)
        # membership
        ctx.count("probes_contains")
        try:
            got_in = k in sec
        except Exception as e:
            V("contains-raises", "%r in section raised %r" % (k, e), {"state": sessions, "norm": norm})
            got_in = None
        if got_in is not None and bool(got_in) != (exp is not None):
            V("contains-vs-model", "(%r in s) = %r but first matching item index = %r" % (k, got_in, exp),
              {"state": sessions, "norm": norm})
        # item access
        ctx.count("probes_getitem")
        try:
            got = sec[k]
            ok = True
        except KeyError:
            got, ok = None, False
        except Exception as e:
            V("getitem-wrong-exception", "s[%r] raised %s instead of KeyError" % (k, type(e).__name__),
              {"state": sessions, "norm": norm})
            got, ok = None, False
        if ok != (exp is not None):
            V("getitem-vs-model", "s[%r] %s but model index = %r" % (k, "succeeded" if ok else "raised KeyError", exp),
              {"state": sessions, "norm": norm})
        elif ok and got is not items[exp]:
            V("getitem-not-first-match", "s[%r] returned item %r, model says position %d (%r)" % (
                k, getattr(got, "mnemonic", got), exp, sessions[exp]), {"state": sessions, "norm": norm})
        if got_in is not None and bool(got_in) != ok:
            V("contains-vs-getitem", "(%r in s) = %r but s[%r] %s" % (k, got_in, k, "succeeds" if ok else "fails"),
              {"state": sessions, "norm": norm})
        # attribute access (keys that are real attributes of the class are outside the domain)
        if not hasattr(lasio.SectionItems, k) if k.isidentifier() else True:
            ctx.count("probes_getattr")
            try:
                ga = getattr(sec, k)
                gok = True
            except AttributeError:
                ga, gok = None, False
            except Exception as e:
                V("getattr-wrong-exception", "getattr(s, %r) raised %s" % (k, type(e).__name__),
                  {"state": sessions, "norm": norm})
                ga, gok = None, False
            if exp is not None and (not gok or ga is not items[exp]):
                V("getattr-vs-getitem", "getattr(s, %r) %s, s[%r] is item #%d" % (
                    k, "returned another object" if gok else "raised AttributeError", k, exp),
                  {"state": sessions, "norm": norm})
            if exp is None and gok:
                V("getattr-absent-key-succeeds", "getattr(s, %r) returned %r for an absent key" % (k, ga),
                  {"state": sessions, "norm": norm})
        # get() without add
        ctx.count("probes_get")
        try:
            g = sec.get(k)
        except Exception as e:
            V("get-raises", "s.get(%r) raised %r" % (k, e), {"state": sessions, "norm": norm})
            g = None
        else:
            if exp is not None and g is not items[exp]:
                V("get-vs-getitem", "s.get(%r) is not s[%r]" % (k, k), {"state": sessions, "norm": norm})
            if exp is None:
                if any(g is it for it in secops.raw_items(sec)):
                    V("get-without-add-appended", "s.get(%r) put its default into the section" % k,
                      {"state": sessions, "norm": norm})
                elif getattr(g, "original_mnemonic", None) != k:
                    V("get-default-wrong-mnemonic", "s.get(%r) returned item named %r" % (
                        k, getattr(g, "original_mnemonic", None)), {"state": sessions, "norm": norm})
        now = snap(secops.raw_items(sec))
        if now != before:
            V("readonly-probe-changed-section", "read-only probes with key %r changed the section: %r -> %r" % (
                k, before, now), {"state": sessions, "norm": norm})
            before = now
    # ---- get() with HeaderItem / CurveItem / text defaults never changes the section without add=True -----------
    for dflt in ("text default", lasio.HeaderItem("DF", "du", 7, "dd"), lasio.CurveItem("DC", "cu", "", "cd", data=[1.0])):
        ctx.count("probes_get_default_kinds")
        try:
            g = sec.get("NO_SUCH_KEY_%d" % n, dflt)
        except Exception as e:
            V("get-raises", "s.get(absent, default=%s) raised %r" % (type(dflt).__name__, e), {"state": sessions, "norm": norm})
            continue
        if any(g is it for it in secops.raw_items(sec)) or snap(secops.raw_items(sec)) != before:
            V("get-without-add-appended", "s.get(absent, default=%s) changed the section" % type(dflt).__name__, {"state": sessions, "norm": norm})
        if getattr(g, "original_mnemonic", None) != "NO_SUCH_KEY_%d" % n:
            V("get-default-wrong-mnemonic", "s.get(absent, default=%s) returned item named %r" % (type(dflt).__name__, getattr(g, "original_mnemonic", None)),
              {"state": sessions, "norm": norm})
        s8 = rebuild()
        b8 = snap_nosession(secops.raw_items(s8))
        try:
            g8 = s8.get("NO_SUCH_KEY_%d" % n, dflt, add=True)
        except Exception as e:
            V("get-add-raises", "s.get(absent, default=%s, add=True) raised %r" % (type(dflt).__name__, e), {"state": sessions, "norm": norm})
            continue
        a8 = secops.raw_items(s8)
        if len(a8) != len(b8) + 1 or snap_nosession(a8)[:-1] != b8 or a8[-1] is not g8:
            V("get-add-not-exactly-one", "s.get(absent, default=%s, add=True): %d -> %d items" % (type(dflt).__name__, len(b8), len(a8)),
              {"state": sessions, "norm": norm})
    # ---- integer keys and slices ------------------------------------------------------------
    for i0 in int_range + [np.int64(x) for x in int_range[:4]] + [np.intp(int_range[-1]), np.int32(int_range[0]), True, False]:
        i = i0                   # "integer keys ... exactly as in a list": a list takes anything with __index__ (numpy integers, bool)
        ctx.count("probes_int")
        if type(i0) is not int:
            ctx.count("probes_int_numpy_or_bool")
        try:
            exp_it, exp_ok = items[i], True
        except IndexError:
            exp_it, exp_ok = None, False
        try:
            got, ok = sec[i], True
        except IndexError:
            got, ok = None, False
        except Exception as e:
            V("int-index-wrong-exception", "s[%d] raised %s" % (i, type(e).__name__), {"state": sessions})
            continue
        if ok != exp_ok or (ok and got is not exp_it):
            V("int-index-vs-list", "s[%d] disagrees with list indexing (n=%d)" % (i, n), {"state": sessions})
    for sl in (slice(None), slice(0, 1), slice(1, None), slice(None, -1), slice(None, None, 2),
               slice(None, None, -1), slice(1, 3), slice(5, 9)):
        ctx.count("probes_slice")
        try:
            got = sec[sl]
        except Exception as e:
            V("slice-raises", "s[%r] raised %r" % (sl, e), {"state": sessions})
            continue
        if [id(x) for x in list.__iter__(got)] != [id(x) for x in items[sl]]:
            V("slice-vs-list", "s[%r] differs from list slicing" % (sl,), {"state": sessions})
    if snap(secops.raw_items(sec)) != before:
        V("readonly-probe-changed-section", "int/slice probes changed the section", {"state": sessions})

    # ---- mutating probes, each on a freshly rebuilt copy of the state -------------------------------
    for k in keys:
        # deletion by key
        s2 = rebuild()
        it2 = secops.raw_items(s2)
        exp = ref_find(it2, k, norm)
        ctx.count("probes_delitem")
        try:
            del s2[k]
            ok = True
        except KeyError:
            ok = False
        except Exception as e:
            V("delitem-wrong-exception", "del s[%r] raised %s instead of KeyError" % (k, type(e).__name__),
              {"state": sessions, "norm": norm})
            continue
        after = secops.raw_items(s2)
        if exp is None:
            if ok or [id(x) for x in after] != [id(x) for x in it2]:
                V("delitem-absent-key", "del s[%r] on an absent key %s" % (
                    k, "succeeded" if ok else "changed the section"), {"state": sessions, "norm": norm})
        else:
            want = it2[:exp] + it2[exp + 1:]
            if not ok or [id(x) for x in after] != [id(x) for x in want]:
                V("delitem-wrong-item", "del s[%r] should remove exactly item #%d; left %r" % (
                    k, exp, [x.mnemonic for x in after]), {"state": sessions, "norm": norm})
        # plain-value assignment by key
        s3 = rebuild()
        it3 = secops.raw_items(s3)
        exp = ref_find(it3, k, norm)
        b3 = snap(it3)
        ctx.count("probes_setvalue")
        try:
            s3[k] = 4242
            ok = True
        except KeyError:
            ok = False
        except Exception as e:
            V("setvalue-wrong-exception", "s[%r] = value raised %s" % (k, type(e).__name__),
              {"state": sessions, "norm": norm})
            continue
        a3 = snap(secops.raw_items(s3))
        if exp is None:
            if ok or a3 != b3:
                V("setvalue-absent-key", "s[%r] = value on an absent key %s" % (
                    k, "succeeded" if ok else "changed the section"), {"state": sessions, "norm": norm})
        else:
            want = list(b3)
            w = list(want[exp]); w[4] = repr(4242); want[exp] = tuple(w)
            if not ok or a3 != want:
                V("setvalue-touched-other", "s[%r] = 4242 should change only the value of item #%d: %r -> %r" % (
                    k, exp, b3, a3), {"state": sessions, "norm": norm})
        # attribute assignment on a present key behaves like item assignment
        if exp is not None and (not k.isidentifier() or not hasattr(lasio.SectionItems, k)):
            s4 = rebuild()
            b4 = snap(secops.raw_items(s4))
            ctx.count("probes_setattr")
            try:
                setattr(s4, k, 4242)
            except Exception as e:
                V("setattr-raises", "setattr(s, %r, value) raised %r" % (k, e), {"state": sessions, "norm": norm})
            else:
                want = list(b4)
                w = list(want[exp]); w[4] = repr(4242); want[exp] = tuple(w)
                if snap(secops.raw_items(s4)) != want:
                    V("setattr-touched-other", "setattr(s, %r, 4242) should change only item #%d" % (k, exp),
                      {"state": sessions, "norm": norm})
        # get(add=True)
        s5 = rebuild()
        it5 = secops.raw_items(s5)
        exp = ref_find(it5, k, norm)
        b5 = snap_nosession(it5)
        ctx.count("probes_get_add")
        try:
            g = s5.get(k, add=True)
        except Exception as e:
            V("get-add-raises", "s.get(%r, add=True) raised %r" % (k, e), {"state": sessions, "norm": norm})
            continue
        a5items = secops.raw_items(s5)
        a5 = snap_nosession(a5items)
        if exp is None:
            if len(a5) != len(b5) + 1 or a5[:-1] != b5 or a5items[-1] is not g or g.original_mnemonic != k:
                V("get-add-not-exactly-one", "s.get(%r, add=True) on an absent key: %d -> %d items, returned item %s" % (
                    k, len(b5), len(a5), "is last" if a5items and a5items[-1] is g else "is NOT the last item"),
                  {"state": sessions, "norm": norm})
        else:
            if g is not it5[exp]:
                V("get-add-vs-getitem", "s.get(%r, add=True) on a present key is not s[%r]" % (k, k),
                  {"state": sessions, "norm": norm})
            if a5[:len(b5)] != b5 or len(a5) > len(b5) + 1:
                V("get-add-damaged-section", "s.get(%r, add=True) on a present key changed existing items" % k,
                  {"state": sessions, "norm": norm})
    for sl in (slice(None), slice(1, None), slice(None, -1), slice(0, 1), slice(None, None, 2), slice(5, 9)):
        # "slices address positions exactly as in a list", deletion included
        s9 = rebuild()
        ref = list(secops.raw_items(s9))
        del ref[sl]
        ctx.count("probes_slice_delete")
        try:
            del s9[sl]
        except Exception as e:
            V("slice-delete-raises", "del s[%r] raised %s" % (sl, type(e).__name__), {"state": sessions})
            continue
        if [id(x) for x in secops.raw_items(s9)] != [id(x) for x in ref]:
            V("slice-delete-vs-list", "del s[%r] disagrees with list deletion (n=%d)" % (sl, n), {"state": sessions})
    for i in int_range:
        s6 = rebuild()
        it6 = secops.raw_items(s6)
        ctx.count("probes_int")
        ref = list(it6)
        try:
            del ref[i]
            exp_ok = True
        except IndexError:
            exp_ok = False
        try:
            del s6[i]
            ok = True
        except IndexError:
            ok = False
        except Exception as e:
            V("int-delete-wrong-exception", "del s[%d] raised %s" % (i, type(e).__name__), {"state": sessions})
            continue
        if ok != exp_ok or [id(x) for x in secops.raw_items(s6)] != [id(x) for x in ref]:
            V("int-delete-vs-list", "del s[%d] disagrees with list deletion (n=%d)" % (i, n), {"state": sessions})
        if 0 <= (i if i >= 0 else n + i) < n:
            s7 = rebuild()
            b7 = snap(secops.raw_items(s7))
            try:
                s7[i] = 4242
            except Exception as e:
                V("int-setvalue-raises", "s[%d] = value raised %r" % (i, e), {"state": sessions})
                continue
            want = list(b7)
            j = i if i >= 0 else n + i
            w = list(want[j]); w[4] = repr(4242); want[j] = tuple(w)
            if snap(secops.raw_items(s7)) != want:
                V("int-setvalue-touched-other", "s[%d] = 4242 should change only the value of item #%d" % (i, j),
                  {"state": sessions})

LEVEL_TEXT = ("Every section state reachable by operation histories up to the length bound (exhaustive) is probed "
              "through all eight accessors and compared with a plain-list reference on the same state; this is "
              "bounded-exhaustive exploration of (state, key), not a proof for longer histories.")
LEVEL_NOTE = ("Trusts list.__getitem__/__len__ of the built-in list and the HeaderItem attribute reads used by the "
              "reference; histories longer than the bound and names outside the alphabet are only sampled.")
TECHNIQUE = "runtime monitoring: reference-model (plain list) oracle on every accessor call over bounded-exhaustive operation histories"
