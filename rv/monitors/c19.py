"""C19 — ignore_header_errors makes header parsing tolerant and non-interfering.

Fault enumeration over junk lines: every string up to length 3 over an adversarial alphabet, the
documented examples, random printable ASCII and very long lines are inserted at every kind of
position of ~V, ~W, ~P and custom sections of generated and corpus files.  With the flag: read()
must not raise, the genuine items (identified by content and order against the junk-free read) and
the curve data must be untouched.  Without the flag: the only exception allowed is LASHeaderError
naming the offending line."""
import glob
import itertools
import os
import re

import numpy as np

from rv import canon, env
from rv.gen import lastext

ID = "C19"
LEVEL = "fault_enumeration"
ALPHA = ". : \" ' - = [ ( ) ] \\ a 1 %".split(" ") + [" "]
DOCUMENTED = ['"# Surface Coords: 1,000\' FNL & 2,000\' FWL"', "this line has no delimiters at all", "LATI      DEG", ".", ":", ". :", "..", "::",
              "a.", ".a", "a:", ":a", "a b c", "-----", "=====", "[", "(", "\\", "\"", "'", "a.b.c.d : e : f : g", "1000 lbf", "UWI . : :",
              "%MyComment line", "A.M 12:30:15 : t", "-999.25", "1670.0 123.45 2550.0", "STRT", "strt.m", "   .   :   ", "\t.\t:\t",
              "DEPT.M : 1 DEPTH : extra : colons", "JOBID . 184467440737095516160 : JOB TICKET", "X.  -99999999999999999999 : y", "BIG. 1e400 : z",
              "SMALL. -1e-400 : z", "N. nan : n", "I. -inf : i", "H. 0x1F : h", "U. 1_000 : u", "V. 9223372036854775808 : just too big", "W. 1,5e400 : w",
              "E. 1e : e", "P. +.e5 : p", "L.M " + "9" * 400 + " : long integer", "K.K 1.7976931348623157e309 : k", "Z : 99999999999999999999999", " PCT%.  50 : cutoff", "100% : all done", "%.%: %", "a%sb.u 1 : x", "%d : 5", "X.() 1 : y", ".[]", "what.[()] is : this", "Q.(( 5 : q", "R.)( : r", "S.[] : s", "*", "?", "$", "{", "}", "a\\b", "a]", "a)", "é.ü : ñ", "a.1 : x", "0", "0.", ".0"]
STEER_RE = re.compile(r"vers|wrap|dlm|null", re.I)
RULE = ("junk lines: all %d strings of length <= 3 over the alphabet {. : \" ' - = [ ( ) ] \\ a 1 %% blank} (exhaustive), %d documented/"
        "adversarial examples, random printable ASCII up to 200 characters, 5 000-character lines; excluded: lines starting "
        "with '~' and lines containing VERS/WRAP/DLM/NULL; sites: first/middle/last line position of every ~V, ~W, ~P and "
        "custom section (never ~C); counts 1..5 per file; bases: generated tagged files (v1.2 and v2.0) and readable corpus "
        "files; each (base, junk set) is read with and without ignore_header_errors. distinct = distinct (junk line, section "
        "kind, position class, base kind); non-trivial = junk that is not blank/comment Added later: every parsable junk line inserted 2-3 times, '%%' in the alphabet, floods of 6..300 junk lines in one section. Hunter rounds: the same junk in files read by path (UTF-8 with non-ASCII genuine text, junk that looks like escape sequences or charset declarations, floods that push the first non-ASCII byte beyond the sampled bytes), stored as UTF-8, UTF-16 without BOM and cp1252. Round 8: junk whose mnemonic only begins like a steering mnemonic (NULLS, DLMT, VERSION) in bases that lack or double that steering line; the junk filter excludes only lines that NAME a steering mnemonic."
        % (sum(15 ** n for n in (1, 2, 3)), len(DOCUMENTED)))
ASSUMPTIONS = [
    "a junk line that happens to parse becomes an additional item; genuine items must then still appear, unchanged and in order, as a subsequence",
    "session mnemonics of genuine items may receive a duplicate suffix when a junk line parses to the same name (original mnemonics may not change)",
    "files read by path are compared with the same file without the junk, read by path as well; UTF-8 / ASCII files are decoded without the optional detector, 8-bit files depend on it (open finding, chardet 7.6 installed here)",
]
EXHAUSTIVE = "all junk strings of length <= 3 over the 15-character alphabet, each in a ~V, ~W, ~P and custom section"
REQUIRED = ["reads_with_flag", "reads_without_flag", "without_flag_header_errors", "genuine_items_checked",
            "data_comparisons", "plans_with_repeated_junk_line", "plans_with_many_junk_lines_in_one_section", "reads_of_files_by_path", "section_V", "section_W", "section_P", "section_X"]
SOFT_DEADLINE = {"quick": 90, "thorough": 1500}
LEVEL_TEXT = ("Fault enumeration: the short junk-line space is enumerated completely at every section kind; longer lines are "
              "sampled; each faulty file is compared with its junk-free base (conservation of genuine items and data).")
LEVEL_NOTE = "Holds for the junk lines and sites enumerated; the junk-free read of the same file is the reference for 'genuine item'."
TECHNIQUE = "runtime monitoring: junk-line fault enumeration with a conservation checker against the fault-free read and an exception-class monitor"

_skipped = [0]


def setup(ctx):
    # count how often the tolerant branch was actually taken (logger.warning in parse_header_items_section)
    import logging
    reader = __import__("lasio.reader", fromlist=["x"])
    real = reader.logger.warning

    def warn(msg, *a, **k):
        if isinstance(msg, str) and msg.startswith("Line "):
            _skipped[0] += 1
        return real(msg, *a, **k)
    try:
        reader.logger.warning = warn
    except Exception:
        pass


def base_text(vers, seed):
    import random
    rng = random.Random(seed)
    secs = lastext.std_header(3, vers=vers, extra_w=[["COMP", "", "ACME OIL tagw1", "company"] if vers == "2.0" else ["COMP", "", "company", "ACME OIL tagw1"],
                                                     ["UWI", "", "100123456 tagw2", "uwi"] if vers == "2.0" else ["UWI", "", "uwi", "100123456 tagw2"]],
                              params=[["BHT", "DEGC", "35.5", "temperature tagp1"], ["MUD", "", "GEL CHEM", "mud type tagp2"],
                                      ["TIME", "", "14:00:32", "clock tagp3"]])
    secs.append({"kind": "X", "title": "~Tools used", "items": [["TOOLA", "mm", "216", "tool tagx1"], ["TOOLB", "", "sonde", "tool tagx2"]]})
    secs.append({"kind": "O", "title": "~Other", "lines": ["free text line"]})
    secs.append({"kind": "A", "title": "~ASCII", "rows": [["%d.5" % (100 + i), "%d.25" % (i + 1), "-999.25" if i == 1 else "%d.125" % (i + 7)] for i in range(4)]})
    return lastext.render({"sections": secs}, {"sep": " ", "lead": " "})


def short_strings():
    for n in (1, 2, 3):
        for tup in itertools.product(ALPHA, repeat=n):
            yield "".join(tup)


def usable(j):
    s = j.strip()
    return not s.startswith("~") and not names_steering_mnemonic(j) and "\n" not in j and "\r" not in j


def names_steering_mnemonic(j):
    """Does the line NAME one of VERS, WRAP, DLM, NULL (its mnemonic field, in any case)?  'NULLS.', 'DLMT.' and 'VERSION.' do not."""
    name = re.split(r"[.:]", j, maxsplit=1)[0].strip().upper()
    return name in ("VERS", "WRAP", "DLM", "NULL") or bool(re.fullmatch(r"(VERS|WRAP|DLM|NULL):\d+", name))


def grid(tier):
    batch = []
    k = 0
    for j in itertools.chain(DOCUMENTED, short_strings()):
        if not usable(j):
            continue
        batch.append(j)
        if len(batch) == 4:
            k += 1
            yield {"base": "gen", "vers": "2.0" if k % 3 else "1.2", "junk": batch, "seed": k, "each_section": True}
            batch = []
    if batch:
        yield {"base": "gen", "vers": "2.0", "junk": batch, "seed": 0, "each_section": True}
    for n, ch in ((5000, "x"), (5000, ":"), (5000, "."), (5000, " a"), (5000, ".:"), (3000, "a.b :")):
        yield {"base": "gen", "vers": "2.0", "junk": [(ch * n)[:n]], "seed": n, "each_section": True}
    # files read by path: junk that looks like another encoding's escape sequences, and enough ASCII junk to push the first
    # non-ASCII byte of the file out of any sniffing window
    for jk, junk in enumerate((["FOO. ~{ab~} : junk"], ["zz ~{ab~} zz"], ["FOO. +AOkA6Q- : x"], ["BAR. =?utf-8?b?w6k=?= : y"], ["plain junk"])):
        yield {"base": "gen", "vers": "2.0", "junk": junk, "seed": 6000 + jk, "each_section": True, "via_path": True, "nonascii": True}
    for n in (60, 130):
        yield {"base": "gen", "vers": "2.0", "junk": ["ascii junk line %s" % ("y" * 40)], "seed": 6100 + n, "each_section": True, "flood": n, "via_path": True, "nonascii": True}
    # junk whose mnemonic only BEGINS like a steering mnemonic, in bases that lack that steering line (or state it twice): it must not steer
    for jk, (junk, drop, dup, kw) in enumerate(((["NULLS. 2.25 : junk"], ["NULL"], None, {}), (["NULLX.M 3.25 : junk", "XNULL. 4.25 : junk"], ["NULL"], None, {}),
                                                (["DLMT. COMMA : junk"], [], None, {"engine": "normal"}), (["DLM2. TAB : junk"], [], None, {"engine": "normal"}),
                                                (["VERSION. 1.2 : junk"], ["VERS"], None, {}), (["VERSION. 1.2 : junk"], [], "VERS", {}), (["WRAPS. NO : junk", "WRAPPED. NO : junk"], ["WRAP"], None, {}),
                                                (["NULLS. 2.25 : junk"], [], "NULL", {}))):
        for vers in ("2.0", "1.2"):
            yield {"base": "gen", "vers": vers, "junk": junk, "seed": 6500 + jk, "each_section": True, "drop": drop, "dup": dup, "read_kw": kw}
    # the same for files stored in other encodings without a BOM (readable by path on their own): UTF-16 (every ASCII character
    # carries a NUL byte) and an 8-bit code page
    for codec in ("utf-16-be", "utf-16-le", "cp1252"):
        for n in (1, 30, 60):
            yield {"base": "gen", "vers": "2.0", "junk": ["x" * 79], "seed": 6200 + n, "each_section": True, "flood": n, "via_path": True, "nonascii": True, "file_codec": codec}
        yield {"base": "gen", "vers": "2.0", "junk": ["y" * 2100], "seed": 6300, "each_section": True, "via_path": True, "nonascii": True, "file_codec": codec}
        yield {"base": "gen", "vers": "2.0", "junk": ["plain junk"], "seed": 6301, "each_section": True, "via_path": True, "nonascii": False, "file_codec": codec}
    for jk, junk in enumerate((["abc ~{AB~} ghi"], ["<meta charset=cp500>"], ['x <meta charset="utf-16le"> y'], ['<meta charset="shift_jis">'])):
        yield {"base": "gen", "vers": "2.0", "junk": junk, "seed": 6400 + jk, "each_section": True, "via_path": True, "nonascii": True, "file_codec": "cp1252"}
    for n in (6, 19, 20, 21, 22, 33, 64, 65, 129, 300):
        for jk, junk in enumerate((["no separator here", "junk", "!!!", "(x)"], ["X.Y 1 : z"], ["a.b : c", "plain words", "Q : r", "..", "k .u 5 : d"])):
            if jk and n > 40:
                continue          # every parsable junk line becomes an item and renumbers its whole family: keep those floods small
            yield {"base": "gen", "vers": "2.0" if (n + jk) % 2 else "1.2", "junk": junk, "seed": n + jk, "each_section": True, "flood": n}
    files = sorted(glob.glob(os.path.join(env.REPO, "tests", "examples", "**", "*.las"), recursive=True))
    for i, fn in enumerate(files):
        if os.path.getsize(fn) > 60000:
            continue
        yield {"base": os.path.relpath(fn, env.REPO), "junk": [DOCUMENTED[i % len(DOCUMENTED)], DOCUMENTED[(i * 7 + 3) % len(DOCUMENTED)]],
               "seed": i, "each_section": False}


def n_random(tier):
    return 800 if tier == "quick" else 20000


def random_case(rng, tier):
    junk = []
    for _ in range(rng.randint(1, 5)):
        c = rng.random()
        if c < 0.5:
            s = "".join(chr(rng.randint(32, 126)) for _ in range(rng.randint(1, 200)))
        elif c < 0.8:
            s = "".join(rng.choice(ALPHA + list("ab12")) for _ in range(rng.randint(4, 12)))
        else:
            s = rng.choice(DOCUMENTED)
        if usable(s):
            junk.append(s)
    if not junk:
        junk = ["???"]
    if rng.random() < 0.3:
        files = sorted(glob.glob(os.path.join(env.REPO, "tests", "examples", "*.las")))
        fn = rng.choice(files)
        if os.path.getsize(fn) < 60000:
            return {"base": os.path.relpath(fn, env.REPO), "junk": junk, "seed": rng.randrange(10 ** 9), "each_section": False}
    c = {"base": "gen", "vers": rng.choice(["1.2", "2.0"]), "junk": junk, "seed": rng.randrange(10 ** 9), "each_section": False}
    if rng.random() < 0.2:
        # by path, with non-ASCII genuine text: lasio's encoding detection sits between the junk and the parser
        c.update(via_path=True, nonascii=rng.random() < 0.7)
        if rng.random() < 0.5:
            c["junk"] = c["junk"] + [rng.choice(["~{", "~}", "+AOk-", "=?", "\x1b$B"[1:], "&#233;", "%C3%A9", "\\u00e9"]).join(
                rng.choice(["FOO. ", "zz ", "A.B 1 : ", "q"]) for _ in range(rng.randint(2, 4)))]
    if rng.random() < 0.1:
        c.update(each_section=True, flood=rng.choice([7, 20, 21, 25, 50, 100, 128, 129, 256, 257, 500]))
        if any("." in j or ":" in j for j in junk):
            c["flood"] = min(c["flood"], 30)
    return c


def sections_of(lines):
    """[(kind letter, title, first content index, end index exclusive)] for header-item sections other than ~C."""
    idx = [i for i, ln in enumerate(lines) if ln.strip().startswith("~")]
    out = []
    for n, i in enumerate(idx):
        title = lines[i].strip()
        end = idx[n + 1] if n + 1 < len(idx) else len(lines)
        letter = title[1:2].upper()
        if letter in ("C", "O", "A") or "_" in title or not title[1:2].isalpha():
            continue
        out.append(("V" if letter == "V" else "W" if letter == "W" else "P" if letter == "P" else "X", title, i + 1, end))
    return out


def snapshot(las):
    items = {}
    for name, sec in las.sections.items():
        if isinstance(sec, str):
            items[name] = sec
        else:
            items[name] = [(it.original_mnemonic, it.unit, canon.cval(it.value), it.descr) for it in sec]
    return items, [canon.carray(c.data) for c in las.curves]


def _ascii_skeleton(x):
    if isinstance(x, str):
        return "".join(ch if ord(ch) < 128 else "?" for ch in x)
    if isinstance(x, tuple):
        return tuple(_ascii_skeleton(v) for v in x)
    return x


def _as_ascii_reader_sees(x):
    if isinstance(x, str):
        return x.encode("utf-8").decode("ascii", "replace")
    if isinstance(x, tuple):
        return tuple(_as_ascii_reader_sees(v) for v in x)
    return x


def subsequence(genuine, observed):
    i = 0
    for o in observed:
        if i < len(genuine) and o == genuine[i]:
            i += 1
    return i == len(genuine)


def run_case(case, ctx):
    import random
    lasio = ctx.lasio
    rng = random.Random(case["seed"])
    if case["base"] == "gen":
        text = base_text(case["vers"], case["seed"] % 5)
        if case.get("nonascii"):
            text = text.replace("ACME OIL", "SOCIÉTÉ ÅSGÅRD").replace("DEGC", "°C")
        if case.get("drop") or case.get("dup"):
            out = []
            for ln in text.split("\n"):
                name = ln.split(".")[0].strip().upper()
                if name in (case.get("drop") or []):
                    continue
                out.append(ln)
                if name == case.get("dup"):
                    out.append(ln)
            text = "\n".join(out)
            ctx.count("bases_lacking_or_doubling_a_steering_line")
    else:
        try:
            with open(os.path.join(env.REPO, case["base"]), encoding="utf-8") as f:
                text = f.read()
        except Exception:
            ctx.count("corpus_not_utf8")
            return
    mc = ["preserve", "upper", "lower"][case["seed"] % 3]
    try:
        if case.get("via_path"):
            # the junk-free base travels the same channel as the faulty file
            os.makedirs(ctx.scratch, exist_ok=True)
            bpath = os.path.join(ctx.scratch, "c19-base-%d.las" % (case["seed"] % 100000))
            with open(bpath, "w", encoding=case.get("file_codec", "utf-8"), newline="\n") as fh:
                fh.write(text)
            base = lasio.read(bpath, mnemonic_case=mc, **case.get("read_kw", {}))
        else:
            base = lasio.read(text, mnemonic_case=mc, **case.get("read_kw", {}))
    except Exception:
        ctx.count("base_unreadable")
        return
    base_items, base_data = snapshot(base)
    lines = text.split("\n")
    secs = sections_of(lines)
    if not secs:
        return
    plans = []
    if case.get("flood"):
        # "forall counts": many junk lines in ONE section (around and beyond any small per-section threshold)
        for (kind, title, lo, hi) in secs:
            plan = []
            for i in range(case["flood"]):
                j = case["junk"][i % len(case["junk"])]
                p2 = rng.randint(lo, hi)
                plan.append((j, kind, title, p2, "first" if p2 == lo else "last" if p2 == hi else "middle"))
            plans.append(plan)
            ctx.count("plans_with_many_junk_lines_in_one_section")
    elif case["each_section"]:
        for j in case["junk"]:
            for (kind, title, lo, hi) in secs:
                pos = rng.choice(sorted({lo, (lo + hi) // 2, hi}))
                plan = [(j, kind, title, pos, "first" if pos == lo else "last" if pos == hi else "middle")]
                if ("." in j or ":" in j) and len(j) < 400:
                    # "forall counts": the same line again (and a third time) elsewhere in the same section
                    for _ in range(rng.choice([1, 1, 2])):
                        p2 = rng.randint(lo, hi)
                        plan.append((j, kind, title, p2, "first" if p2 == lo else "last" if p2 == hi else "middle"))
                    ctx.count("plans_with_repeated_junk_line")
                plans.append(plan)
    else:
        plan = []
        for j in case["junk"]:
            kind, title, lo, hi = rng.choice(secs)
            pos = rng.randint(lo, hi)
            plan.append((j, kind, title, pos, "first" if pos == lo else "last" if pos == hi else "middle"))
        plans.append(plan)
    for plan in plans:
        new = list(lines)
        for j, kind, title, pos, pcl in sorted(plan, key=lambda x: -x[3]):
            new.insert(pos, j)
        jtext = "\n".join(new)
        for j, kind, title, pos, pcl in plan:
            ctx.count("section_" + kind)
        trivial = all(j.strip() == "" or j.strip().startswith("#") for j, *_ in plan)
        detail = {"junk": [(j if len(j) < 300 else j[:300] + "...[%d chars]" % len(j), kind, title, pcl) for j, kind, title, pos, pcl in plan],
                  "base": case["base"], "vers": case.get("vers")}
        # ---- with the flag ----------------------------------------------------------------------------------------
        ctx.count("reads_with_flag")
        _skipped[0] = 0
        source = jtext
        eight_bit_by_path = bool(case.get("via_path")) and case.get("file_codec") in ("cp1252", "latin-1") and any(ord(ch) > 127 for ch in jtext)
        first_na = None
        if case.get("via_path"):
            # the same text as a UTF-8 file read by name: the default channel, with lasio's own encoding detection in the way
            os.makedirs(ctx.scratch, exist_ok=True)
            source = os.path.join(ctx.scratch, "c19-%d.las" % (case["seed"] % 100000))
            with open(source, "w", encoding=case.get("file_codec", "utf-8"), newline="\n") as fh:
                fh.write(jtext)
            ctx.count("reads_of_files_by_path")
            if case.get("file_codec"):
                ctx.count("reads_of_files_by_path_stored_as_" + case["file_codec"])
            first_na = next((k for k, b in enumerate(jtext.encode("utf-8")) if b > 127), None)
            if first_na is not None and first_na >= 4000:
                ctx.count("path_reads_with_first_nonascii_byte_beyond_4000")
        try:
            las = lasio.read(source, ignore_header_errors=True, mnemonic_case=mc, **case.get("read_kw", {}))
        except Exception as e:
            mech = "flag-set-read-raised:%s:%s" % (type(e).__name__, "+".join(sorted({k for _, k, *_ in plan})))
            if eight_bit_by_path and isinstance(e, KeyError) and "No ~ sections" in str(e):
                # an 8-bit file has to be guessed by the detector, and a junk line that looks like an escape sequence or a charset
                # declaration decides the guess (known finding)
                mech = "path-read-8bit-file-junk-misleads-the-encoding-detector:no-sections"
            ctx.violation(mech, "read(ignore_header_errors=True) raised %r" % (e,), detail)
            las = None
        if _skipped[0]:
            ctx.count("flag_reads_that_skipped_a_line")
        if las is not None:
            items, data = snapshot(las)
            for name, gen in base_items.items():
                obs = items.get(name)
                if isinstance(gen, str):
                    if obs != gen:
                        ctx.violation("other-text-changed", "junk in a header-item section changed section %r" % name, detail)
                    continue
                ctx.count("genuine_items_checked", len(gen))
                if obs is None or isinstance(obs, str) or not subsequence(gen, obs):
                    missing = [g for g in gen if obs is None or isinstance(obs, str) or g not in obs]
                    mech = "genuine-item-changed-or-dropped" if missing else "genuine-items-reordered"
                    if eight_bit_by_path and isinstance(obs, list) and subsequence([_ascii_skeleton(g) for g in gen], [_ascii_skeleton(o) for o in obs]):
                        # every genuine item is there, in order, and differs only in its non-ASCII characters: the detector guessed
                        # another 8-bit code page for the file with the junk than for the file without
                        mech = "path-read-8bit-file-junk-misleads-the-encoding-detector:other-code-page"
                    if (case.get("via_path") and first_na is not None and first_na >= 4000 and isinstance(obs, list)
                            and subsequence([_as_ascii_reader_sees(g) for g in gen], obs)):
                        # every genuine item is there, in order, and differs only by U+FFFD where the file has non-ASCII
                        # bytes: the junk pushed the first of them out of the 4000 bytes lasio shows its encoding detector
                        mech = "path-read-junk-pushes-first-nonascii-byte-out-of-sniff-window"
                    ctx.violation(mech,
                                  "section %r: genuine items %r are no longer present unchanged / in order (now %r)" % (
                                      name, missing[:3], (obs or [])[:6]), detail)
            for name in items:
                if name not in base_items:
                    ctx.violation("junk-created-section", "junk created section %r" % name, detail)
            ctx.count("data_comparisons")
            if data != base_data:
                ctx.violation("curve-data-changed", "junk lines in the header changed the curve data", detail)
        # ---- without the flag ------------------------------------------------------------------------------------------
        ctx.count("reads_without_flag")
        try:
            lasio.read(jtext, mnemonic_case=mc, **case.get("read_kw", {}))
        except lasio.exceptions.LASHeaderError as e:
            ctx.count("without_flag_header_errors")
            msg = str(e)
            if not any(j.strip() in msg for j, *_ in plan):
                ctx.violation("header-error-does-not-name-line", "LASHeaderError message %r names none of the junk lines" % msg[:200], detail)
        except Exception as e:
            ctx.violation("without-flag-other-exception:%s" % type(e).__name__, "read() raised %r instead of LASHeaderError" % (e,), detail)
        for j, kind, title, pos, pcl in plan:
            ctx.case_done([j if len(j) <= 12 else ("long", len(j), canon._short(j, 20)), kind, pcl, "gen" if case["base"] == "gen" else "corpus"],
                          nontrivial=not trivial)
    ctx.sample({"base": case["base"], "junk": detail["junk"][:3]}, limit=5)
