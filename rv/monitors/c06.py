"""C06 — exactly the NULL-valued samples of non-index curves become NaN.

Read side: generated files whose cells are drawn from {NULL by another spelling, +-1 ulp neighbours,
NULL +- 1e-6, -NULL, ordinary} in every column including the index; the observed NaN mask is
compared with a model (NaN <=> column > 0, numeric column, float(token) == float(NULL text), policy
strict).  Write side: every NaN is emitted as str(NULL) (token-level check by the monitor's own
tokeniser) and the mask is identical after re-reading."""
import io
import math

import numpy as np

from rv.gen import lastext

ID = "C06"
LEVEL = "exploration"
NULLS = ["-999.25", "-999.2500", "-9.9925E2", "-9999", "0", "999", "1e30", "2147483647", "-999.250", "9999.25", "-0.5", "-9999999.25", "99999999999", "3.4028235e+38", "-99999999999999999999", "18446744073709551616"]
RULE = ("read side: NULL text from %d spellings/values (negative, positive, integer, zero, large, exponent) x cells per column "
        "from {equal by another spelling, +-1 ulp neighbours, NULL+-1e-6, -NULL, ordinary} incl. the index column x optional "
        "text column x engine {numpy, normal} x null_policy {strict, none} x {unwrapped, wrapped} x files without a NULL item; "
        "write side: LASFiles with NaN at random non-index positions x NULL values x writer options. distinct = distinct (NULL "
        "spelling, placement pattern, engine, policy, wrap, text column); non-trivial = >= 1 NULL-equal and >= 1 near-NULL cell Added later: surplus columns holding NULL cells, a second write after in-place NaN / fill edits with an optionally changed NULL value, a text curve present on write. Round 8: files without a ~Well section (or NULL line) whose samples equal the NULL of lasio's default items."
        % len(NULLS))
ASSUMPTIONS = [
    "NULL texts are plain decimal literals; the cells of a text column are non-numeric tokens, the NULL in its canonical and in the file's own spelling, and codes with leading zeros",
    "write side: no finite sample is *equal* to NULL (that is what NULL means); samples next to NULL, closer than the format resolves, are written in a quarter of the cases",
]
REQUIRED = ["read_cases", "cells_compared", "null_equal_cells_in_index", "near_null_cells", "null_equal_cells_other_spelling",
            "policy_none_cases", "text_column_cases", "write_nan_tokens_checked", "roundtrip_masks_compared", "wrapped_cases", "read_cases_with_surplus_columns", "second_writes_after_in_place_edits", "writes_with_a_text_curve_present", "written_samples_next_to_null"]
SOFT_DEADLINE = {"quick": 90, "thorough": 1200}
LEVEL_TEXT = "Exploration with a cell-level 'if and only if' model of the NaN mask on both directions (read, write->read)."
LEVEL_NOTE = "Trusts Python float() as the numeric-equality reference for spellings; NULL texts outside the listed set are not covered."
TECHNIQUE = "runtime monitoring: reference NULL model evaluated on every cell of generated files, plus token-level check of emitted NaN markers"


def spellings(nulltext):
    v = float(nulltext)
    out = {nulltext, repr(v)}
    if v == int(v) and abs(v) < 1e15:
        out |= {"%d" % int(v), "%d.0" % int(v), "%d.000" % int(v)}
    out |= {"%.4f" % v if abs(v) < 1e15 else repr(v), "%.6E" % v, "%.10e" % v}
    return sorted(s for s in out if float(s) == v)


def near(nulltext):
    v = float(nulltext)
    out = [repr(math.nextafter(v, math.inf)), repr(math.nextafter(v, -math.inf))]
    if abs(v) < 1e9:
        out += [repr(v + 1e-6), repr(v - 1e-6)]
    if v != 0:
        out.append(repr(-v))
    return [s for s in out if float(s) != v]


def grid(tier):
    k = 0
    for nt in NULLS:
        for engine in ("numpy", "normal"):
            for policy in ("strict", "none"):
                for wrap in (False, True):
                    for textcol in (False, True):
                        k += 1
                        yield {"kind": "read", "null": nt, "engine": engine, "policy": policy, "wrap": wrap, "textcol": textcol,
                               "rows": 6, "cols": 4, "seed": k, "has_null_item": True}
    for engine in ("numpy", "normal"):
        yield {"kind": "read", "null": "-999.25", "engine": engine, "policy": "strict", "wrap": False, "textcol": False,
               "rows": 4, "cols": 3, "seed": 1, "has_null_item": False}
    for nt in ("-9999.25", "-999.25"):       # samples equal to the NULL of lasio's *default* ~Well items, in files that state no NULL / have no ~Well
        for engine in ("numpy", "normal"):
            for wrap in (False, True):
                for nws in (True, False):
                    k += 1
                    yield {"kind": "read", "null": nt, "engine": engine, "policy": "strict", "wrap": wrap, "textcol": False,
                           "rows": 5, "cols": 3, "seed": 40 + k, "has_null_item": False, "no_well_section": nws}
    for nv in (-999.25, -9999, 0, 999.25, 1e30, 2147483647, -9999.25, -9999999.25, 99999999999, -99999999999, 3.4028235e+38):
        for wrap in (False, True):
            for engine in ("numpy", "normal"):
                k += 1
                yield {"kind": "write", "nullvalue": nv, "wrap": wrap, "engine": engine, "seed": k, "rows": 5, "cols": 5, "fmt": "%.5f"}


def n_random(tier):
    return 6000 if tier == "quick" else 120000


def random_case(rng, tier):
    if rng.random() < 0.7:
        return {"kind": "read", "null": rng.choice(NULLS), "engine": rng.choice(["numpy", "normal"]),
                "policy": rng.choice(["strict", "strict", "none"]), "wrap": rng.random() < 0.3, "textcol": rng.random() < 0.25,
                "rows": rng.randint(1, 12), "cols": rng.randint(1, 9), "seed": rng.randrange(10 ** 9), "has_null_item": rng.random() < 0.9}
    return {"kind": "write", "nullvalue": rng.choice([-999.25, -9999, 0, 999.25, 1e30, 2147483647, -9999.25, -0.5, -9999999.25, 99999999999, -99999999999, 3.4028235e+38, -2147483647]),
            "wrap": rng.random() < 0.4, "engine": rng.choice(["numpy", "normal"]), "seed": rng.randrange(10 ** 9),
            "rows": rng.randint(1, 10), "cols": rng.randint(2, 16), "fmt": rng.choice(["%.5f", "%.2f", "%.3e", "%.10g"]),
            "version": rng.choice([1.2, 2])}


def run_case(case, ctx):
    if case["kind"] == "read":
        run_read(case, ctx)
    else:
        run_write(case, ctx)


def run_read(case, ctx):
    import random
    lasio = ctx.lasio
    rng = random.Random(case["seed"])
    nt = case["null"]
    nv = float(nt)
    r, c = case["rows"], case["cols"]
    sp, nr = spellings(nt), near(nt)
    cls = [[None] * c for _ in range(r)]
    rows = []
    for i in range(r):
        row = []
        for j in range(c):
            k = rng.random()
            if k < 0.25:
                tok, cl = rng.choice(sp), "equal"
            elif k < 0.45:
                tok, cl = rng.choice(nr), "near"
            else:
                tok, cl = "%.3f" % rng.uniform(1, 500), "ordinary"
                if float(tok) == nv:
                    tok = "777.125"
            row.append(tok)
            cls[i][j] = cl
        rows.append(row)
    textcol = None
    if case["textcol"] and c >= 2:
        textcol = c - 1
        for i in range(r):
            rows[i][textcol] = rng.choice(["abc", "N/A-1", "lith_A", repr(nv) if nv != int(nv) else "abc"] +
                                          ([nt, "007", "%s0" % nt if "." in nt and "e" not in nt.lower() else "0012"] if case["seed"] % 3 == 0 else []))
            cls[i][textcol] = "text"
        rows[0][textcol] = "abc"      # the first row decides the column type
    declared = c
    if not case["wrap"] and case["seed"] % 4 == 3 and c >= 2:
        declared = max(1, c - 1 - case["seed"] % 2)          # surplus columns become unnamed curves: NULL applies to them as well
        ctx.count("read_cases_with_surplus_columns")
    secs = lastext.std_header(c, null=nt, wrap="YES" if case["wrap"] else "NO")
    for sct in secs:
        if sct["kind"] == "C":
            sct["items"] = sct["items"][:declared]
    if not case["has_null_item"]:
        for s in secs:
            if s["kind"] == "W":
                s["items"] = [it for it in s["items"] if it[0] != "NULL"]
        if case.get("no_well_section"):
            # no ~Well section at all: the LASFile keeps its default items (NULL -9999.25), which the file does not state
            secs = [s for s in secs if s["kind"] != "W"]
            ctx.count("read_cases_without_well_section")
    phys = rows
    if case["wrap"]:
        phys = []
        w = max(1, (c + 1) // 2)
        for row in rows:
            phys.append(row[:1])
            for k in range(1, c, w):
                phys.append(row[k:k + w])
    secs.append({"kind": "A", "title": "~ASCII", "rows": phys})
    text = lastext.render({"sections": secs}, {"sep": "  ", "lead": " "})
    try:
        las = lasio.read(text, engine=case["engine"], null_policy=case["policy"])
    except Exception as e:
        ctx.violation("read-raised:%s" % type(e).__name__, "read raised %r" % (e,), {"text": text, "case": case})
        return
    ctx.count("read_cases")
    if case["policy"] == "none":
        ctx.count("policy_none_cases")
    if textcol is not None:
        ctx.count("text_column_cases")
    if case["wrap"]:
        ctx.count("wrapped_cases")
    detail = {"text": text, "null": nt, "engine": case["engine"], "policy": case["policy"]}
    if len(las.curves) != c or any(len(cu.data) != r for cu in las.curves):
        ctx.violation("shape-changed", "read gave %d curves of lengths %r for %d x %d cells" % (
            len(las.curves), [len(cu.data) for cu in las.curves][:6], r, c), detail)
        return
    n_eq = n_near = 0
    for j in range(c):
        col = np.asarray([c for c in list.__iter__(las.curves)][j].data)
        for i in range(r):
            tok, cl = rows[i][j], cls[i][j]
            ctx.count("cells_compared")
            if cl == "text":
                if col.dtype.kind == "f":
                    ctx.violation("text-column-became-numeric", "text column %d has dtype %s" % (j, col.dtype), detail)
                    break
                if str(col[i]) != tok:
                    key = "text-column-touched"
                    try:
                        if float(str(col[i])) == float(tok):
                            key = "text-column-touched:numeric-looking-cell-respelled"
                    except ValueError:
                        pass
                    ctx.violation(key, "text cell (%d,%d) %r read as %r" % (i, j, tok, str(col[i])), detail)
                continue
            if col.dtype.kind != "f":
                ctx.violation("numeric-column-read-as-text", "column %d has dtype %s" % (j, col.dtype), detail)
                break
            y = float(col[i])
            expect_nan = (case["policy"] == "strict" and case["has_null_item"] and j > 0 and float(tok) == nv)
            if cl == "equal":
                n_eq += 1
                if j == 0:
                    ctx.count("null_equal_cells_in_index")
                if tok != nt:
                    ctx.count("null_equal_cells_other_spelling")
            if cl == "near":
                n_near += 1
                ctx.count("near_null_cells")
            if expect_nan and not math.isnan(y):
                ctx.violation("null-equal-sample-not-nan:%s" % case["policy"], "cell (%d,%d) token %r equals NULL %r but was read as %r" % (i, j, tok, nt, y), detail)
            elif not expect_nan and math.isnan(y):
                key = ("index-sample-nulled" if j == 0 else "policy-none-nulled" if case["policy"] == "none" else
                       "no-null-item-nulled" if not case["has_null_item"] else "near-null-sample-nulled" if cl == "near" else "ordinary-sample-nulled")
                ctx.violation(key, "cell (%d,%d) token %r (class %s) was read as NaN; NULL is %r, policy %s" % (i, j, tok, cl, nt, case["policy"]), detail)
            elif not expect_nan and y != float(tok):
                ctx.violation("sample-value-changed", "cell (%d,%d) token %r read as %r" % (i, j, tok, y), detail)
    ctx.case_done(["read", nt, case["engine"], case["policy"], case["wrap"], case["textcol"], case["has_null_item"],
                   "r%d" % min(r, 3), "c%d" % min(c, 4)], nontrivial=n_eq >= 1 and n_near >= 1)
    if n_eq and n_near:
        ctx.sample({"null": nt, "engine": case["engine"], "policy": case["policy"], "data lines": [" ".join(x) for x in rows[:4]],
                    "nan mask": [[bool(np.asarray(cu.data).dtype.kind == "f" and math.isnan(float(cu.data[i]))) for cu in las.curves] for i in range(min(r, 4))]}, limit=4)


def written_ok(ctx, case, las, data, nv, kw, tag):
    lasio = ctx.lasio
    r, c = case["rows"], case["cols"]
    buf = io.StringIO()
    try:
        las.write(buf, **kw)
    except Exception as e:
        ctx.violation("write-raised", "%s raised %r" % (tag, e), case)
        return False
    text = buf.getvalue()
    lines = text.splitlines()
    a0 = max(i for i, ln in enumerate(lines) if ln.startswith("~A"))
    toks = [t for ln in lines[a0 + 1:] for t in ln.split()]
    detail = {"text": text, "case": case, "phase": tag}
    sfx = "" if tag == "first-write" else ":" + tag
    if len(toks) == r * c:
        for i in range(r):
            for j in range(c):
                if data[j] is None:
                    continue
                if math.isnan(data[j][i]):
                    ctx.count("write_nan_tokens_checked")
                    if toks[i * c + j] != str(nv):
                        ctx.violation("nan-not-written-as-null" + sfx, "NaN at (%d,%d) written as %r, NULL is %r" % (i, j, toks[i * c + j], str(nv)), detail)
    else:
        ctx.violation("emitted-token-count" + sfx, "%d tokens for %d x %d" % (len(toks), r, c), detail)
    try:
        back = lasio.read(text, engine=case["engine"])
    except Exception as e:
        ctx.violation("reread-raised" + sfx, "re-read raised %r" % (e,), detail)
        return False
    if len(back.curves) != c or any(len(cu.data) != r for cu in back.curves):
        ctx.violation("shape-changed" + sfx, "re-read gave %d curves" % len(back.curves), detail)
        return False
    ctx.count("roundtrip_masks_compared")
    if case["wrap"]:
        ctx.count("wrapped_cases")
    for j in range(c):
        if data[j] is None:
            continue
        got = np.isnan(np.asarray([c for c in list.__iter__(back.curves)][j].data, dtype=float))
        want = np.isnan(np.array(data[j]))
        if not np.array_equal(got, want):
            ctx.violation("nan-mask-changed-by-roundtrip" + sfx, "curve %d NaN mask %s -> %s" % (j, want.tolist(), got.tolist()), detail)
    return True


def run_write(case, ctx):
    import random
    lasio = ctx.lasio
    rng = random.Random(case["seed"])
    nv = case["nullvalue"]
    r, c = case["rows"], case["cols"]
    fmt = case["fmt"]
    las = lasio.LASFile()
    las.well["NULL"].value = nv
    data = [[100.0 + 0.5 * i for i in range(r)]]
    near_written = [0]
    for j in range(1, c):
        col = []
        for i in range(r):
            if rng.random() < 0.35:
                col.append(float("nan"))
            elif case["seed"] % 4 == 2 and rng.random() < 0.3:
                # a real reading next to NULL, closer than the format resolves (it must not be written as the NULL marker)
                x = float(nv) + rng.choice([1, -1]) * rng.choice([1e-6, 3e-7, 4e-9]) * max(1.0, abs(float(nv)))
                if x == float(nv):
                    x = float(np.nextafter(float(nv), 1e300))
                col.append(x)
                near_written[0] += 1
            else:
                x = round(rng.uniform(-2000, 2000), 3)
                while float(fmt % x) == float(nv):
                    x += 1.5
                col.append(x)
        data.append(col)
    if near_written[0]:
        ctx.count("written_samples_next_to_null", near_written[0])
    for j in range(c):
        las.append_curve("DEPT" if j == 0 else "C%d" % j, np.array(data[j]), unit="m")
    kw = {"wrap": case["wrap"], "fmt": fmt}
    if case.get("version"):
        kw["version"] = case["version"]
    if case["seed"] % 5 == 1 and not case["wrap"]:
        # a text curve next to the float curves: the NaN of the float curves are still written as NULL
        las.append_curve("LITH", np.array(["L%d" % i for i in range(r)]), descr="text curve")
        data.append(None)
        case = dict(case, cols=c + 1, textcol=c)
        ctx.count("writes_with_a_text_curve_present")
    if not written_ok(ctx, case, las, data, nv, kw, "first-write"):
        return
    if case["seed"] % 2 == 0:
        # the same object later in its life: gaps filled and new gaps made *in place*, the NULL value changed, then written again
        # ("every NaN is emitted as the *current* NULL value")
        las.df() if case["seed"] % 4 == 0 else las.data
        for j in range(1, c):
            arr = las.curves[j].data
            for i in range(r):
                if (i + j + case["seed"]) % 3 == 0:
                    if math.isnan(data[j][i]):
                        data[j][i] = 7.5 + i
                    else:
                        data[j][i] = float("nan")
                    arr[i] = data[j][i]
        nv2 = nv
        if case["seed"] % 3 == 0:
            nv2 = {-999.25: -9999.25, 0: -999.25}.get(nv, -999.25)
            las.well["NULL"].value = nv2
            for j in range(1, c):                      # no finite sample may print as the new NULL
                for i in range(r):
                    if not math.isnan(data[j][i]) and float(fmt % data[j][i]) == float(nv2):
                        data[j][i] += 1.5
                        las.curves[j].data[i] = data[j][i]
        ctx.count("second_writes_after_in_place_edits")
        if not written_ok(ctx, case, las, data, nv2, kw, "second-write"):
            return
    ctx.case_done(["write", nv, case["wrap"], case["engine"], fmt, case.get("version")], nontrivial=True)
