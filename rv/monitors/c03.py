"""C03 — header metadata survives write -> read in every section and both versions.

A write(version=v) event is linked to read(text, mnemonic_case=c) events; the oracle compares, item
by item and in order, original mnemonic (mapped by exactly str.upper/lower when c != preserve),
unit, value (numerically when the written text is a decimal literal, else as text) and
description, plus the ~Other text.  Only the documented differences are allowed."""
import io
import re

import numpy as np

from rv.gen import fields

ID = "C03"
LEVEL = "exploration"
LITERAL = re.compile(r"^[+-]?\d+([.,]\d+)?([eE][+-]?\d+)?$")
GREY = re.compile(r"^[+-]?(\d+[.,]|[.,]\d+)([eE][+-]?\d+)?$")
RULE = ("in-memory LASFiles with 0..6 generated items in ~Version (after VERS/WRAP/DLM), ~Well (after the defaults), ~Curves "
        "and ~Parameter; fields from the conformant alphabet (letters, digits, punctuation, quotes, brackets, non-ASCII, empty "
        "fields, numeric and textual values, duplicate mnemonics, blank mnemonics on lines without a further period); a width "
        "rotation makes each item in turn the widest mnemonic / widest unit+value / the one with empty value / empty unit; x "
        "version {1.2, 2.0} x mnemonic_case {preserve, upper, lower}. distinct = distinct (section sizes, widest item, field "
        "classes, version, case); non-trivial = >= 2 generated items in some section Added later: second-generation round trips (read with each mnemonic_case, written again), fields of 120..400 characters, empty and blank-only lines and Unicode line separators inside ~Other, trailing empty lines, VERS at position 1, 2 or last of ~Version, legend words (MNEM/UNIT) and blank runs in values. Hunter round 2: values of None in every section. Round 8: LASFiles with NaN samples and / or without a NULL item.")
ASSUMPTIONS = [
    "conformance clause of the statement is enforced by the generator (rv/gen/fields.py); NaN values and digit-underscore values (C08) are not generated; None values only in the dedicated grid cases",
    "allowed differences: STRT/STOP/STEP values, STRT/STOP/STEP and index-curve units, empty value with a unit -> 0",
]
REQUIRED = ["write_read_pairs", "items_compared", "cases_widest_item_has_empty_value", "cases_blank_mnemonic", "cases_duplicate_mnemonic",
            "version_1.2", "version_2.0", "case_upper", "case_lower", "case_preserve", "other_text_compared", "second_generation_round_trips", "cases_header_line_over_256_chars", "other_text_with_empty_lines", "other_text_with_unicode_line_separators", "cases_vers_not_first_in_version_section", "cases_with_none_values", "cases_with_nan_samples_or_without_null_item"]
SOFT_DEADLINE = {"quick": 90, "thorough": 1500}
LEVEL_TEXT = ("Exploration: every item of every section is compared after a write->read cycle; the generators rotate which item "
              "determines the section's column widths, since one line's correctness depends on all other items of its section.")
LEVEL_NOTE = "Round trip through the real writer and reader; the conformance guards of the generator are the trusted statement of the domain."
TECHNIQUE = "runtime monitoring: write-event/read-event round-trip relation over generated conformant headers with width rotation"


def gen_value(rng):
    c = rng.random()
    if c < 0.25:
        return rng.choice([0, 0.0, 1, -5, 42, 1500, 0.5, -999.25, 3.25, 1e-05, 123456.789, 2.0, -0.125, 1e+16, 7])
    if c < 0.35:
        return ""
    return fields.text(rng, colons=False)


def gen_item(rng, section, blank_ok=True):
    m = fields.mnemonic(rng)
    if rng.random() < 0.08:
        m = rng.choice(["STRT", "NULL", "COMP", "VERS", "A", "A"]) if section in ("Parameter", "Curves") else \
            rng.choice(["A", "A", "COMP", "UWI", "API", "NULL", "null", "strt", "step", "Null", "Stop", "sTEP", "Strt"]) if section == "Well" else rng.choice(["A", "A", "COMP", "UWI", "API"])
    u = fields.unit(rng)
    v = gen_value(rng)
    d = fields.text(rng, colons=False)
    if section == "Curves":
        v = rng.choice(["", "", "45 310 01 00", "7", 7, fields.text(rng, colons=False, double_dots=False)])
        if isinstance(v, str):
            while ".." in v:
                v = v.replace("..", ".")
    if blank_ok and rng.random() < 0.07:
        m = ""
    if isinstance(v, str) and "_" in v and re.fullmatch(r"[\d_.,eE+-]+", v):
        v = "x" + v
    return fix_blank([m, u, v, d])


def fix_blank(it):
    """A blank mnemonic needs a line without any further period (conformance clause)."""
    m, u, v, d = it
    if m.strip() == "":
        u = u.replace(".", "")
        if not fields.unit_ok(u):
            u = "M"
        if isinstance(v, str):
            v = v.replace(".", ",")
        elif "." in str(v):
            v = int(v) if float(v) == int(v) and abs(v) < 1e15 else 12
        d = d.replace(".", ",")
    it[:] = [m, u, v, d]
    return it


def rotate(rng, items, mode):
    """Make item #k extreme in one dimension so that it determines the section's column widths."""
    if not items:
        return None
    k = rng.randrange(len(items))
    it = items[k]
    if mode == "widest_mnemonic" and it[0].strip():
        it[0] = (it[0] + "LONGMNEMONICX" * 2)[:rng.randint(14, 26)]
    elif mode == "widest_middle":
        it[1] = "unit/verylong*wide"
        if isinstance(it[2], str):
            it[2] = (it[2] + " widest value text of the section")[:40].strip()
    elif mode == "widest_empty_value":
        it[1] = "unit/verylong*widest"
        it[2] = ""
    elif mode == "empty_unit":
        it[1] = ""
    elif mode == "very_long":
        # absolute lengths around and beyond LAS 1.2's 256-character line: relative-width sweeps over short strings never get there
        L = rng.choice([120, 200, 236, 244, 250, 256, 270, 320, 400])
        filler = " ".join(["long text %03d" % i for i in range(40)])
        it[1] = it[1] or "unit"
        if rng.random() < 0.5 and isinstance(it[2], str):
            it[2] = filler[:L].strip()
        else:
            it[3] = filler[:L].strip()
    return k


MODES = ["none", "widest_mnemonic", "widest_middle", "widest_empty_value", "empty_unit", "very_long"]


def make_spec(rng, mode=None):
    spec = {}
    for sec in ("Version", "Well", "Curves", "Parameter"):
        n = rng.randint(0, 6)
        if sec == "Curves":
            n = rng.randint(1, 5)
        items = [gen_item(rng, sec) for _ in range(n)]
        if rng.random() < 0.3 and len(items) >= 2:
            items[-1][0] = items[0][0]          # a duplicate mnemonic
        spec[sec] = items
    m = mode or rng.choice(MODES)
    spec["rotation"] = {}
    for sec in ("Well", "Parameter", "Curves", "Version"):
        if m != "none" and (sec != "Curves" or m != "widest_empty_value"):
            spec["rotation"][sec] = [m, rotate(rng, spec[sec], m)]
    for sec in ("Version", "Well", "Curves", "Parameter"):
        for it in spec[sec]:
            fix_blank(it)
    spec["short_default_descr"] = rng.choice([0, 0, 1, 2, 3])
    spec["vers_pos"] = rng.choice([0, 0, 0, 1, 2, "last"])
    other = [fields.text(rng, colons=True) for _ in range(rng.randint(0, 3))]
    other = [s for s in other if s and not s.startswith("~")]
    if rng.random() < 0.15:
        # characters str.splitlines() treats as line boundaries although files do not: ordinary text of a free-text line
        other.append(rng.choice(["form\x0cfeed %d", "NEL\x85here %d", "LS\u2028PS\u2029 %d", "FS\x1cGS\x1dRS\x1e %d", "VT\x0bend %d"]) % rng.randint(0, 99))
    if len(other) >= 2 and rng.random() < 0.5:
        # paragraphs: empty (or blank-only) lines between text lines are part of the ~Other text
        for _ in range(rng.randint(1, 3)):
            other.insert(rng.randint(1, len(other) - 1), rng.choice(["", "", "   "]))
    if other and rng.random() < 0.2:
        other += [""] * rng.randint(1, 3)          # the text ends with empty lines (a trailing newline is part of it)
    spec["Other"] = "\n".join(other)
    return spec


def grid(tier):
    import random
    k = 0
    for mode in MODES:
        for rep in range(12 if tier == "quick" else 60):
            for version in (1.2, 2.0):
                k += 1
                rng = random.Random("C03grid%d" % k)
                yield {"spec": make_spec(rng, mode), "version": version}


    # "empty fields" in their other form: a value of None (what update_start_stop_step() itself leaves in STRT/STOP/STEP of an
    # object without rows), in every section
    for rep in range(6 if tier == "quick" else 30):
        for version in (1.2, 2.0):
            k += 1
            rng = random.Random("C03none%d" % k)
            spec = make_spec(rng, MODES[rep % len(MODES)])
            for name in ("Version", "Well", "Curves", "Parameter"):
                for it in spec.get(name, [])[(1 if name == "Curves" else 0):]:
                    if it[0].upper() not in ("VERS", "WRAP", "DLM", "STRT", "STOP", "STEP", "NULL") and rng.random() < 0.5:
                        it[2] = None
            yield {"spec": spec, "version": version, "none_values": True}


    for rep in range(6 if tier == "quick" else 30):
        for version in (1.2, 2.0):
            for nan_sample, no_null in ((True, True), (True, False), (False, True)):
                k += 1
                rng = random.Random("C03nan%d" % k)
                spec = make_spec(rng, MODES[rep % len(MODES)])
                if any(it[0].strip().upper() == "NULL" for it in spec.get("Well", [])) and no_null:
                    continue
                spec["nan_sample"], spec["no_null"] = nan_sample, no_null
                yield {"spec": spec, "version": version, "data_state": True}


def n_random(tier):
    return 5000 if tier == "quick" else 80000


def random_case(rng, tier):
    return {"spec": make_spec(rng), "version": rng.choice([1.2, 2.0])}


def build(lasio, spec):
    las = lasio.LASFile()
    las.well["NULL"].value = -999.25
    for m, u, v, d in spec["Version"]:
        las.version.append(lasio.HeaderItem(m, u, v, d))
    if spec.get("vers_pos"):
        # VERS need not be the first line of ~Version ("the same items in the same order")
        items = [it for it in list.__iter__(las.version)]
        vers = items.pop(0)
        pos = len(items) if spec["vers_pos"] == "last" else min(int(spec["vers_pos"]), len(items))
        items.insert(pos, vers)
        list.clear(las.version)
        for it in items:
            las.version.append(it)
    for m, u, v, d in spec["Well"]:
        las.well.append(lasio.HeaderItem(m, u, v, d))
    for m, u, v, d in spec["Parameter"]:
        las.params.append(lasio.HeaderItem(m, u, v, d))
    if spec.get("short_default_descr"):
        for it in las.well:            # the defaults' long descriptions would otherwise dominate the 1.2 column widths
            it.descr = it.descr[:spec["short_default_descr"] - 1]
    las.other = spec["Other"]
    las.append_curve("DEPT", np.array([100.0, 100.5, 101.0]), unit="m", descr="index")
    for j, (m, u, v, d) in enumerate(spec["Curves"]):
        las.append_curve(m, np.array([1.0, 2.0, 3.0]) + j, unit=u, value=v, descr=d)
    if spec.get("nan_sample"):
        # what the data hold must not change the header: NaN samples (the normal state of a log), with and without a NULL line to spell them
        if len(las.curves) < 2:
            las.append_curve("NANC", np.array([1.0, 2.0, 3.0]), unit="u", descr="curve with a NaN sample")
        las.curves[len(las.curves) - 1].data[1] = np.nan
    if spec.get("no_null"):
        del las.well["NULL"]
    return las


def value_matches(written, read):
    """written: the Python value handed to lasio; read: what came back."""
    t = str(written).strip()
    if LITERAL.match(t):
        try:
            return float(read if not isinstance(read, str) else read.replace(",", ".")) == float(t.replace(",", "."))
        except (TypeError, ValueError):
            return False
    if GREY.match(t) and not isinstance(read, str):      # '5.' '.5' '5,': may or may not be converted (C08's grey zone)
        try:
            return float(read) == float(t.replace(",", "."))
        except (TypeError, ValueError):
            return False
    return isinstance(read, str) and read == t


def second_generation_in_domain(spec):
    """The object read back is itself written and read again only when it is still in the statement's domain: a blank
    mnemonic whose numeric value now prints with a period ('2' -> 2.0 -> '2.0') is not, nor is a ~Well section
    in which upper/lower folding turns 'strt'/'step' into a second STRT/STEP."""
    for s in ("Version", "Well", "Curves", "Parameter"):
        for it in spec[s]:
            if it[0].strip() == "":
                return False
    return not any(it[0].upper() in ("STRT", "STOP", "STEP", "NULL") for it in spec["Well"])


def run_case(case, ctx):
    lasio = ctx.lasio
    spec, version = case["spec"], case["version"]
    las = build(lasio, spec)
    if case.get("none_values"):
        ctx.count("cases_with_none_values")
    if case.get("data_state"):
        ctx.count("cases_with_nan_samples_or_without_null_item")
    snap = {}
    for name in ("Version", "Well", "Curves", "Parameter"):
        snap[name] = [(it.original_mnemonic, it.unit, it.value, it.descr) for it in las.sections[name]]
    buf = io.StringIO()
    try:
        las.write(buf, version=version)
    except Exception as e:
        ctx.violation("write-raised:%s" % type(e).__name__, "write(version=%s) raised %r" % (version, e))
        return
    text = buf.getvalue()
    ctx.count("version_%s" % version)
    rot = spec.get("rotation", {})
    if any(v[0] == "widest_empty_value" for v in rot.values()):
        ctx.count("cases_widest_item_has_empty_value")
    if max((len(l) for l in text.splitlines()), default=0) > 256:
        ctx.count("cases_header_line_over_256_chars")
    if any(it[0].strip() == "" for s in ("Well", "Curves", "Parameter", "Version") for it in spec[s]):
        ctx.count("cases_blank_mnemonic")
    if spec.get("vers_pos"):
        ctx.count("cases_vers_not_first_in_version_section")
    if any(len({it[0] for it in spec[s]}) < len(spec[s]) for s in ("Well", "Curves", "Parameter", "Version")):
        ctx.count("cases_duplicate_mnemonic")
    for mc in ("preserve", "upper", "lower"):
        f = {"preserve": (lambda s: s), "upper": str.upper, "lower": str.lower}[mc]
        try:
            back = lasio.read(text, mnemonic_case=mc)
        except Exception as e:
            ctx.violation("reread-raised:%s" % type(e).__name__, "reading lasio's own header (mnemonic_case=%s) raised %r" % (mc, e),
                          {"text": text, "version": version})
            continue
        ctx.count("write_read_pairs")
        ctx.count("case_" + mc)
        for name in ("Version", "Well", "Curves", "Parameter"):
            want = snap[name]
            got = list(back.sections[name])
            tagv = "v%s" % version
            if len(got) != len(want):
                ctx.violation("item-count:%s:%s" % (name, tagv), "%s: %d items written, %d read (mnemonic_case=%s)" % (name, len(want), len(got), mc),
                              {"text": text, "written": [w[0] for w in want], "read": [g.original_mnemonic for g in got]})
                continue
            for i, ((m, u, v, d), g) in enumerate(zip(want, got)):
                ctx.count("items_compared")
                up = m.upper()
                problems = []
                if g.original_mnemonic != f(m):
                    problems.append("mnemonic %r -> %r" % (f(m), g.original_mnemonic))
                if name == "Version" and up == "VERS" and [w[0].upper() for w in want].count("VERS") == 1:
                    continue        # write(version=v) states v (and its description) in the output; its position is compared above
                is_sss = name == "Well" and up in ("STRT", "STOP", "STEP")
                is_index = name == "Curves" and i == 0
                if not (is_sss or is_index) and g.unit != u:
                    problems.append("unit %r -> %r" % (u, g.unit))
                if not is_sss:
                    wv = v
                    if wv in ("", None) and u and name in ("Well", "Parameter"):
                        wv = 0
                    if wv is None:
                        wv = ""
                    if not value_matches(wv, g.value):
                        problems.append("value %r -> %r" % (wv, g.value))
                if g.descr != d.strip():
                    problems.append("descr %r -> %r" % (d, g.descr))
                if problems:
                    fieldset = "+".join(sorted(p.split(" ")[0] for p in problems))
                    blank = ":blank-mnemonic" if m.strip() == "" else ""
                    ctx.violation("item-changed:%s:%s:%s%s" % (name, tagv, fieldset, blank),
                                  "%s item #%d %r (mnemonic_case=%s): %s" % (name, i, [m, u, v, d], mc, "; ".join(problems)),
                                  {"text": text, "version": version, "rotation": rot})
        # ---- second generation: the object just read (with this mnemonic_case) is written and read again ------------------
        if second_generation_in_domain(spec):
            ctx.count("second_generation_round_trips")
            b2 = io.StringIO()
            try:
                first = {name: [(it.original_mnemonic, it.unit, it.value, it.descr) for it in back.sections[name]] for name in ("Version", "Well", "Curves", "Parameter")}
                back.write(b2, version=version)
                again = lasio.read(b2.getvalue(), mnemonic_case=mc)
            except Exception as e:
                ctx.violation("second-generation-raised:%s" % type(e).__name__, "writing/reading the re-read object (mnemonic_case=%s) raised %r" % (mc, e),
                              {"text": text, "version": version})
            else:
                for name in ("Version", "Well", "Curves", "Parameter"):
                    got2 = [(it.original_mnemonic, it.unit, it.value, it.descr) for it in again.sections[name]]
                    w2 = first[name]
                    same = len(got2) == len(w2) and all(
                        a[0] == b[0] and (a[1] == b[1] or (name == "Well" and a[0].upper() in ("STRT", "STOP", "STEP")) or (name == "Curves" and i == 0))
                        and (a[3] == b[3]) and (value_matches(a[2], b[2]) or (name == "Well" and a[0].upper() in ("STRT", "STOP", "STEP")))
                        for i, (a, b) in enumerate(zip(w2, got2)))
                    if not same:
                        k = next((i for i, (a, b) in enumerate(zip(w2, got2)) if a != b and not (isinstance(a[2], float) and a[:2] + a[3:] == b[:2] + b[3:] and value_matches(a[2], b[2]))), min(len(w2), len(got2)))
                        ctx.violation("second-generation-differs:%s:v%s:%s" % (name, version, mc),
                                      "%s after read(%s) -> write -> read: %d items, item #%d %r; before: %d items, item #%d %r" % (
                                          name, mc, len(got2), k, got2[k:k + 1], len(w2), k, w2[k:k + 1]), {"text": text, "second text": b2.getvalue(), "version": version})
        ctx.count("other_text_compared")
        if any(not ln.strip() for ln in spec["Other"].split("\n")):
            ctx.count("other_text_with_empty_lines")
        if any(ch in spec["Other"] for ch in "\x0b\x0c\x1c\x1d\x1e\x85\u2028\u2029"):
            ctx.count("other_text_with_unicode_line_separators")
        want_other = "\n".join(s.strip(" \t") for s in spec["Other"].split("\n"))
        if back.other != want_other:
            ctx.violation("other-text-changed", "~Other %r -> %r" % (want_other, back.other), {"text": text})
    sizes = [len(spec[s]) for s in ("Version", "Well", "Curves", "Parameter")]
    ctx.case_done([sizes, sorted((k, v[0], v[1]) for k, v in rot.items()), version,
                   [fields_cls(it) for s in ("Well", "Parameter") for it in spec[s]][:8]], nontrivial=max(sizes) >= 2)
    ctx.sample({"version": version, "rotation": rot, "well items": spec["Well"][:3], "written ~Well lines": [l for l in text.splitlines() if l][6:12]}, limit=3)


def fields_cls(it):
    return tuple("e" if str(x) == "" else "n" if LITERAL.match(str(x)) else "t" for x in it)
