"""C12 — writer options change presentation only, never content (1.2 <-> 2.0 included).

Metamorphic relation between two observed executions: for an input x and two writer
configurations with the same numeric formats, r1 = read(write(read(x), cfg1)) and
r2 = read(write(read(x), cfg2)) must have equal header items (apart from VERS and WRAP themselves)
and equal curve data.  Each configuration writes a *fresh* read of x."""
import glob
import io
import os
import re

import numpy as np

from rv import canon, env
from rv.gen import lasobj

ID = "C12"
LEVEL = "exploration"
RULE = ("inputs: every readable+writable example file, generated LASFiles (first materialised as LAS 1.2 or 2.0 text), each read with mnemonic_case upper / lower / preserve x pairs of "
        "writer configurations over version {1.2, 2} x wrap x len_numeric_field {None, -1, 14, 20} x spacer x lhs_spacer x "
        "data_width {40, 79, 200} x header_width x data_section_header x mnemonics_header, both members of a pair using the same "
        "fmt / column_fmt. distinct = distinct (input, configuration pair); non-trivial = pair whose two texts differ and whose "
        "input has >= 2 ~Well items beyond STRT/STOP/STEP/NULL Added later: inputs read with each mnemonic_case, short ~Well descriptions, wide tables (6..63 curves), column formats keyed on the last column x header style, a date-like text curve (witness of a known finding). Hunter round 2: a VERS / WRAP / DLM line stated twice, text samples with '#' inside ('47#') from wrapped, comma-delimited and plain sources. Round 8: decimal-number units that are widest in one layout only; duplicated steering lines read with mnemonic_case lower.")
ASSUMPTIONS = [
    "inputs whose re-read fails under BOTH configurations are not comparable and are counted (C11 judges re-readability)",
    "VERS and WRAP items are excluded from the comparison, as the statement says",
]
REQUIRED = ["pairs_compared", "pairs_12_vs_20", "pairs_wrap_vs_nowrap", "pairs_with_table_and_other_well_items", "corpus_pairs", "generated_pairs", "pairs_source_case_lower", "pairs_source_case_preserve", "inputs_with_wide_tables", "pairs_with_rows_over_256_chars", "pairs_header_style_differs_with_column_fmt", "inputs_with_a_steering_line_twice"]
SOFT_DEADLINE = {"quick": 100, "thorough": 1500}
LEVEL_TEXT = "Metamorphic exploration over pairs of writer configurations; equality of the two re-reads is the oracle."
LEVEL_NOTE = "Equality of two observed executions; trusts the canonical snapshot; configurations outside the listed dimensions are not covered."
TECHNIQUE = "runtime monitoring: metamorphic relation between two observed write->read executions over configuration pairs"

FMTS = [{}, {"fmt": "%.3f"}, {"fmt": "%.6e"}, {"fmt": "%.2f", "column_fmt": {"0": "%.4f"}},
        # per-column formats keyed on the last / a middle column ("last" is resolved to the curve count at run time)
        {"fmt": "%.4f", "column_fmt": {"last": "%.1f"}}, {"column_fmt": {"last": "%.2f", "1": "%.3f"}}, {"fmt": "%.3f", "column_fmt": {"0": "%.2f", "last": "%.6f"}}]


def corpus():
    return sorted(os.path.relpath(f, env.REPO) for f in glob.glob(os.path.join(env.REPO, "tests", "examples", "**", "*.las"), recursive=True))


def rand_cfg(rng):
    c = {"version": rng.choice([1.2, 2])}
    if rng.random() < 0.7:
        c["wrap"] = rng.choice([True, False])
    if rng.random() < 0.4:
        c["len_numeric_field"] = rng.choice([-1, 14, 20])
    if rng.random() < 0.3:
        c["spacer"] = rng.choice([" ", "  ", "    "])
    if rng.random() < 0.3:
        c["lhs_spacer"] = rng.choice(["", " ", "   "])
    if rng.random() < 0.4:
        c["data_width"] = rng.choice([40, 79, 200])
    if rng.random() < 0.2:
        c["header_width"] = rng.choice([30, 60, 100])
    if rng.random() < 0.2:
        c["data_section_header"] = rng.choice(["~A", "~ASCII Log Data"])
    if rng.random() < 0.2:
        c["mnemonics_header"] = True
    return c


GRID_PAIRS = [({"version": 1.2}, {"version": 2}), ({"version": 2, "wrap": True}, {"version": 2, "wrap": False}),
              ({"version": 1.2, "wrap": True, "data_width": 40}, {"version": 2, "wrap": False, "len_numeric_field": -1}),
              ({"version": 2}, {"version": 2, "spacer": "   ", "lhs_spacer": "", "header_width": 30, "mnemonics_header": True})]


def grid(tier):
    for fn in corpus():
        for pi in range(len(GRID_PAIRS)):
            yield {"input": fn, "pair": pi, "fmt": 0}
        yield {"input": fn, "pair": 0, "fmt": 0, "src_case": "lower"}
        yield {"input": fn, "pair": 2, "fmt": 0, "src_case": "preserve"}
    for k in range(80 if tier == "quick" else 500):
        yield {"input": "gen", "seed": k, "pair": k % len(GRID_PAIRS), "fmt": k % len(FMTS), "gen_version": 1.2 if k % 2 else 2,
               "src_case": ["upper", "lower", "preserve"][k % 3]}


    for fi in range(len(FMTS)):
        for j, cfgs in enumerate((({"mnemonics_header": True}, {}), ({"mnemonics_header": True, "version": 1.2}, {"version": 2, "data_section_header": "~A"}),
                                  ({"mnemonics_header": True, "wrap": True}, {"wrap": False}))):
            yield {"input": "gen", "seed": 3000 + 10 * fi + j, "cfg1": cfgs[0], "cfg2": cfgs[1], "fmt": fi, "gen_version": 2 if j % 2 else 1.2, "src_case": "upper"}
            yield {"input": "tests/examples/sample.las", "cfg1": cfgs[0], "cfg2": cfgs[1], "fmt": fi}
    for k2 in range(3):      # an input without data rows, header styles
        yield {"input": "gen", "seed": 7100 + k2, "cfg1": {"mnemonics_header": True}, "cfg2": {}, "fmt": 0, "gen_version": 2, "src_case": "upper", "no_rows": True}
        yield {"input": "gen", "seed": 7110 + k2, "cfg1": {"wrap": True, "mnemonics_header": True}, "cfg2": {"wrap": False}, "fmt": k2, "gen_version": 1.2, "src_case": "upper", "no_rows": True}
    for k2, (dup, c1, c2, extra) in enumerate((("WRAP", {"wrap": True, "data_width": 30}, {"wrap": False}, {"wide": 3}),
                                               ("WRAP", {"wrap": True}, {"wrap": False}, {"wide": 13}),
                                               ("VERS", {"version": 1.2}, {"version": 2}, {"no_rows": True}),
                                               ("DLM", {"version": 1.2, "wrap": True}, {"version": 2}, {"wide": 6}))):
        for sc in ("upper", "preserve", "lower"):
            yield dict({"input": "gen", "seed": 7200 + k2, "cfg1": c1, "cfg2": c2, "fmt": 0, "gen_version": 2, "src_case": sc, "dup_line": dup}, **extra)
    # a text sample with '#' inside it ('47#', a casing weight), from a wrapped and from a comma-delimited source (both read by the
    # normal engine): the unwrapped output is read by the numpy engine, for which '#' started a comment anywhere on a line
    head = "~Version\nVERS. 2.0 : v\nWRAP. %s : w\n%s~Well\nSTRT.M 1.0 : s\nSTOP.M 2.0 : s\nSTEP.M 1.0 : s\nNULL. -999.25 : n\n~Curve\nDEPT.M : d\nCSG. : casing\nGR.GAPI : g\n~A\n"
    for text in (head % ("YES", "") + "1.0\n47# 10.5\n2.0\n40# 11.5\n", head % ("NO", "DLM. COMMA : d\n") + "1.0,47#,10.5\n2.0,40#,11.5\n",
                 head % ("NO", "") + "1.0 47# 10.5\n2.0 40# 11.5\n"):
        yield {"input": "lit", "text": text, "cfg1": {"wrap": True}, "cfg2": {"wrap": False}, "fmt": 0}
        yield {"input": "lit", "text": text, "cfg1": {"version": 1.2}, "cfg2": {"version": 2, "wrap": True}, "fmt": 0}
    for k2 in range(12):
        yield {"input": "gen", "seed": 7300 + k2, "pair": k2 % len(GRID_PAIRS), "fmt": 0, "gen_version": 2 if k2 % 2 else 1.2, "src_case": ["upper", "lower", "preserve"][k2 % 3], "decimal_units": True}
    for k2 in range(3):      # witness of the known finding: a date-like text curve, wrapped vs unwrapped
        yield {"input": "gen", "seed": 7000 + k2, "cfg1": {"version": 2, "wrap": True}, "cfg2": {"version": 2, "wrap": False}, "fmt": 0, "gen_version": 2, "src_case": "upper", "date_curve": True, "wide": 7}
    # wide tables: data rows of every length relative to the 79 / 255 / 256-character marks, with and without wrapping
    k = 0
    for extra in (5, 6, 13, 20, 22, 23, 24, 27, 29, 34, 41, 55):
        for cfgs in (({"version": 1.2, "wrap": False}, {"version": 2, "wrap": False}), ({"version": 1.2}, {"version": 1.2, "wrap": True}),
                     ({"version": 1.2, "wrap": False, "len_numeric_field": 20}, {"version": 2, "wrap": True, "len_numeric_field": 20}),
                     ({"version": 1.2, "wrap": False, "data_width": 40}, {"version": 2, "wrap": False, "data_width": 40})):
            k += 1
            yield {"input": "gen", "seed": 1000 + k, "cfg1": cfgs[0], "cfg2": cfgs[1], "fmt": 0, "gen_version": 2 if k % 2 else 1.2, "src_case": "upper", "wide": extra}


def n_random(tier):
    return 400 if tier == "quick" else 10000


def random_case(rng, tier):
    c = {"cfg1": rand_cfg(rng), "cfg2": rand_cfg(rng), "fmt": rng.randrange(len(FMTS)), "src_case": rng.choice(["upper", "upper", "lower", "preserve"])}
    if rng.random() < 0.5:
        c.update(input="gen", seed=rng.randrange(10 ** 9), gen_version=rng.choice([1.2, 2]))
        if rng.random() < 0.25:
            c["wide"] = rng.choice([6, 13, 20, 23, 27, 34, 41, 48, 55, 62])
    else:
        c.update(input=rng.choice(corpus()))
    return c


def _kw(c, f, ncurves=1):
    kw = dict(c)
    kw.update(f)
    if "column_fmt" in kw:
        kw["column_fmt"] = {(ncurves - 1 if k == "last" else int(k)): v for k, v in kw["column_fmt"].items()}
    return kw


def content(las):
    s = canon.clas(las, numeric=True)
    for name, sec in s["sections"].items():
        if name == "Version" and "items" in sec:
            sec["items"] = [it for it in sec["items"] if it["original"].upper() not in ("VERS", "WRAP")]
    return s


def colon_fields(las):
    out = []
    for it in las.well:
        if ":" in str(it.value) or ":" in str(it.descr):
            out.append(it.original_mnemonic)
    return out


def run_case(case, ctx):
    lasio = ctx.lasio
    cfg1, cfg2 = (case["cfg1"], case["cfg2"]) if "cfg1" in case else GRID_PAIRS[case["pair"]]
    f = FMTS[case["fmt"]]
    mc = case.get("src_case", "upper")      # the LASFile that is written may have been read with any mnemonic_case
    if case["input"] == "gen":
        import random
        spec = lasobj.rand_spec(random.Random(case["seed"]), text_curve=0.0)
        try:
            b = io.StringIO()
            if case.get("wide"):
                nrows = len(spec["curves"][0][4])
                spec["curves"] = spec["curves"][:1] + [["W%d" % j, "u", "", "wide %d" % j, [round(100.0 * j + i + 0.25, 2) for i in range(nrows)]] for j in range(case["wide"])]
                ctx.count("inputs_with_wide_tables")
            if case.get("no_rows"):
                for cv in spec["curves"]:
                    cv[4] = []
            if case.get("date_curve"):
                nrows = len(spec["curves"][0][4])
                spec["curves"].append(["DATE", "", "", "text curve of dates", ["2018-05-%02d" % (i + 1) for i in range(nrows)]])
            obj = lasobj.build(lasio, spec)
            if case.get("decimal_units"):
                # units that are decimal numbers, on lines that are the widest of ~Well in one layout (long value) or the other (long description)
                obj.well.append(lasio.HeaderItem("FREQ", "2.5", 20000 * 10 ** (case["seed"] % 9), "TOOL FREQ"))
                obj.well.append(lasio.HeaderItem("GAIN", "0.5", 7, "a description that is by far the longest of this section " + "." * (case["seed"] % 30)))
                obj.params.append(lasio.HeaderItem("SCAL", "8.5", "a value that is by far the longest of this section " + "." * (case["seed"] % 30), "s"))
                ctx.count("inputs_with_decimal_number_units")
            if case["seed"] % 2:
                for it in obj.well:           # a ~Well section whose descriptions are short or empty
                    it.descr = it.descr[:case["seed"] % 3]
                ctx.count("inputs_with_short_well_descriptions")
            obj.write(b, version=case["gen_version"])
            source = b.getvalue()
            if case.get("dup_line"):
                # a steering line of ~Version stated twice (the items are then called WRAP:1 / WRAP:2)
                lines = source.split("\n")
                at = next(i for i, ln in enumerate(lines) if ln.split(".")[0].strip().upper() == case["dup_line"])
                lines.insert(at + 1, lines[at])
                source = "\n".join(lines)
                ctx.count("inputs_with_a_steering_line_twice")
            fresh = lambda: lasio.read(source, mnemonic_case=mc)
            fresh()
        except Exception as e:
            ctx.count("skipped_input_not_materialisable")
            return
        kind = "generated"
    elif case["input"] == "lit":
        source = case["text"]
        fresh = lambda: lasio.read(source, mnemonic_case=mc)
        kind = "generated"
        ctx.count("literal_inputs")
    else:
        path = os.path.join(env.REPO, case["input"])
        fresh = lambda: lasio.read(path, mnemonic_case=mc)
        kind = "corpus"
    outs = []
    x = None
    write_errors = []
    for cfg in (cfg1, cfg2):
        try:
            x = fresh()
        except Exception:
            ctx.count("skipped_unreadable_input")
            return
        b = io.StringIO()
        try:
            x.write(b, **_kw(cfg, f, len(x.curves)))
        except Exception as e:
            write_errors.append((cfg, e))
            continue
        t = b.getvalue()
        try:
            outs.append((t, lasio.read(t, mnemonic_case=mc), None))
        except Exception as e:
            outs.append((t, None, e))
    if write_errors:
        ctx.count("skipped_write_raised")
        ctx.seen("write_failures", "%s: %s" % (case["input"], type(write_errors[0][1]).__name__))
        # an input that can be written one way must be writable the other way too (a missing VERS / WRAP / STRT item raises
        # KeyError / AttributeError by design when the option that would replace it is left out: not judged)
        if len(write_errors) == 1 and not isinstance(write_errors[0][1], (KeyError, AttributeError)):
            ctx.violation("one-config-write-raises:%s" % type(write_errors[0][1]).__name__,
                          "write(%r) raised %r, the other configuration wrote the same input" % (write_errors[0][0], write_errors[0][1]),
                          {"input": case["input"], "seed": case.get("seed"), "cfg1": cfg1, "cfg2": cfg2})
        return
    (t1, r1, e1), (t2, r2, e2) = outs
    detail = {"input": case["input"], "seed": case.get("seed"), "cfg1": cfg1, "cfg2": cfg2, "fmt": f, "mnemonic_case": mc}
    ctx.count("pairs_source_case_" + mc)
    src = fresh()
    if e1 is not None and e2 is not None:
        ctx.count("pairs_both_unreadable")
        return
    text_blanks = any(np.asarray(c.data).dtype.kind in "USO" and any(" " in str(v).strip() or str(v).strip() == "" for v in np.asarray(c.data).tolist())
                      for c in src.curves)
    text_dates = any(np.asarray(c.data).dtype.kind in "USO" and any(re.search(r"\d-\d", str(v)) for v in np.asarray(c.data).tolist()) for c in src.curves)
    if (e1 is None) != (e2 is None) and text_dates and not text_blanks and bool(cfg1.get("wrap")) != bool(cfg2.get("wrap")):
        ctx.violation("one-config-unreadable:wrapped-text-samples-digit-hyphen-digit", "output of cfg%d cannot be re-read (%r), the other can" % (1 if e1 else 2, e1 or e2),
                      dict(detail, text=(t1 if e1 else t2)[:3000]))
        return
    if (e1 is None) != (e2 is None):
        key = "one-config-unreadable:text-curve-values-with-blanks-written-unquoted" if text_blanks else \
              "one-config-unreadable:%s" % type(e1 or e2).__name__
        ctx.violation(key, "output of cfg%d cannot be re-read (%r), the other can" % (1 if e1 else 2, e1 or e2),
                      dict(detail, text=(t1 if e1 else t2)[:3000]))
        return
    ctx.count("pairs_compared")
    ctx.count(kind + "_pairs")
    v1, v2 = cfg1.get("version"), cfg2.get("version")
    if v1 != v2:
        ctx.count("pairs_12_vs_20")
    if bool(cfg1.get("wrap")) != bool(cfg2.get("wrap")):
        ctx.count("pairs_wrap_vs_nowrap")
    if bool(cfg1.get("mnemonics_header")) != bool(cfg2.get("mnemonics_header")) and "column_fmt" in f:
        ctx.count("pairs_header_style_differs_with_column_fmt")
    names = [it.original_mnemonic.upper() for it in src.well]
    table = {"STRT", "STOP", "STEP", "NULL"}
    rich = len([n for n in names if n in table]) >= 1 and len([n for n in names if n not in table]) >= 2
    if rich and v1 != v2:
        ctx.count("pairs_with_table_and_other_well_items")
    if max((len(l) for l in (t1 + "\n" + t2).splitlines()), default=0) > 256 or (case.get("wide", 0) >= 24):
        ctx.count("pairs_with_rows_over_256_chars")
    c1, c2 = content(r1), content(r2)
    if c1 != c2:
        diffs = canon.diff(c1, c2)
        key = classify(diffs, src, cfg1, cfg2, text_blanks)
        ctx.violation(key, "re-reads differ: %s" % diffs[:4], dict(detail, text1=t1[:2500], text2=t2[:2500]))
    ctx.case_done([case["input"], case.get("seed"), sorted(cfg1.items()), sorted(cfg2.items()), case["fmt"], mc], nontrivial=t1 != t2 and rich)
    if t1 != t2 and rich:
        ctx.sample({"input": case["input"], "cfg1": cfg1, "cfg2": cfg2, "fmt": f, "well mnemonics": names[:10]}, limit=4)


def classify(diffs, src, cfg1, cfg2, text_blanks):
    if text_blanks:
        return "differ:text-curve-values-with-blanks-written-unquoted"
    first = diffs[0]
    cross = cfg1.get("version") != cfg2.get("version")
    m = re.match(r"/sections/([^/]+)/items(\[\d+\])?/?(\w+)?", first)
    if cross and m and m.group(1) == "Well" and colon_fields(src) and all(d.startswith("/sections/Well/") for d in diffs):
        return "differ:well-field-with-colon-splits-differently-in-1.2-and-2.0-layout"
    if m:
        sec = m.group(1) if m.group(1) in ("Version", "Well", "Curves", "Parameter") else "custom"
        return "differ:%s:%s:%s" % (sec, m.group(3) or "items", "cross-version" if cross else "same-version")
    if first.startswith("/curves"):
        return "differ:curve-data:%s" % ("wrap" if bool(cfg1.get("wrap")) != bool(cfg2.get("wrap")) else "other")
    return "differ:other"
