"""C18 — JSON, CSV, Excel, DataFrame and depth views carry the same values as the curves.

Each exporter's output is read back by an independent reader (strict json.loads, csv.reader,
openpyxl.load_workbook, pandas accessors) and compared with the canonical content of the LASFile:
numbers as numbers, text as text, NaN <-> null / empty cell."""
import csv
import io
import itertools
import json
import math
import os

import numpy as np

from rv import canon
from rv.gen import lasobj, lastext, secops

ID = "C18"
LEVEL = "exploration"
RULE = ("LASFiles from seeded specs with integer-, float-, text- and NaN-valued header items, float and text curves, duplicate / "
        "blank mnemonics, custom sections, built in memory or read back from text, plus empty LASFile() and corpus files; "
        "exporters: to_json/json (strict parser), to_csv over mnemonics {True, False, list} x units {True, False, list} x units_loc "
        "{line, [], ()} x csv kwargs (delimiter, quoting, lineterminator), to_excel (workbook re-opened with openpyxl), df() and "
        "set_data_from_df(df()); depth views for every spelling in DEPTH_UNITS in upper/lower/mixed case on STRT/STOP/STEP and the "
        "first curve, spellings outside the sets, and conflicting pairs. distinct = distinct (exporter, options, header value type "
        "mix, curve type mix); non-trivial = object with >= 2 curves and >= 1 numeric header value Added later: df round trips after deleting a duplicate, exports repeated after in-place edits, type-faithful df comparison (a float sample must come back as a number), infinities and float32 values in JSON. Hunter round 2: the json of every item and section (strict, values and samples), files without a ~Well section for the depth views, original mnemonics after the df round trip, LASFiles whose curves stack to a string array.")
ASSUMPTIONS = [
    "JSON layout as lasio documents it: {'metadata': {section: {session mnemonic: value} | text}, 'data': {session mnemonic: [samples]}}",
    "an empty string written to a workbook cell is read back as an empty cell (None)",
    "depth_m = depth_ft x 0.3048 is compared within 4 ulp",
]
REQUIRED = ["json_exports", "item_json_texts_checked", "json_integer_header_values", "json_text_curves", "json_nan_header_values", "json_object_curves_with_nan", "json_objects_with_infinities_and_float32", "json_infinite_values", "csv_exports", "csv_records_checked",
            "excel_exports", "excel_text_curves", "df_roundtrips", "csv_exports_with_numpy_bool_options", "df_objects_with_numeric_looking_text_curve", "df_objects_whose_curves_stack_to_a_string_array", "df_of_empty_object", "df_roundtrips_with_stale_suffixes", "exports_repeated_after_in_place_edits", "depth_unit_cases", "depth_conflict_cases", "depth_unrecognised_cases", "depth_cases_without_well_section", "depth_cases_mnemonic_case_lower", "depth_cases_mnemonic_case_preserve"]
SOFT_DEADLINE = {"quick": 100, "thorough": 1500}
LEVEL_TEXT = "Exploration with independent readers of every export format as oracles over generated and corpus objects."
LEVEL_NOTE = "Trusts json/csv/openpyxl/pandas as readers; export options outside the listed sets are not covered."
TECHNIQUE = "runtime monitoring: independent re-readers (strict JSON, csv, openpyxl, pandas) as oracles on every export of generated objects"

CSV_KW = [{}, {"delimiter": ";"}, {"delimiter": "\t"}, {"quoting": csv.QUOTE_NONNUMERIC}, {"lineterminator": "\r\n"}, {"quoting": csv.QUOTE_ALL}]


def grid(tier):
    k = 0
    for exporter in ("json", "csv", "df", "excel"):
        for rep in range(12 if tier == "quick" else 60):
            for via in (None, "text"):
                k += 1
                yield {"kind": exporter, "seed": k, "via": via, "textcurve": rep % 3 == 0, "csvopt": rep}
    yield {"kind": "json", "seed": 0, "empty": True}
    yield {"kind": "excel", "seed": 0, "empty": True}
    yield {"kind": "csv", "seed": 0, "empty": True, "csvopt": 0}
    yield {"kind": "csv", "seed": 0, "empty": True, "csvopt": 3}
    yield {"kind": "df", "seed": 0, "empty": True}
    # depth units
    import random
    lasio_units = {"FT": ("FT", "F", "FEET", "FOOT"), "M": ("M", "METER", "METERS", "METRE", "METRES", "метер", "м"), ".1IN": (".1IN", "0.1IN", ".1INCH", "0.1INCH")}
    for fam, sp in lasio_units.items():
        for u in sp:
            for case_fn in ("upper", "lower", "title"):
                for where in ("all", "curve_only", "well_only", "no_well_section"):
                    if u.startswith(".") and where in ("curve_only", "no_well_section"):
                        continue      # 'DEPT..1IN' in ~Curves is the documented double-dot ambiguity (C11 known finding), not a unit matter
                    yield {"kind": "depth", "family": fam, "unit": u, "case": case_fn, "where": where}
    for u in ("KM", "IN", "CM", "S", "MS", "", "ftUS", "METROS", "FTS", "1IN", "mm"):
        yield {"kind": "depth", "family": None, "unit": u, "case": "asis", "where": "all"}
        # a file without a ~Well section: the LASFile's default STRT/STOP/STEP items (unit m) are not in the file
        yield {"kind": "depth", "family": None, "unit": u, "case": "asis", "where": "no_well_section"}
    for u1, u2 in (("M", "FT"), ("FT", "M"), ("F", "METRES"), ("M", "0.1IN"), ("FEET", "0.1IN"), (".1IN", "M"), ("m", "ft"), ("Ft", "Metres"), ("METER", "F")):
        for cs in ("asis", "lower", "upper"):
            yield {"kind": "depth", "family": "conflict", "unit": u1, "unit2": u2, "case": cs, "where": "conflict"}
    import glob
    from rv import env
    for fn in sorted(glob.glob(os.path.join(env.REPO, "tests", "examples", "*.las")))[::3]:
        yield {"kind": "json", "corpus": os.path.relpath(fn, env.REPO), "seed": 0}
        yield {"kind": "csv", "corpus": os.path.relpath(fn, env.REPO), "seed": 0, "csvopt": 0}


def n_random(tier):
    return 500 if tier == "quick" else 12000


def random_case(rng, tier):
    kind = rng.choice(["json", "json", "csv", "csv", "df", "excel"] if tier == "thorough" else ["json", "json", "csv", "csv", "df", "df", "excel"])
    return {"kind": kind, "seed": rng.randrange(10 ** 9), "via": rng.choice([None, "text"]), "textcurve": rng.random() < 0.3, "csvopt": rng.randrange(1000)}


def make(ctx, case):
    import random
    lasio = ctx.lasio
    if case.get("empty"):
        return lasio.LASFile()
    if case.get("corpus"):
        from rv import env
        return lasio.read(os.path.join(env.REPO, case["corpus"]))
    rng = random.Random(case["seed"])
    spec = lasobj.rand_spec(rng, text_curve=1.0 if case.get("textcurve") else 0.0, max_curves=5, custom=0.3)
    # make sure the value classes of the statement are all present
    spec["params"] += [["RUN", "", 3, "integer value"], ["BS", "mm", 216.5, "float value"], ["MUD", "", "GEL CHEM", "text value"],
                       ["NOVAL", "m", None, "NaN value"], ["BIG", "", 2 ** 40, "big integer"]]
    spec["well"] += [["ELEV", "m", 1250, "integer elevation"]]
    if case.get("via") == "text" and not case.get("textcurve") and not spec.get("custom"):
        spec["params"] = [p for p in spec["params"] if p[2] is not None]
        spec["via_text"] = {"read": {"mnemonic_case": rng.choice(["upper", "preserve"])}}
    las = lasobj.build(lasio, spec)
    if case.get("kind") == "json" and case.get("seed", 0) % 3 == 0 and not spec.get("via_text"):
        # floats JSON has no literal for, and floats of other widths: the text must stay strict JSON all the same
        las.params.append(lasio.HeaderItem("PINF", "", float("inf"), "infinite value"))
        las.params.append(lasio.HeaderItem("NINF", "", np.float64("-inf"), "infinite value"))
        las.params.append(lasio.HeaderItem("F32", "", np.float32(2.5), "single precision value"))
        las.params.append(lasio.HeaderItem("N32", "", np.float32("nan"), "single precision NaN"))
        for c in list(las.curves)[1:2]:
            d = np.asarray(c.data)
            if d.dtype.kind == "f" and len(d) >= 2:
                d = d.copy()
                d[0], d[-1] = np.inf, -np.inf
                c.data = d
        if len(las.curves) >= 1 and np.asarray(las.curves[0].data).dtype.kind == "f":
            las.append_curve("SNGL", np.asarray(las.curves[0].data, dtype=np.float32) / 3, descr="float32 curve")
        ctx.count("json_objects_with_infinities_and_float32")
    if case.get("kind") == "df" and case.get("textcurve") and len(las.curves) and not spec.get("via_text"):
        # a text curve whose samples all look like numbers (codes with leading zeros): text stays text in the DataFrame
        n = len(las.curves[0].data)
        las.append_curve("CODE", np.array(["%03d" % (i + 1) for i in range(n)]), descr="text curve of numeric-looking codes")
        # the same kind of curve held as an object array of str (what pandas hands back, and what set_data_from_df(df()) stores)
        # (every other case: without it the curves stack to one array of *strings*, which pandas >= 3 infers as its "str" dtype)
        if case.get("seed", 0) % 2 == 0:
            las.append_curve("OCODE", np.array(["%02d" % (i + 7) for i in range(n)], dtype=object), descr="object array of numeric-looking text")
        else:
            ctx.count("df_objects_whose_curves_stack_to_a_string_array")
        ctx.count("df_objects_with_numeric_looking_text_curve")
    if case.get("textcurve") and rng.random() < 0.6 and len(las.curves) and not spec.get("via_text") and not (case.get("kind") == "df" and case.get("seed", 0) % 2 == 1):
        # an object-dtype curve mixing text and NaN (what a DataFrame with a missing text value produces)
        n = len(las.curves[0].data)
        vals = [("sand" if i % 2 else np.nan) for i in range(n)]
        las.append_curve("LITHO", np.array(vals, dtype=object), descr="object curve with NaN")
    return las


def run_case(case, ctx):
    kind = case["kind"]
    if kind == "depth":
        return run_depth(case, ctx)
    try:
        las = make(ctx, case)
    except Exception as e:
        ctx.count("objects_not_buildable")
        ctx.seen("build_failures", type(e).__name__)
        return
    runner = {"json": run_json, "csv": run_csv, "excel": run_excel, "df": run_df}[kind]
    runner(case, ctx, las)
    if case.get("seed", 0) % 2 == 1 and len(las.curves) >= 2:
        # the same object later in its life: samples edited in place and a header value changed after the first export -
        # the second export must show the object as it is now (every exporter is compared with the live object)
        edited = 0
        for c in list(las.curves)[1:]:
            d = c.data
            if isinstance(d, np.ndarray) and d.dtype.kind == "f" and len(d):
                d[0] = 4321.5 + edited
                d[-1] = float("nan")
                edited += 1
        if len(las.params):
            las.params[0].value = 77
        if edited:
            ctx.count("exports_repeated_after_in_place_edits")
            runner(dict(case, after_edit=True), ctx, las)


def typemix(las):
    kinds = set()
    for sec in las.sections.values():
        if isinstance(sec, str):
            continue
        for it in secops.raw_items(sec):
            kinds.add(canon.cval(it.value)[0])
    ck = {np.asarray(c.data).dtype.kind for c in las.curves}
    return sorted(kinds), sorted(ck)


def nontrivial(las):
    return len(las.curves) >= 2 and any(isinstance(it.value, (int, float, np.integer, np.floating)) for it in las.params)


# ---- JSON -------------------------------------------------------------------------------------------------------------
def _strict(s):
    def bad(c):
        raise ValueError("non-standard JSON constant %r" % c)
    return json.loads(s, parse_constant=bad)


def run_json(case, ctx, las):
    V = ctx.violation
    ctx.count("json_exports")
    hk, ck = typemix(las)
    detail = {"case": case, "header value kinds": hk, "curve dtype kinds": ck}
    try:
        text = las.to_json()
        text2 = las.json
    except Exception as e:
        key = "json-raised:text-curve" if any(k in "USO" for k in ck) else "json-raised:%s" % type(e).__name__
        if any(k in "USO" for k in ck):
            ctx.count("json_text_curves")
        V(key, "to_json() raised %r" % (e,), detail)
        return
    if text != text2:
        V("json-property-differs", ".json and to_json() differ", detail)
    try:
        doc = _strict(text)
    except Exception as e:
        V("json-not-strict", "a strict JSON parser rejects the output: %s ... %r" % (e, text[:200]), detail)
        return
    if not isinstance(doc, dict) or "metadata" not in doc or "data" not in doc:
        V("json-layout", "top level is %r" % (type(doc).__name__,), detail)
        return
    for name, sec in las.sections.items():
        got = doc["metadata"].get(name)
        if isinstance(sec, str):
            if got != sec:
                V("json-section-text", "section %r text differs" % name, detail)
            continue
        items = secops.raw_items(sec)
        sess = [it.mnemonic for it in items]
        if not isinstance(got, dict):
            V("json-section-missing", "metadata[%r] is %r" % (name, type(got).__name__), detail)
            continue
        for it in items:
            if sess.count(it.mnemonic) != 1:
                continue
            if it.mnemonic not in got:
                V("json-header-value-missing", "metadata[%r] lacks %r" % (name, it.mnemonic), detail)
                continue
            g, v = got[it.mnemonic], it.value
            cv = canon.cval(v)
            if cv[0] == "int":
                ctx.count("json_integer_header_values")
                ok = isinstance(g, int) and not isinstance(g, bool) and g == cv[1]
            elif cv[0] == "num" and math.isinf(cv[1]):
                ctx.count("json_infinite_values")
                ok = g is None or (isinstance(g, str) and "inf" in g.lower())       # no JSON number exists for it: null (or its name), never a bare Infinity
            elif cv[0] == "num":
                ok = isinstance(g, (int, float)) and not isinstance(g, bool) and float(g) == cv[1]
            elif cv[0] == "nan":
                ctx.count("json_nan_header_values")
                ok = g is None
            elif cv[0] == "str":
                ok = g == cv[1]
            elif cv[0] == "none":
                ok = g is None
            else:
                ok = True
            if not ok:
                V("json-header-value:%s" % cv[0], "metadata[%r][%r] is %r, the item's value is %r (%s)" % (name, it.mnemonic, g, v, type(v).__name__), detail)
    keys = [c.mnemonic for c in las.curves]
    for c in las.curves:
        if keys.count(c.mnemonic) != 1:
            continue
        got = doc["data"].get(c.mnemonic)
        data = np.asarray(c.data)
        if data.dtype.kind in "USO":
            ctx.count("json_text_curves")
        want = [None if (isinstance(x, float) and math.isnan(x)) else x for x in data.tolist()]
        if data.dtype.kind == "O" and any(w is None for w in want):
            ctx.count("json_object_curves_with_nan")
        if not isinstance(got, list) or len(got) != len(want) or any(not _same(a, b) for a, b in zip(got, want)):
            V("json-curve-samples", "data[%r] = %r, curve holds %r" % (c.mnemonic, (got or [])[:6] if isinstance(got, list) else got, want[:6]), detail)
    # ---- the json views of the parts: every item, every section (a JSON list of the items' texts) ------------------------------------
    for name, sec in las.sections.items():
        if isinstance(sec, str):
            continue
        try:
            inner = _strict(sec.json)
            docs = [_strict(t) for t in inner]
        except Exception as e:
            V("item-json-not-strict", "%s.json (a list of its items' json texts) is not strict JSON throughout: %s" % (name, e), detail)
            continue
        items = secops.raw_items(sec)
        if len(docs) != len(items):
            V("item-json-count", "%s.json lists %d items, the section holds %d" % (name, len(docs), len(items)), detail)
            continue
        for it, dct in zip(items, docs):
            ctx.count("item_json_texts_checked")
            try:
                own = _strict(it.json)
            except Exception as e:
                V("item-json-not-strict", "%s[%r].json is not strict JSON: %s" % (name, it.mnemonic, e), detail)
                continue
            if own != dct:
                V("item-json-differs-from-section-json", "%s[%r].json differs from its entry in the section's json" % (name, it.mnemonic), detail)
            cv = canon.cval(it.value)
            g = own.get("value", "<absent>")
            if cv[0] in ("nan", "none") or (cv[0] == "num" and math.isinf(cv[1])):
                ok = g is None
            elif cv[0] in ("int", "num"):
                ok = isinstance(g, (int, float)) and not isinstance(g, bool) and float(g) == float(cv[1])
            elif cv[0] == "str":
                ok = g == cv[1]
            else:
                ok = True
            if not ok or own.get("mnemonic") != it.original_mnemonic or own.get("unit") != it.unit or own.get("descr") != it.descr:
                V("item-json-fields", "%s[%r].json says %r, the item holds (%r, %r, %r, %r)" % (name, it.mnemonic, own, it.original_mnemonic, it.unit, it.value, it.descr), detail)
            if type(it).__name__ == "CurveItem":
                data = np.asarray(it.data)
                want = [None if (isinstance(x, float) and math.isnan(x)) else x for x in data.tolist()]
                got = own.get("data")
                if not isinstance(got, list) or len(got) != len(want) or any(not _same(a, b) for a, b in zip(got, want)):
                    V("item-json-curve-samples", "%s[%r].json data = %r, the curve holds %r" % (name, it.mnemonic, (got or [])[:6] if isinstance(got, list) else got, want[:6]), detail)
    ctx.case_done(["json", hk, ck, case.get("via"), bool(case.get("empty"))], nontrivial(las))
    ctx.sample({"exporter": "json", "header value kinds": hk, "curve dtype kinds": ck, "json head": text[:200]}, limit=2)


def _same(a, b):
    if isinstance(b, float) and math.isinf(b):
        return a is None or (isinstance(a, str) and "inf" in a.lower())
    if a is None or b is None:
        return a is None and b is None
    if isinstance(b, str) or isinstance(a, str):
        return a == b
    return float(a) == float(b)


# ---- CSV --------------------------------------------------------------------------------------------------------------------
def run_csv(case, ctx, las):
    import random
    V = ctx.violation
    rng = random.Random(case.get("csvopt", 0))
    n = len(las.curves)
    mn = rng.choice([True, True, False, ["m%d" % i for i in range(n)]])
    un = rng.choice([True, True, False, ["u%d" % i for i in range(n)]])
    numpy_bools = case.get("csvopt", 0) % 4 == 3       # the same choices as numpy bools (what comparisons of arrays yield)
    loc = rng.choice(["line", "line", "[]", "()"])
    kw = dict(rng.choice(CSV_KW))
    if case.get("empty") or n == 0:
        # "empty files": no curves, hence no depth steps - to_csv() has nothing to emit, and must not fail
        ctx.count("csv_exports_empty_object")
        buf = io.StringIO()
        try:
            las.to_csv(buf, mnemonics=mn if isinstance(mn, bool) else True, units=un if isinstance(un, bool) else True, units_loc=loc, **kw)
        except Exception as e:
            V("csv-raised-on-empty-object:%s" % type(e).__name__, "to_csv() of a LASFile without curves raised %r" % (e,), {"case": case})
            return
        rows = [r for r in csv.reader(io.StringIO(buf.getvalue(), newline="")) if any(x.strip() for x in r)]
        if rows:
            V("csv-records-for-empty-object", "to_csv() of a LASFile without curves wrote %r" % (rows[:3],), {"case": case})
        return
    lens = {len(c.data) for c in las.curves}
    if len(lens) != 1:
        return
    ctx.count("csv_exports")
    buf = io.StringIO()
    detail = {"case": case, "mnemonics": mn, "units": un, "units_loc": loc, "csv kwargs": {k: str(v) for k, v in kw.items()}}
    try:
        if numpy_bools:
            ctx.count("csv_exports_with_numpy_bool_options")
        las.to_csv(buf, mnemonics=np.bool_(mn) if numpy_bools and isinstance(mn, bool) else mn,
                   units=np.bool_(un) if numpy_bools and isinstance(un, bool) else un, units_loc=loc, **kw)
    except Exception as e:
        V("csv-raised:%s" % type(e).__name__, "to_csv raised %r" % (e,), detail)
        return
    text = buf.getvalue()
    rd = {k: v for k, v in kw.items() if k in ("delimiter", "quoting", "lineterminator")}
    rows = list(csv.reader(io.StringIO(text, newline=""), **rd))
    exp_head = []
    m_row = [c.original_mnemonic for c in las.curves] if mn is True else (list(mn) if mn else None)
    u_row = [c.unit for c in las.curves] if un is True else (list(un) if un else None)
    if m_row is not None:
        if loc in ("()", "[]") and u_row:
            exp_head.append(["%s %s%s%s" % (m, loc[0], u, loc[1]) for m, u in zip(m_row, u_row)])
        else:
            exp_head.append(m_row)
    if u_row is not None and loc == "line":
        exp_head.append(u_row)
    nrows = lens.pop()
    if len(rows) != len(exp_head) + nrows:
        V("csv-record-count", "%d records, expected %d header + %d depth steps" % (len(rows), len(exp_head), nrows), dict(detail, text=text[:800]))
        return
    for got, want in zip(rows, exp_head):
        if [str(x) for x in got] != [str(x) for x in want]:
            V("csv-header-row", "header row %r, expected %r" % (got, want), dict(detail, text=text[:800]))
    for i in range(nrows):
        rec = rows[len(exp_head) + i]
        ctx.count("csv_records_checked")
        if len(rec) != n:
            V("csv-field-count", "record %d has %d fields for %d curves" % (i, len(rec), n), dict(detail, text=text[:800]))
            break
        for j, c in enumerate(las.curves):
            x = np.asarray(c.data)[i]
            f = rec[j]
            if isinstance(x, (float, np.floating)):
                try:
                    y = float(f)
                except (TypeError, ValueError):
                    V("csv-field-not-numeric", "record %d field %d is %r for sample %r" % (i, j, f, x), dict(detail, text=text[:800]))
                    break
                if not (y == float(x) or (math.isnan(y) and math.isnan(float(x)))):
                    V("csv-field-value", "record %d field %d parses to %r, the curve holds %r" % (i, j, y, x), dict(detail, text=text[:800]))
                    break
            elif str(f) != str(x):
                V("csv-text-field", "record %d field %d is %r, the curve holds %r" % (i, j, f, x), dict(detail, text=text[:800]))
                break
    ctx.case_done(["csv", str(type(mn).__name__) + str(mn is True), str(type(un).__name__) + str(un is True), loc, sorted(kw), typemix(las)[1]], nontrivial(las))
    ctx.sample({"exporter": "csv", "mnemonics": mn, "units": un, "units_loc": loc, "first rows": rows[:3]}, limit=2)


# ---- Excel ------------------------------------------------------------------------------------------------------------------
def run_excel(case, ctx, las):
    import openpyxl
    V = ctx.violation
    hk, ck = typemix(las)
    detail = {"case": case, "curve dtype kinds": ck}
    os.makedirs(ctx.scratch, exist_ok=True)
    path = os.path.join(ctx.scratch, "c18-%d.xlsx" % (case["seed"] % 100000))
    ctx.count("excel_exports")
    if any(k in "USO" for k in ck):
        ctx.count("excel_text_curves")
    try:
        las.to_excel(path)
    except Exception as e:
        key = "excel-raised:text-curve" if any(k in "USO" for k in ck) else "excel-raised:%s" % type(e).__name__
        V(key, "to_excel raised %r" % (e,), detail)
        return
    try:
        wb = openpyxl.load_workbook(path)
    finally:
        try:
            os.unlink(path)
        except OSError:
            pass
    if wb.sheetnames != ["Header", "Curves"]:
        V("excel-sheets", "sheets %r" % wb.sheetnames, detail)
        return
    rows = [list(r) for r in wb["Header"].iter_rows(values_only=True)]
    want = []
    for title, sec in (("~Version", las.version), ("~Well", las.well), ("~Parameter", las.params), ("~Curves", las.curves)):
        for it in secops.raw_items(sec):
            want.append((title, it.mnemonic, it.unit, it.value, it.descr))
    body = rows[1:]
    if len(body) != len(want):
        V("excel-header-item-count", "Header sheet lists %d items, the sections hold %d" % (len(body), len(want)), detail)
    else:
        for got, w in zip(body, want):
            ok = got[0] == w[0] and (got[1] or "") == w[1] and (got[2] or "") == (w[2] or "") and (got[4] or "") == (w[4] or "") and _xl_same(got[3], w[3])
            if not ok:
                V("excel-header-item", "Header row %r, item %r" % (got, w), detail)
                break
    crows = [list(r) for r in wb["Curves"].iter_rows(values_only=True)]
    n = len(las.curves)
    if n:
        if not crows or [x or "" for x in crows[0][:n]] != [c.mnemonic for c in las.curves]:
            V("excel-curve-names", "Curves sheet header %r" % (crows[0] if crows else None), detail)
        for j, c in enumerate(las.curves):
            data = np.asarray(c.data).tolist()
            col = [r[j] if j < len(r) else None for r in crows[1:]]
            col += [None] * (len(data) - len(col))
            for i, x in enumerate(data):
                g = col[i]
                if isinstance(x, float) and math.isnan(x):
                    ok = g in (None, "")
                elif isinstance(x, (int, float)):
                    # openpyxl serialises floats with 16 significant digits: allow that much
                    ok = isinstance(g, (int, float)) and abs(float(g) - float(x)) <= 4e-16 * max(1.0, abs(float(x)))
                else:
                    ok = str(g) == str(x)
                if not ok:
                    V("excel-sample", "Curves sheet cell (%d,%d) is %r, the curve holds %r" % (i, j, g, x), detail)
                    break
    ctx.case_done(["excel", hk, ck, case.get("via")], nontrivial(las))


def _xl_same(g, v):
    cv = canon.cval(v)
    if cv[0] in ("int", "num"):
        return isinstance(g, (int, float)) and abs(float(g) - float(cv[1])) <= 4e-16 * max(1.0, abs(float(cv[1])))
    if cv[0] == "nan":
        return True
    if cv[0] == "str":
        return (g or "") == cv[1] or (isinstance(g, (int, float)) and False)
    return True


# ---- DataFrame ----------------------------------------------------------------------------------------------------------------
def run_df(case, ctx, las):
    import copy
    _run_df(case, ctx, las)
    # the same object after the first member of a duplicate family has been deleted: the survivors keep ':2', ':3'
    stale = copy.deepcopy(las)
    items = secops.raw_items(stale.curves)
    hit = next((i for i, it in enumerate(items) if it.mnemonic.endswith(":1") and i > 0), None)
    if hit is not None and len(items) > 2:
        stale.delete_curve(ix=hit)
        ctx.count("df_roundtrips_with_stale_suffixes")
        _run_df(dict(case, stale_suffix=True), ctx, stale)


def _run_df(case, ctx, las):
    import copy
    V = ctx.violation
    if len(las.curves) == 0:
        ctx.count("df_of_empty_object")
        try:
            df = las.df()
        except Exception as e:
            V("df-raised-on-empty-object:%s" % type(e).__name__, "df() of a LASFile without curves raised %r" % (e,), {"case": case})
            return
        if df.shape[0] != 0 or df.shape[1] != 0:
            V("df-not-empty-for-empty-object", "df() of a LASFile without curves has shape %r" % (df.shape,), {"case": case})
        return
    if len({len(c.data) for c in las.curves}) != 1:
        return
    keys = las.keys()
    if len(set(keys)) != len(keys):
        return
    detail = {"case": case, "keys": keys}
    try:
        df = las.df()
    except Exception as e:
        V("df-raised:%s" % type(e).__name__, "df() raised %r" % (e,), detail)
        return
    if df.index.name != keys[0] or list(df.columns) != keys[1:]:
        V("df-labels", "index %r columns %r, curves %r" % (df.index.name, list(df.columns), keys), detail)
        return
    if not _col_same(df.index.values, list(las.curves)[0].data):
        V("df-index-values", "the DataFrame index differs from the first curve", detail)
    for k, c in zip(keys[1:], list(las.curves)[1:]):
        if not _col_same(df[k].values, c.data):
            V("df-column-values", "column %r differs from its curve: %r vs %r" % (k, df[k].values[:5], np.asarray(c.data)[:5]), detail)
    ctx.count("df_roundtrips")
    other = copy.deepcopy(las)
    for c in other.curves:
        if np.asarray(c.data).dtype.kind == "f":
            c.data = np.zeros(len(c.data))
    try:
        other.set_data_from_df(df)
    except Exception as e:
        V("set-data-from-df-raised:%s" % type(e).__name__, "set_data_from_df(df()) raised %r" % (e,), detail)
        return
    if other.keys() != keys:
        V("df-roundtrip-names", "set_data_from_df(df()) gives curves %r, expected %r" % (other.keys(), keys), detail)
    elif [c.original_mnemonic for c in list.__iter__(other.curves)] != [c.original_mnemonic for c in list.__iter__(las.curves)]:
        # the names the curves are written and exported under (two curves RES stay RES, not RES:1 and RES:2)
        V("df-roundtrip-original-names", "set_data_from_df(df()) leaves original mnemonics %r, they were %r" % (
            [c.original_mnemonic for c in list.__iter__(other.curves)], [c.original_mnemonic for c in list.__iter__(las.curves)]), detail)
    else:
        for a, b in zip(other.curves, las.curves):
            if not _col_same(a.data, b.data):
                V("df-roundtrip-values", "curve %r after set_data_from_df(df()) holds %r, expected %r" % (b.mnemonic, np.asarray(a.data)[:5], np.asarray(b.data)[:5]), detail)
                break
    ctx.case_done(["df", typemix(las)[1], len(keys), case.get("via"), bool(case.get("stale_suffix"))], nontrivial(las))


def _col_same(a, b):
    a, b = np.asarray(a).tolist(), np.asarray(b).tolist()
    if len(a) != len(b):
        return False
    for x, y in zip(a, b):
        fx, fy = isinstance(x, float), isinstance(y, float)
        if fx and fy:
            if not (x == y or (math.isnan(x) and math.isnan(y))):
                return False
        elif fy:
            return False          # the curve holds a float here: "equal values" means a number, not its text ('2.5', 'nan')
        elif fx and isinstance(y, str):
            return False          # the curve holds text here ('001'): its number (1.0) is not an equal value
        elif fx:
            try:
                if float(x) != float(y) and not (math.isnan(float(x)) and math.isnan(float(y))):
                    return False
            except (TypeError, ValueError):
                return False
        elif str(x) != str(y):
            return False
    return True


# ---- depth views ----------------------------------------------------------------------------------------------------------------
def run_depth(case, ctx):
    lasio = ctx.lasio
    V = ctx.violation
    u = case["unit"]
    u = {"upper": u.upper(), "lower": u.lower(), "title": u.title(), "asis": u}[case["case"]]
    where = case["where"]
    wu = u if where in ("all", "well_only") else ""
    cu = u if where in ("all", "curve_only", "no_well_section") else ""
    if where == "conflict":
        f = {"upper": str.upper, "lower": str.lower, "title": str.title, "asis": str}[case["case"]]
        wu, cu = f(case["unit"]), f(case["unit2"])
    text = ("~Version\nVERS. 2.0 : v\nWRAP. NO : w\n~Well\nSTRT.%s 1000.0 : s\nSTOP.%s 1001.0 : s\nSTEP.%s 0.5 : s\nNULL. -999.25 : n\n"
            "~Curves\nDEPT.%s : depth\nGR.GAPI : gamma\n~ASCII\n1000.0 50.5\n1000.5 51.5\n1001.0 52.5\n") % (wu, wu, wu, cu)
    if where == "no_well_section":
        text = text[:text.index("~Well")] + text[text.index("~Curves"):]
        ctx.count("depth_cases_without_well_section")
    mc = ["upper", "lower", "preserve"][(len(u) + len(where) + len(case["case"])) % 3]
    ctx.count("depth_cases_mnemonic_case_" + mc)
    detail = {"unit": u, "where": where, "text": text, "mnemonic_case": mc}
    try:
        las = lasio.read(text, mnemonic_case=mc)
    except Exception as e:
        V("depth-read-raised", "read raised %r" % (e,), detail)
        return
    fam = case["family"]
    idx = np.array([1000.0, 1000.5, 1001.0])

    def views():
        out = {}
        for name in ("depth_m", "depth_ft"):
            try:
                out[name] = np.asarray(getattr(las, name), dtype=float)
            except lasio.exceptions.LASUnknownUnitError:
                out[name] = None
        return out
    v = views()
    if fam in (None, "conflict"):
        ctx.count("depth_conflict_cases" if fam == "conflict" else "depth_unrecognised_cases")
        if v["depth_m"] is not None or v["depth_ft"] is not None:
            V("depth-defined-for-%s-unit" % ("conflicting" if fam == "conflict" else "unrecognised"),
              "index_unit=%r, depth views are defined for units well=%r curve=%r" % (las.index_unit, wu, cu), detail)
    else:
        ctx.count("depth_unit_cases")
        if v["depth_m"] is None or v["depth_ft"] is None:
            V("depth-unit-not-recognised:%s:%s" % (fam, "ascii" if u.isascii() else "non-ascii"),
              "unit %r (%s, %s) is not recognised: index_unit=%r" % (u, case["case"], where, las.index_unit), detail)
        else:
            want_ft = {"FT": idx, "M": idx / 0.3048, ".1IN": idx / 120.0}[fam]
            tol = 4 * np.spacing(np.abs(want_ft))
            if np.any(np.abs(v["depth_ft"] - want_ft) > tol):
                V("depth-ft-wrong:%s" % fam, "depth_ft = %r for index %r in %r" % (v["depth_ft"].tolist(), idx.tolist(), u), detail)
            if np.any(np.abs(v["depth_m"] - v["depth_ft"] * 0.3048) > 4 * np.spacing(np.abs(v["depth_m"]))):
                V("depth-m-ft-inconsistent:%s" % fam, "depth_m = %r but depth_ft x 0.3048 = %r" % (v["depth_m"].tolist(), (v["depth_ft"] * 0.3048).tolist()), detail)
    ctx.case_done(["depth", fam, u, where], nontrivial=True)
