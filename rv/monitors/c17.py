"""C17 — pickle and deepcopy reproduce a LASFile exactly, duplicates included.

For every generated / corpus LASFile, the LASFile itself, each of its sections and each of its items
is sent through pickle (protocols 0..5) and copy.deepcopy; the copy's canonical state (session and
original mnemonics, unit, value, descr, arrays, dtypes, index unit, case-normalisation flag) and its
write() output are compared with the original's, and the copy is then mutated in every field while
the original is re-snapshotted."""
import copy
import glob
import io
import os
import pickle

import numpy as np

from rv import canon, env
from rv.gen import lasobj, secops

ID = "C17"
LEVEL = "exploration"
RULE = ("objects = LASFiles built in memory or read back from text (mnemonic_case preserve/upper/lower) from seeded "
        "specs with duplicated, blank and case-variant mnemonics in ~W/~P/~C/custom sections, float and text curves, "
        "string curves whose samples all look numeric, post-deletion states with stale suffixes, a deterministic grid of duplicate layouts, and every readable corpus file; each object x {pickle protocol "
        "0..5, deepcopy} x {whole LASFile, every section, every item}. distinct = distinct (object spec, method); "
        "non-trivial = object with at least one disambiguated (duplicate or blank) mnemonic Added later: identity-sensitive header values (the np.nan object, fresh NaNs, None, bools, numpy scalars), re-ordered / aliased column views, names assigned after construction, pickle's pure-Python unpickler. Round 8: objects in which two items answer to one session name.")
ASSUMPTIONS = ["write() output is compared only when the original itself can be written",
               "observable equality = canonical snapshot (rv/canon.py) + write() text; identity of objects is not required"]
REQUIRED = ["copies_compared", "objects_with_edited_index", "objects_with_disambiguated_mnemonic", "independence_checks", "write_text_comparisons",
            "item_copies", "section_copies", "items_with_identity_sensitive_value", "objects_with_reordered_or_aliased_curve_arrays"]
SOFT_DEADLINE = {"quick": 90, "thorough": 1200}
LEVEL_TEXT = ("Exploration: every copy made is compared field by field and by write() output with its source, and "
              "mutated to prove independence; workload aims at disambiguated mnemonics in every section kind.")
LEVEL_NOTE = "Trusts pickle/copy of the standard library and numpy array equality; objects outside the generators' classes are not covered."
TECHNIQUE = "runtime monitoring: round-trip oracle (canonical snapshot + write() text + mutation independence) on every copy of generated and corpus objects"

METHODS = ["pickle0", "pickle1", "pickle2", "pickle3", "pickle4", "pickle5", "deepcopy",
           "purepy-pickle2", "purepy-pickle5"]      # pickle's own pure-Python unpickler (what pickle.loads is where the C accelerator is missing)

GRID_SPECS = []
for sect in ("well", "params", "curves", "custom"):
    for names in (["RES", "RES"], ["", ""], ["RES", "res", "Res"], ["A", "", "A", ""], ["X"], ["RES", "RES", "RES"]):
        GRID_SPECS.append((sect, names))


def grid(tier):
    import random
    for k in range(72):
        rng = random.Random("C17grid%d" % k)
        spec = lasobj.rand_spec(rng, text_curve=0.0, min_curves=3, custom=0.0)
        if len(spec["curves"][0][4]) < 4:
            for c in spec["curves"]:
                c[4] = (c[4] * 4)[:4]
            spec["curves"][0][4] = [100.0 + 0.5 * i for i in range(4)]
        variant = ["numeric_text_curve", "stale_suffix", "edited_index", "padded_names", "singleton_values", "reordered_views", "session_name_clash"][k % 7]
        yield {"kind": "spec", "spec": spec, "via": "upper" if variant == "edited_index" else ("preserve" if variant == "reordered_views" and k % 4 < 2 else None), "methods": METHODS, "variant": variant}
    for sect, names in GRID_SPECS:
        for via in (None, "preserve", "upper", "lower"):
            yield {"kind": "layout", "section": sect, "names": names, "via": via}
    for fn in sorted(glob.glob(os.path.join(env.REPO, "tests", "examples", "**", "*.las"), recursive=True)):
        yield {"kind": "corpus", "file": os.path.relpath(fn, env.REPO)}


def n_random(tier):
    return 400 if tier == "quick" else 8000


def random_case(rng, tier):
    spec = lasobj.rand_spec(rng)
    via = rng.choice([None, None, "preserve", "upper", "lower"])
    return {"kind": "spec", "spec": spec, "via": via, "methods": rng.sample(METHODS, 3), "seed_variant": rng.randrange(8)}


def layout_spec(section, names):
    spec = {"well": [], "params": [], "other": "o", "null": -999.25, "custom": {},
            "curves": [["DEPT", "m", "", "depth", [1.0, 1.5, 2.0]], ["GR", "gAPI", "", "gamma", [10.0, None, 12.0]]]}
    items = [[n, "u", "v%d" % i, "d%d" % i] for i, n in enumerate(names)]
    if section == "curves":
        spec["curves"] += [[n, "u", "", "c%d" % i, [float(i), float(i) + 0.5, None]] for i, n in enumerate(names)]
    elif section == "custom":
        spec["custom"] = {"Extra": items}
    else:
        spec[section] = items
    return spec


def text_can_carry(spec):
    """A blank mnemonic survives a file only on a line without a further period."""
    def bad(it):
        return it[0].strip() == "" and any("." in str(x) for x in it[1:4])
    return not any(bad(it) for sec in ("well", "params") for it in spec.get(sec, [])) and \
        not any(bad(it) for it in spec.get("curves", [])) and \
        not any(bad(it) for items in spec.get("custom", {}).values() for it in items)


def make(method, obj):
    if method == "deepcopy":
        return copy.deepcopy(obj)
    if method.startswith("purepy-"):
        return pickle._loads(pickle._dumps(obj, int(method[-1])))
    return pickle.loads(pickle.dumps(obj, int(method[-1])))


def run_case(case, ctx):
    lasio = ctx.lasio
    methods = METHODS
    if case["kind"] == "corpus":
        try:
            las = lasio.read(os.path.join(env.REPO, case["file"]))
        except Exception:
            ctx.count("corpus_unreadable")
            return
        ctx.count("corpus_files")
        rebuild = lambda: lasio.read(os.path.join(env.REPO, case["file"]))
        sig = ["corpus", case["file"]]
        methods = ["pickle2", "pickle5", "deepcopy", "purepy-pickle2"]
    else:
        spec = case["spec"] if case["kind"] == "spec" else layout_spec(case["section"], case["names"])
        spec = dict(spec)
        via = case.get("via")
        if via and (case["kind"] == "layout" or text_can_carry(spec)) and not _has_custom_or_textcurve(spec):
            spec["via_text"] = {"read": {"mnemonic_case": via}}
        methods = case.get("methods", METHODS)
        variant = case.get("variant") or ("none" if case["kind"] == "layout" else ["none", "numeric_text_curve", "stale_suffix", "edited_index", "padded_names", "singleton_values", "reordered_views", "session_name_clash"][case.get("seed_variant", 0) % 8])

        def rebuild():
            las = lasobj.build(lasio, spec)
            if variant == "numeric_text_curve" and len(las.curves) >= 2:
                c = las.curves[1]
                if np.asarray(c.data).dtype.kind == "f":
                    # a *string* curve whose samples all look numeric, assigned directly (as read(dtypes=str) or update_curve do)
                    c.data = np.array(["%.2f" % x if x == x else "nan" for x in np.asarray(c.data, dtype=float)])
            if variant == "edited_index" and las.index_initial is not None and len(las.curves) and len(las.index) >= 3:
                # the index was edited after the read (top row cropped), the last sample still equals the header STOP
                if all(np.asarray(c.data).dtype.kind == "f" for c in las.curves):
                    las.set_data(las.data[1:])
            if variant == "padded_names":
                # names assigned after construction: whitespace-only blanks and names with surrounding blanks
                if len(las.curves) >= 2:
                    las.curves[-1].mnemonic = "  "
                    las.curves[1].mnemonic = " RT"
                if len(las.params):
                    las.params[0].mnemonic = "PAD  "
                las.params.append(lasio.HeaderItem("X", "", 1, "renamed to blanks"))
                las.params[-1].mnemonic = "   "
                for sec in (las.curves, las.params):
                    sec.assign_duplicate_suffixes()
            if variant == "singleton_values":
                # values whose *identity* a copy cannot keep (the np.nan object, a fresh float NaN, None, bools, numpy scalars)
                vals = [np.nan, float("nan"), None, True, False, np.float64("nan"), np.int64(3), np.float64(0.0), 10 ** 20, ""]
                for k, v in enumerate(vals):
                    las.well.append(lasio.HeaderItem("SV%d" % k, ["DEGC", ""][k % 2], v, "singleton %d" % k))
                    las.params.append(lasio.HeaderItem("SP%d" % k, ["", "DEGC"][k % 2], v, "singleton %d" % k))
                    ctx.count("items_with_identity_sensitive_value", 2)
                if len(las.curves) >= 2:
                    las.curves[1].value = np.nan
            if variant == "reordered_views" and len(las.curves) >= 3:
                # curves that are column views of the block a read produced (or owners after set_data), then re-ordered and aliased:
                # the copy owns fresh arrays, the original still points into the old block
                if all(np.asarray(c.data).dtype.kind == "f" for c in las.curves):
                    if case.get("seed_variant", 0) % 2 == 0 and not via:
                        las.set_data(np.array(las.data, copy=True))
                    item = las.curves[1]
                    las.delete_curve(ix=1)
                    las.append_curve_item(item)
                    las.curves[1].data = las.curves[2].data
                    ctx.count("objects_with_reordered_or_aliased_curve_arrays")
            if variant == "session_name_clash":
                # a curve and a parameter renamed onto names already in use (the documented way to rename is the attribute): two items
                # then answer to one session name; a copy has to carry exactly these names, not renumber them
                if len(las.curves) >= 3:
                    list.__getitem__(las.curves, 2).mnemonic = list.__getitem__(las.curves, 1).original_mnemonic
                if len(las.params) >= 2:
                    list.__getitem__(las.params, 1).mnemonic = list.__getitem__(las.params, 0).original_mnemonic
                ctx.count("objects_with_two_items_under_one_session_name")
            if variant == "stale_suffix":
                # delete the first member of every duplicate family: the survivors keep their (now stale) suffixes
                for sec in las.sections.values():
                    if isinstance(sec, str):
                        continue
                    items = secops.raw_items(sec)
                    for i, it in enumerate(items):
                        if it.mnemonic.endswith(":1") and len(items) > 2:
                            del sec[i]
                            break
            return las
        try:
            las = rebuild()
        except Exception as e:
            ctx.count("spec_not_buildable")
            return
        sig = [case.get("section"), case.get("names"), via] if case["kind"] == "layout" else ["spec", ctx.current_index]
    if las.index_initial is not None and len(las.curves) and not canon.arrays_equal(las.index_initial, las.index):
        ctx.count("objects_with_edited_index")
    disamb = any(it.mnemonic != it.original_mnemonic for sec in las.sections.values() if not isinstance(sec, str)
                 for it in secops.raw_items(sec))
    if disamb:
        ctx.count("objects_with_disambiguated_mnemonic")
    for method in methods:
        check_object(ctx, rebuild, method, case)
        ctx.case_done(sig + [method], nontrivial=disamb)
    if disamb:
        ctx.sample({"case": case, "curve session names": las.keys()})


def _has_custom_or_textcurve(spec):
    return bool(spec.get("custom")) or any(any(isinstance(x, str) for x in c[4]) for c in spec.get("curves", []))


def classify(src_snap, cpy_snap):
    """Mechanism key for a difference between source and copy snapshots."""
    def items_of(s):
        for name, sec in s.get("sections", {}).items():
            for it in sec.get("items", []):
                yield it
        for it in s.get("items", []):
            yield it
        if "original" in s:
            yield s
    a, b = list(items_of(src_snap)), list(items_of(cpy_snap))
    if len(a) == len(b):
        for x, y in zip(a, b):
            if x["original"] != y["original"] and y["original"] == x["mnemonic"]:
                return "copy-original-mnemonic-replaced-by-session-name"
        for x, y in zip(a, b):
            if x["original"] == y["original"] and x["mnemonic"] != y["mnemonic"]:
                return "copy-session-mnemonic-differs"
    return "copy-differs"


def check_object(ctx, rebuild, method, case):
    lasio = ctx.lasio
    V = ctx.violation
    las = rebuild()
    # 1. copy first, then write both (each write() is then the first write of its object, so the
    #    documented in-memory refreshes of write() apply to both sides alike)
    snap = canon.clas(las)
    try:
        cpy = make(method, las)
    except Exception as e:
        V("copy-raises:%s" % type(e).__name__, "%s of a LASFile raised %r" % (method, e))
        return
    ctx.count("copies_compared")
    try:
        cpy = make(method, cpy)          # a copy of the copy must still be the same thing
    except Exception as e:
        V("copy-raises:%s" % type(e).__name__, "%s of a %s copy raised %r" % (method, method, e))
        return
    csnap = canon.clas(cpy)
    if csnap != snap:
        V(classify(snap, csnap), "%s copy differs: %s" % (method, canon.diff(snap, csnap)[:4]))
    ii_src, ii_cpy = getattr(las, "index_initial", None), getattr(cpy, "index_initial", None)
    if (ii_src is None) != (ii_cpy is None) or (ii_src is not None and not canon.arrays_equal(ii_src, ii_cpy)):
        V("copy-index-initial-differs", "%s copy does not carry the index as read (index_initial): %r vs %r" % (
            method, None if ii_src is None else np.asarray(ii_src)[:4].tolist(), None if ii_cpy is None else np.asarray(ii_cpy)[:4].tolist()))
    if canon.clas(las) != snap:
        V("copying-changed-source", "%s changed its source object" % method)
    try:
        b = io.StringIO()
        las.write(b)
        t_src = b.getvalue()
    except Exception:
        t_src = None
    if t_src is not None:
        ctx.count("write_text_comparisons")
        try:
            b = io.StringIO()
            cpy.write(b)
            if b.getvalue() != t_src:
                V("copy-write-output-differs", "%s copy writes different text: %s" % (method, _first_diff(t_src, b.getvalue())))
        except Exception as e:
            V("copy-write-raises", "write() of the %s copy raised %r" % (method, e))
    # 2. sections and single items
    las = rebuild()
    for name, sec in las.sections.items():
        if isinstance(sec, str):
            continue
        ssnap = canon.csection(sec)
        try:
            scopy = make(method, sec)
        except Exception as e:
            V("copy-raises:%s" % type(e).__name__, "%s of section %s raised %r" % (method, name, e))
            continue
        ctx.count("section_copies")
        if type(scopy) is not type(sec):
            V("copy-type-differs", "%s of section %s gives %s" % (method, name, type(scopy).__name__))
            continue
        sc = canon.csection(scopy)
        if sc != ssnap:
            V(classify(ssnap, sc), "%s copy of section %s differs: %s" % (method, name, canon.diff(ssnap, sc)[:4]))
        for it in secops.raw_items(sec):
            isnap = _isnap(it)
            try:
                ic = make(method, it)
            except Exception as e:
                V("copy-raises:%s" % type(e).__name__, "%s of item %r raised %r" % (method, it.mnemonic, e))
                continue
            ctx.count("item_copies")
            if type(ic) is not type(it):
                V("copy-type-differs", "%s of item gives %s" % (method, type(ic).__name__))
                continue
            c2 = _isnap(ic)
            if c2 != isnap:
                V(classify(isnap, c2), "%s copy of item %r differs: %s" % (method, it.mnemonic, canon.diff(isnap, c2)[:4]))
            # independence of an item copy
            ic.unit, ic.value, ic.descr = "zz", "zz", "zz"
            if getattr(ic, "data", None) is not None and getattr(ic.data, "size", 0) and ic.data.dtype.kind == "f":
                ic.data[...] = -77.0
            if _isnap(it) != isnap:
                V("copy-not-independent", "mutating the %s copy of item %r changed the original" % (method, it.mnemonic))
        # independence of a section copy
        for ci in secops.raw_items(scopy):
            ci.unit, ci.value, ci.descr = "qq", "qq", "qq"
        scopy.append(lasio.HeaderItem("ZZNEW", "", 1, ""))
        if canon.csection(sec) != ssnap:
            V("copy-not-independent", "mutating the %s copy of section %s changed the original" % (method, name))
    # 3. independence of the LASFile copy: mutate every field of the copy
    ctx.count("independence_checks")
    las = rebuild()
    snap = canon.clas(las)
    try:
        cpy = make(method, las)
    except Exception:
        return
    for name, sec in list(cpy.sections.items()):
        if isinstance(sec, str):
            cpy.sections[name] = sec + " changed"
            continue
        for it in secops.raw_items(sec):
            it.unit, it.value, it.descr = "mm", -1, "mm"
            it.mnemonic = "M" + it.original_mnemonic
            d = getattr(it, "data", None)
            if d is not None and getattr(d, "size", 0):
                if d.dtype.kind == "f":
                    d[...] = -55.0
                else:
                    d[...] = "z"
        sec.append(type(secops.raw_items(sec)[0])("EXTRA") if len(sec) else lasio.HeaderItem("EXTRA"))
        if len(sec) > 1:
            del sec[0]
    cpy.index_unit = "changed"
    now = canon.clas(las)
    if now != snap:
        V("copy-not-independent", "mutating the %s copy changed the original: %s" % (method, canon.diff(snap, now)[:4]))


def _isnap(it):
    d = canon.citem(it)
    if getattr(it, "data", None) is not None:
        d["data"] = canon.carray(it.data)
    d["type"] = type(it).__name__
    return d


def _first_diff(a, b):
    la, lb = a.splitlines(), b.splitlines()
    for i, (x, y) in enumerate(zip(la, lb)):
        if x != y:
            return "line %d: %r vs %r" % (i + 1, x, y)
    return "line counts %d vs %d" % (len(la), len(lb))
