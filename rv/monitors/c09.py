"""C09 — reading is invariant under presentation-only changes of the text.

Metamorphic relation between two observed reads: base text x and T(x), where T is a composition of
presentation-only transformations (blank/# lines in header and data sections, blanks/tabs around
lines and fields, LF<->CRLF, dropped final newline, re-wrapping of WRAP=YES data at any token
boundary, re-delimiting with the declared delimiter).  The oracle is canonical equality of the two
results (header items incl. session and original mnemonics, values by type, curve data bit-equal,
~Other text), for the default engine and for the reference engine."""
import glob
import os
import re

import numpy as np

from rv import canon, env
from rv.gen import fields, lastext

ID = "C09"
LEVEL = "exploration"
TRANSFORMS = ["noise_header", "noise_data", "pad_lines", "crlf", "no_final_newline", "rewrap", "redelimit", "pad_fields", "noise_burst"]
RULE = ("bases: generated files (conformant tagged headers, numeric data, WRAP NO/YES, DLM SPACE/TAB/COMMA, ~A last or followed by "
        "other sections) and every readable example file; transformations, composed at random sites over the whole file: blank/# "
        "lines inserted in ~V/~W/~C/~P/custom and data sections (never in ~O), blanks/tabs around every line (titles included) and, "
        "for generated files, around every field; LF->CRLF; final newline dropped; WRAP=YES data re-wrapped at every token boundary "
        "with widths 1..all (also ragged); data re-delimited with the declared delimiter SPACE/TAB/COMMA with and without padding "
        "blanks. Each pair is read with the default engine and with engine='normal'. distinct = distinct (base, transformation "
        "multiset, parameters); non-trivial = transformed text differs from the base and the base has >= 2 data rows Added later: noise bursts of 20..45 lines, runs of tabs, decimal-comma data, a text column in a quarter of the bases, literal ~Parameter pairs with 0 / 1 blank before the colon. Hunter round 2: a tab before the '..' of 'DEPT  ..1IN', 0 / 1 blank after the colon before a minute-like description. Round 8: base / transformed pairs written as UTF-8 files and read by path (non-ASCII header text moved across the 4000 sampled bytes).")
ASSUMPTIONS = [
    "re-delimiting is applied to generated files only (numeric tokens, decimal-comma tokens, and a text column in a quarter of the bases); the DLM item itself is excluded from the comparison of a re-delimited pair",
    "noise lines are inserted inside sections (after their title), not before the first section and not inside ~Other, whose lines are content",
]
REQUIRED = ["pairs_compared", "t_noise_header", "t_noise_data", "t_pad_lines", "t_crlf", "t_no_final_newline", "t_rewrap", "t_redelimit",
            "t_pad_fields", "t_noise_burst", "rewrap_width_divides", "rewrap_width_not_divides", "corpus_pairs", "generated_pairs", "engine_normal_pairs", "redelimit_tab_runs", "redelimit_decimal_comma_data", "pairs_read_by_path"]
SOFT_DEADLINE = {"quick": 100, "thorough": 1500}
LEVEL_TEXT = "Metamorphic exploration: equality of two observed reads under composed presentation-only transformations."
LEVEL_NOTE = "Equality of two executions; trusts the transformations to be presentation-only (they act on whitespace, line ends, comment lines, wrapping and the declared delimiter only)."
TECHNIQUE = "runtime monitoring: metamorphic relation between two observed reads (base vs presentation-transformed text), both engines"


def corpus():
    return sorted(os.path.relpath(f, env.REPO) for f in glob.glob(os.path.join(env.REPO, "tests", "examples", "**", "*.las"), recursive=True)
                  if os.path.getsize(f) < 120000)


LIT_HEAD = "~Version\nVERS. 2.0 : v\nWRAP. NO : w\n~Well\nSTRT.M 1.0 : s\nSTOP.M 2.0 : s\nSTEP.M 0.5 : s\nNULL. -999.25 : n\n~Curves\nDEPT.M : d\nA.U : a\n"
LIT_TAIL = "~ASCII\n1.0 10.0\n1.5 11.0\n2.0 12.0\n"
LIT_DLM = "~Version\nVERS. 2.0 : v\nWRAP. NO : w\nDLM. %s : d\n~Well\nSTRT.M 1.0 : s\nSTOP.M 1.5 : s\nSTEP.M 0.5 : s\nNULL. -999.25 : n\n~Curves\nDEPT.M : d\nLITH. : l\nA.U : a\n"
LITERAL_PAIRS = [   # witnesses of known findings and documented tolerances: always part of the grid
    (LIT_HEAD + "~Parameter\nQ.e:bc  (RT) : 12-34-12-34W5M\n" + LIT_TAIL, LIT_HEAD + "~Parameter\nQ.e:bc  (RT) :12-34-12-34W5M\n" + LIT_TAIL, ["pad_fields"]),
    (LIT_HEAD + "~Other\nline one\nline two\n" + LIT_TAIL, LIT_HEAD + "   ~Other\n  line one\nline two  \n" + LIT_TAIL, ["pad_lines"]),
    # text cells and padded COMMA / TAB delimiters (known finding KF-C09-text-cell-keeps-delimiter-padding)
    (LIT_DLM % "COMMA" + "~ASCII\n1.0,SAND,10.0\n1.5,shale,11.0\n", LIT_DLM % "COMMA" + "~ASCII\n1.0 , SAND , 10.0\n1.5 , shale , 11.0\n", ["redelimit"]),
    (LIT_DLM % "TAB" + "~ASCII\n1.0\tSAND\t10.0\n1.5\tshale\t11.0\n", LIT_DLM % "TAB" + "~ASCII\n1.0 \t SAND \t 10.0\n1.5 \t shale \t 11.0\n", ["redelimit"]),
] + [
    # blanks before the colon that ends a ~Parameter value of two digits, the description holding a further colon (values that are no hour)
    (LIT_HEAD + "~Parameter\nRUN . %s : Run number: main pass\n" % v + LIT_TAIL, LIT_HEAD + "~Parameter\nRUN . %s: Run number: main pass\n" % v + LIT_TAIL, ["pad_fields"])
    for v in ("15", "07", "24", "29", "35", "99")
] + [
    # the same with a value that could be an hour (00-03, 10-13, 20-23): known finding
    (LIT_HEAD + "~Parameter\nRUN . %s : Run number: main pass\n" % v + LIT_TAIL, LIT_HEAD + "~Parameter\nRUN . %s: Run number: main pass\n" % v + LIT_TAIL, ["pad_fields"],
     "param-hour-like-value-colon-spacing")
    for v in ("12", "03", "21")
] + [
    # blanks after the separating colon, the description starting with two digits that could be minutes (00-59) and holding a further
    # colon: the look-ahead half of the same regular expression (known finding; hunter round 2)
    (LIT_HEAD + "~Parameter\nCSGD .M 1500.0 : %s inch casing shoe: driller depth\n" % v + LIT_TAIL,
     LIT_HEAD + "~Parameter\nCSGD .M 1500.0 :%s inch casing shoe: driller depth\n" % v + LIT_TAIL, ["pad_fields"], "param-minute-like-description-colon-spacing")
    for v in ("20", "05", "59")
] + [
    (LIT_HEAD + "~Parameter\nCSGD .M 1500.0 : %s inch casing shoe: driller depth\n" % v + LIT_TAIL,
     LIT_HEAD + "~Parameter\nCSGD .M 1500.0 :%s inch casing shoe: driller depth\n" % v + LIT_TAIL, ["pad_fields"])
    for v in ("60", "75", "9", "x1")
] + [
    # a tab instead of blanks before the '..' of the documented ~Curve form 'DEPT  ..1IN' (mnemonic DEPT, unit .1IN)
    (LIT_HEAD.replace("DEPT.M : d", "DEPT  ..1IN : d") + LIT_TAIL, LIT_HEAD.replace("DEPT.M : d", "DEPT %s..1IN : d" % pad) + LIT_TAIL, ["pad_fields"])
    for pad in ("\t", " \t", "\t ", "    ")
] + [
    (LIT_HEAD + "~Parameter\nRUN .\t%s : Run number: main pass\n" % v + LIT_TAIL, LIT_HEAD + "~Parameter\nRUN . %s : Run number: main pass\n" % v + LIT_TAIL, ["pad_fields"])
    for v in ("15", "12", "07", "24")
]


# files read BY PATH (lasio's own encoding detection in the way): a UTF-8 header with non-ASCII text, and comment / blank lines that move
# the first non-ASCII character relative to the bytes lasio samples (4000)
_NA_HEAD = LIT_HEAD.replace("A.U : a", "A.µs/m : température Ågård")
BY_PATH_PAIRS = [
    (_NA_HEAD + LIT_TAIL, _NA_HEAD.replace("~Well\n", "".join("# comment line %03d %s\n" % (i, "." * 40) for i in range(n)) + "~Well\n") + LIT_TAIL, ["noise_header"])
    for n in (20, 60, 66, 90, 200)
] + [
    (_NA_HEAD + LIT_TAIL, _NA_HEAD.replace("~Curves\n", "\n" * n + "~Curves\n") + LIT_TAIL, ["noise_header"]) for n in (3900, 4200)
] + [
    (_NA_HEAD + LIT_TAIL, _NA_HEAD.replace("STRT.M 1.0 : s", "STRT.M" + " " * n + "1.0 : s") + LIT_TAIL, ["pad_fields"]) for n in (3990, 4100)
]


def grid(tier):
    k = 0
    for i in range(len(LITERAL_PAIRS)):
        yield {"base": "literal", "seed": i, "ts": LITERAL_PAIRS[i][2], "literal": i}
    for i in range(len(BY_PATH_PAIRS)):
        yield {"base": "literal", "seed": 500 + i, "ts": BY_PATH_PAIRS[i][2], "by_path": i}
    for t in TRANSFORMS:
        for rep in range(6 if tier == "quick" else 40):
            for wrap in (False, True):
                k += 1
                yield {"base": "gen", "seed": k, "wrap": wrap, "ts": [t], "dlm": "SPACE"}
    for dlm in ("SPACE", "TAB", "COMMA"):
        for rep in range(4):
            k += 1
            yield {"base": "gen", "seed": k, "wrap": False, "ts": ["noise_burst"], "dlm": dlm}
    for dlm in ("SPACE", "TAB", "COMMA"):
        for pad in (False, True) + (("runs",) if dlm == "TAB" else ()):
            for rep in range(4):
                k += 1
                yield {"base": "gen", "seed": k, "wrap": False, "ts": ["redelimit"], "dlm": dlm, "to": [dlm, pad]}
    for seed in (9001, 9002, 9003, 9004, 9005, 9006, 9007, 9008, 9009, 9010, 9011, 9012):
        for dlm, to in (("SPACE", "TAB"), ("TAB", "SPACE"), ("TAB", "TAB")):
            k += 1
            yield {"base": "gen", "seed": seed, "wrap": False, "ts": ["redelimit"], "dlm": dlm, "to": [to, seed % 2 == 0]}
    for c in range(1, 9):
        for w in list(range(1, c + 1)) + [c + 1, 2 * c, 2 * c + 1, 1000]:
            k += 1
            yield {"base": "gen", "seed": k, "wrap": True, "ts": ["rewrap"], "dlm": "SPACE", "ncurves": c, "width": w}
    for fn in corpus():
        for ts in (["noise_header", "noise_data"], ["pad_lines", "crlf"], ["no_final_newline", "noise_data", "pad_lines"], ["rewrap"]):
            k += 1
            yield {"base": fn, "seed": k, "ts": ts}


def n_random(tier):
    return 800 if tier == "quick" else 20000


def random_case(rng, tier):
    ts = rng.sample(TRANSFORMS, rng.randint(1, 4))
    if rng.random() < 0.45:
        return {"base": rng.choice(corpus()), "seed": rng.randrange(10 ** 9), "ts": [t for t in ts if t not in ("redelimit", "pad_fields")] or ["noise_data"]}
    if "noise_burst" in ts and rng.random() < 0.6:
        return {"base": "gen", "seed": rng.randrange(10 ** 9), "wrap": False, "ts": ts, "dlm": rng.choice(["COMMA", "TAB", "SPACE"])}
    wrap = rng.random() < 0.4
    return {"base": "gen", "seed": rng.randrange(10 ** 9), "wrap": wrap, "ts": ts, "dlm": "SPACE" if wrap else rng.choice(["SPACE", "SPACE", "TAB", "COMMA"])}


# ---- generated bases ------------------------------------------------------------------------------------------------
def gen_abstract(rng, wrap, dlm, ncurves=None):
    c = ncurves or rng.randint(1, 8)
    r = rng.randint(2, 6)
    tagn = [0]

    def item(sec):
        tagn[0] += 1
        m = fields.mnemonic(rng, inner_blanks=False)
        v = fields.text(rng, colons=False, double_dots=False)
        return [m + str(tagn[0]), fields.unit(rng), v, (fields.text(rng, colons=False) + " t%d" % tagn[0]).strip()]
    secs = lastext.std_header(c, wrap="YES" if wrap else "NO", dlm=dlm if dlm != "SPACE" or rng.random() < 0.3 else None,
                              extra_w=[item("W") for _ in range(rng.randint(0, 4))], params=[item("P") for _ in range(rng.randint(0, 4))])
    if rng.random() < 0.4:
        secs.append({"kind": "X", "title": "~Tools used", "items": [item("X") for _ in range(rng.randint(0, 3))]})
    if rng.random() < 0.6:
        secs.append({"kind": "O", "title": "~Other", "lines": ["free text %d, with. punctuation" % i for i in range(rng.randint(0, 3))]})
    rows = []
    for i in range(r):
        row = ["%.4f" % (100 + 0.5 * i)]
        for j in range(1, c):
            row.append(rng.choice(["%.3f" % rng.uniform(-500, 500), "%d" % rng.randint(-99, 999), "-999.25", "%.4E" % rng.uniform(1, 1e6)]))
        rows.append(row)
    if dlm != "COMMA" and rng.random() < 0.15:
        # decimal commas (repaired by the default read policy) in a SPACE- or TAB-delimited file
        for row in rows:
            for j in range(len(row)):
                if "." in row[j] and "E" not in row[j]:
                    row[j] = row[j].replace(".", ",")
    if c >= 2 and rng.random() < 0.25:
        # a column of text (lithology codes, flags): presentation must not change it either
        tj = rng.randint(1, c - 1)
        for i, row in enumerate(rows):
            row[tj] = rng.choice(["SAND", "shale", "Q%d" % i, "lime-stone", "n/a", "x_%d" % i])
    a = {"kind": "A", "title": "~ASCII", "rows": rows}
    tail = []
    if rng.random() < 0.3:
        tail.append({"kind": "X", "title": "~Remarks", "items": [item("X")]})
    return secs, a, tail, c, r


SEPS = {"SPACE": " ", "TAB": "\t", "COMMA": ","}


def render_gen(secs, a, tail, wrap_width, sep, layout, eol, final, c):
    rows = a["rows"]
    if wrap_width:
        widths = wrap_width if isinstance(wrap_width, list) else [wrap_width]
        phys = []
        if max(widths) > c:
            flat = [t for row in rows for t in row]          # lines may span depth steps
            k, wi = 0, 0
            while k < len(flat):
                w = widths[wi % len(widths)]
                phys.append(flat[k:k + w])
                k += w
                wi += 1
        else:
            for row in rows:
                k, wi = 0, 0
                while k < len(row):
                    w = widths[wi % len(widths)]
                    phys.append(row[k:k + w])
                    k += w
                    wi += 1
        rows = phys
    aa = dict(a, rows=rows)
    lay = dict(layout)
    lay["sep"] = sep
    return lastext.render({"sections": secs + [aa] + tail, "eol": eol, "final_newline": final}, lay)


# ---- text-level transformations (corpus and generated) --------------------------------------------------------------------
def section_map(lines):
    idx = [i for i, ln in enumerate(lines) if ln.strip().startswith("~")]
    out = []
    for n, i in enumerate(idx):
        t = lines[i].strip()
        end = idx[n + 1] if n + 1 < len(idx) else len(lines)
        up = t[1:2].upper()
        kind = "A" if (up == "A" or "~Log_Data" in t or "_Data" in t) else "O" if up == "O" else "H"
        out.append((kind, i, end))
    return out


def t_noise(rng, lines, which):
    secs = [s for s in section_map(lines) if s[0] == which]
    ins = []
    for kind, i, end in secs:
        for _ in range(rng.randint(1, 3)):
            pos = rng.randint(i + 1, end)
            ins.append((pos, rng.choice(["", "   ", "# a comment line", "#", "\t", "#  1.0 2.0 3.0", "# ~not a section"])))
    for pos, txt in sorted(ins, key=lambda x: -x[0]):
        lines.insert(pos, txt)
    return lines


def t_burst(rng, lines):
    """20..45 consecutive blank/comment lines at the top (or somewhere inside) of a data or header section."""
    secs = [s for s in section_map(lines) if s[0] in ("A", "H")]
    if not secs:
        return lines
    kind, i, end = rng.choice([s for s in secs if s[0] == "A"] or secs) if rng.random() < 0.7 else rng.choice(secs)
    pos = i + 1 if rng.random() < 0.7 else rng.randint(i + 1, end)
    burst = [rng.choice(["", "# comment", "   ", "#"]) for _ in range(rng.randint(20, 45))]
    return lines[:pos] + burst + lines[pos:]


def t_pad_lines(rng, lines):
    out = []
    for ln in lines:
        if ln.strip() == "":
            out.append(ln)
        else:
            out.append(rng.choice(["", " ", "    ", "\t"]) + ln + rng.choice(["", " ", "   ", "\t"]))
    return out


def run_case(case, ctx):
    import random
    lasio = ctx.lasio
    rng = random.Random(case["seed"])
    ts = list(case["ts"])
    excl_dlm = False
    literal_label = None
    paths = None
    if case["base"] == "literal" and "by_path" in case:
        base, text, applied = BY_PATH_PAIRS[case["by_path"]]
        applied = list(applied)
        kind = "generated"
        os.makedirs(ctx.scratch, exist_ok=True)
        paths = []
        for tag, content in (("base", base), ("transformed", text)):
            pth = os.path.join(ctx.scratch, "c09-%d-%s.las" % (case["by_path"], tag))
            with open(pth, "w", encoding="utf-8", newline="") as fh:
                fh.write(content)
            paths.append(pth)
        ctx.count("pairs_read_by_path")
    elif case["base"] == "literal":
        base, text, applied = LITERAL_PAIRS[case["literal"]][:3]
        literal_label = (LITERAL_PAIRS[case["literal"]] + (None,))[3]
        applied = list(applied)
        kind = "generated"
    elif case["base"] == "gen":
        dlm = case.get("dlm", "SPACE")
        secs, a, tail, c, r = gen_abstract(rng, case.get("wrap", False), dlm, case.get("ncurves"))
        wrap = case.get("wrap", False)
        base_wrap = c if wrap else None        # base: whole depth step on one physical line, still declared WRAP YES
        if wrap and rng.random() < 0.5:
            base_wrap = [1, max(1, c - 1)]      # or the classic layout: depth alone, then the rest
        base = render_gen(secs, a, tail, base_wrap, SEPS[dlm], {"lead": "", "trail": ""}, "\n", True, c)
        layout = {"lead": "", "trail": ""}
        sep, eol, final, wrap_width = SEPS[dlm], "\n", True, base_wrap
        secs2 = secs
        if "pad_fields" in ts:
            layout["pads"] = [fields.pads(rng) for _ in range(7)]
        if "rewrap" in ts and wrap:
            # "at any token boundary": lines may also hold more than one depth step (up to all values on one line)
            w = case.get("width") or rng.choice([rng.randint(1, c), rng.randint(1, c), rng.randint(c + 1, 2 * c + 1), r * c])
            wrap_width = w if rng.random() < 0.7 or case.get("width") else [rng.randint(1, c + 2) for _ in range(3)]
            if isinstance(wrap_width, int):
                ctx.count("rewrap_width_divides" if c % wrap_width == 0 else "rewrap_width_not_divides")
                if wrap_width > c:
                    ctx.count("rewrap_lines_span_depth_steps")
        if "redelimit" in ts and not wrap:
            to, pad = case.get("to") or [rng.choice(["SPACE", "TAB", "COMMA"]), rng.choice([False, True, "runs"])]
            if to == "COMMA" and any("," in t for row in a["rows"] for t in row):
                to = "TAB"            # a decimal comma cannot live in a comma-delimited rendering
                ctx.count("redelimit_decimal_comma_data")
            elif any("," in t for row in a["rows"] for t in row):
                ctx.count("redelimit_decimal_comma_data")
            sep = {"SPACE": rng.choice(["  ", "     "]) if pad else " ", "TAB": " \t " if pad else "\t", "COMMA": rng.choice([", ", " , ", " ,"]) if pad else ","}[to]
            if pad == "runs" and to == "TAB":
                sep = rng.choice(["\t\t", "\t\t\t"])          # "the amount of ... tabs between fields": a run of tabs is one separator
                ctx.count("redelimit_tab_runs")
            secs2 = [dict(s) for s in secs]
            v = secs2[0]
            v["items"] = [it for it in v["items"] if it[0] != "DLM"] + ([["DLM", "", to, "delimiter"]] if to != "SPACE" or rng.random() < 0.5 else [])
            excl_dlm = True
        if "crlf" in ts:
            eol = "\r\n"
        if "no_final_newline" in ts:
            final = False
        text = render_gen(secs2, a, tail, wrap_width, sep, layout, eol, final, c)
        lines = text.split(eol)
        if "noise_header" in ts:
            lines = t_noise(rng, lines, "H")
        if "noise_data" in ts:
            lines = t_noise(rng, lines, "A")
        if "noise_burst" in ts:
            lines = t_burst(rng, lines)
        if "pad_lines" in ts:
            lines = t_pad_lines(rng, lines)
        text = eol.join(lines)
        kind = "generated"
        applied = [t for t in ts if not (t == "rewrap" and not wrap) and not (t == "redelimit" and wrap)]
    else:
        try:
            with open(os.path.join(env.REPO, case["base"]), encoding="utf-8", newline="") as f:
                base = f.read()
        except Exception:
            ctx.count("corpus_not_utf8")
            return
        base = base.replace("\r\n", "\n").replace("\r", "\n")
        eol = "\n"
        lines = base.split("\n")
        applied = []
        if "rewrap" in ts:
            new = rewrap_corpus(ctx, rng, base, lines)
            if new is not None:
                lines = new
                applied.append("rewrap")
        if "noise_header" in ts:
            lines = t_noise(rng, lines, "H")
            applied.append("noise_header")
        if "noise_data" in ts:
            lines = t_noise(rng, lines, "A")
            applied.append("noise_data")
        if "noise_burst" in ts:
            lines = t_burst(rng, lines)
            applied.append("noise_burst")
        if "pad_lines" in ts:
            lines = t_pad_lines(rng, lines)
            applied.append("pad_lines")
        text = "\n".join(lines)
        if "no_final_newline" in ts and text.endswith("\n"):
            text = text[:-1]
            applied.append("no_final_newline")
        if "crlf" in ts:
            text = text.replace("\n", "\r\n")
            applied.append("crlf")
        kind = "corpus"
    if not applied:
        ctx.count("cases_no_transformation_applicable")
        return
    for engine in ("numpy", "normal"):
        try:
            b = lasio.read(paths[0] if paths else base, engine=engine, mnemonic_case="preserve")
        except Exception:
            ctx.count("base_unreadable")
            return
        detail = {"base": case["base"], "transformations": applied, "engine": engine, "text": text[:4000] if kind == "generated" else None,
                  "base_text": base[:3000] if kind == "generated" else None}
        try:
            t = lasio.read(paths[1] if paths else text, engine=engine, mnemonic_case="preserve")
        except Exception as e:
            ctx.violation("transformed-read-raised:%s:%s" % (type(e).__name__, "+".join(sorted(applied))),
                          "the transformed text cannot be read (engine=%s): %r" % (engine, e), detail)
            continue
        ctx.count("pairs_compared")
        ctx.count(kind + "_pairs")
        ctx.count("engine_%s_pairs" % engine)
        sb, st = canon.clas(b), canon.clas(t)
        if excl_dlm:
            for s in (sb, st):
                v = s["sections"].get("Version")
                if v and "items" in v:
                    v["items"] = [it for it in v["items"] if it["original"].upper() != "DLM"]
        if sb != st:
            diffs = canon.diff(sb, st)
            where = "data" if all(d.startswith("/curves") for d in diffs) else "header" if not any(d.startswith("/curves") for d in diffs) else "both"
            key = "result-changed:%s:%s" % ("+".join(sorted(applied)), where)
            if "pad_fields" in applied and kf_param_unit_colon(sb, st):
                key = "result-changed:param-unit-colon-with-time-like-separator"
            if "redelimit" in applied and text_cells_differ_only_by_padding(b, t, diffs):
                key = "result-changed:text-cell-keeps-delimiter-padding"
            if case["base"] == "literal" and literal_label:
                key = "result-changed:" + literal_label
            ctx.violation(key, "engine=%s: %s" % (engine, diffs[:4]), detail)
    for tname in applied:
        ctx.count("t_" + tname)
    nrows = len(b.curves[0].data) if len(b.curves) else 0
    ctx.case_done([case["base"], case.get("seed") if kind == "generated" else None, sorted(applied), case.get("width"), case.get("to"), case["seed"] % 50],
                  nontrivial=text != base and nrows >= 2)
    ctx.sample({"base": case["base"], "transformations": applied, "transformed head": text[:300]}, limit=4)


def rewrap_corpus(ctx, rng, base, lines):
    """Re-wrap the data of a WRAP YES corpus file (space-delimited, one data section)."""
    lasio = ctx.lasio
    if not re.search(r"(?im)^\s*WRAP\s*\.\s+YES", base):
        return None
    try:
        las = lasio.read(base)
    except Exception:
        return None
    c = len(las.curves)
    secs = [s for s in section_map(lines) if s[0] == "A"]
    if len(secs) != 1 or c == 0:
        return None
    kind, i, end = secs[0]
    body = lines[i + 1:end]
    if any(ln.strip().startswith("#") for ln in body):
        return None
    toks = [t for ln in body for t in ln.split()]
    if not toks or len(toks) % c:
        return None
    w = rng.randint(1, c)
    ctx.count("rewrap_width_divides" if c % w == 0 else "rewrap_width_not_divides")
    out = []
    for k in range(0, len(toks), c):
        step = toks[k:k + c]
        for j in range(0, c, w):
            out.append(" " + " ".join(step[j:j + w]))
    return lines[:i + 1] + out + lines[end:]


def text_cells_differ_only_by_padding(b, t, diffs):
    """All differences are samples of text curves that are equal once surrounding blanks are stripped."""
    if not diffs or not all(d.startswith("/curves") for d in diffs) or len(b.curves) != len(t.curves):
        return False
    seen = False
    for cb, ct in zip(list.__iter__(b.curves), list.__iter__(t.curves)):
        db, dt = np.asarray(cb.data), np.asarray(ct.data)
        if db.shape != dt.shape:
            return False
        if db.dtype.kind in "USO" or dt.dtype.kind in "USO":
            lb, lt = [str(x) for x in db.tolist()], [str(x) for x in dt.tolist()]
            if lb != lt:
                if [x.strip() for x in lb] != [x.strip() for x in lt]:
                    return False
                seen = True
        elif not np.array_equal(db, dt, equal_nan=True):
            return False
    return seen


def kf_param_unit_colon(sb, st):
    """The C04 known finding seen through this relation: every difference sits in ~Parameter items whose base unit has an
    interior colon and whose transformed unit is the part before that colon (the time-colon pattern backtracked into the unit)."""
    a, b = dict(sb), dict(st)
    pa, pb = a["sections"].get("Parameter", {}).get("items"), b["sections"].get("Parameter", {}).get("items")
    if pa is None or pb is None or len(pa) != len(pb):
        return False
    rest_a = {k: v for k, v in a["sections"].items() if k != "Parameter"}
    rest_b = {k: v for k, v in b["sections"].items() if k != "Parameter"}
    if rest_a != rest_b or a.get("curves") != b.get("curves"):
        return False
    hit = False
    for x, y in zip(pa, pb):
        if x == y:
            continue
        if ":" in x["unit"] and x["unit"].startswith(y["unit"] + ":") and y["value"] == ("str", "") and x["original"] == y["original"]:
            hit = True
        else:
            return False
    return hit
