#!/usr/bin/env python
"""Hunt for violations of PROPERTY C15 (SectionItems lookup by key, attribute,
membership and get() always agree) on the unmodified lasio tree.

Run:  /venv/bin/python /tmp/hunt-C15/hunt_C15.py
Exit status 1 if at least one violation is demonstrated, 0 otherwise.
"""
import os
import sys

sys.path.insert(0, os.path.dirname(os.path.abspath(__file__)))

import numpy as np  # noqa: E402
import lasio  # noqa: E402
from lasio.las_items import SectionItems, HeaderItem, CurveItem  # noqa: E402

VIOLATIONS = []


def section(names, transforms=False, cls=HeaderItem):
    s = SectionItems()
    if transforms:
        s.mnemonic_transforms = True
    for n in names:
        s.append(cls(n, value="v" + n))
    return s


def report(tag, violated, inp, required, actual):
    print("=" * 78)
    print("CASE %s  -> %s" % (tag, "VIOLATION" if violated else "holds"))
    print("  input    : %s" % inp)
    print("  required : %s" % required)
    print("  lasio    : %s" % actual)
    if violated:
        VIOLATIONS.append(tag)


def outcome(f):
    try:
        return ("ok", f())
    except BaseException as e:  # noqa
        return ("exc", "%s: %s" % (type(e).__name__, e))


# --------------------------------------------------------------------------
# V1  positional assignment does not address positions as a list does
# --------------------------------------------------------------------------
def v1a():
    s = section("ABC")
    ref = list(s)
    new = HeaderItem("Z", value="vZ")
    s[0] = new
    ref[0] = new
    same = len(s) == len(ref) and all(x is y for x, y in zip(list(s), ref))
    report(
        "V1a  s[int] = HeaderItem",
        not same,
        "s = [A, B, C];  s[0] = HeaderItem('Z')",
        "integer keys address positions exactly as in a list -> keys [Z, B, C]",
        "keys %s (item appended, position 0 untouched)" % s.keys(),
    )


def v1b():
    s = section("ABC")
    new = HeaderItem("Z", value="vZ")
    s[np.int64(-1)] = new
    report(
        "V1b  s[np.int64(-1)] = HeaderItem",
        s.keys() != ["A", "B", "Z"],
        "s = [A, B, C];  s[np.int64(-1)] = HeaderItem('Z')",
        "keys [A, B, Z]",
        "keys %s" % s.keys(),
    )


def v1c():
    s = section("ABC")
    before = (s.keys(), [i.value for i in s])
    res = outcome(lambda: s.__setitem__(slice(0, 1), [HeaderItem("Q")]))
    after = (s.keys(), [i.value for i in s])
    report(
        "V1c  s[0:1] = [HeaderItem]",
        res[0] == "ok" and before == after,
        "s = [A, B, C];  s[0:1] = [HeaderItem('Q')]",
        "slices address positions exactly as in a list -> keys [Q, B, C] "
        "(or at least an exception)",
        "no exception, section unchanged: keys %s (the value went to a "
        "throw-away copy s[0:1])" % (after[0],),
    )


def v1d():
    s = section("ABC")
    s[0:1] = HeaderItem("Q")
    report(
        "V1d  s[0:1] = HeaderItem",
        s.keys() != ["Q", "B", "C"],
        "s = [A, B, C];  s[0:1] = HeaderItem('Q')",
        "the slice addresses position 0 (list would raise TypeError or "
        "replace position 0); never an append",
        "keys %s" % s.keys(),
    )


# --------------------------------------------------------------------------
# V2  attribute assignment of a plain value to an ABSENT key creates a Python
#     instance attribute that makes attribute access disagree with
#     membership / item access, and later shadows a real item
# --------------------------------------------------------------------------
def v2a():
    s = section("A")
    s.X = 5
    member = "X" in s
    item = outcome(lambda: s["X"])
    attr = outcome(lambda: s.X)
    report(
        "V2a  s.X = 5 with X absent",
        (attr[0] == "ok") != member,
        "s = [A];  s.X = 5;  then  'X' in s, s['X'], s.X",
        "membership, item access and attribute access agree (X is absent: "
        "False / KeyError / AttributeError)",
        "'X' in s = %s; s['X'] -> %s; s.X -> %s" % (member, item[1], attr[1]),
    )


def v2b():
    s = section("A", transforms=True)
    s.X = 5
    s.append(HeaderItem("X", value="real"))
    attr = outcome(lambda: s.X)
    item = s["X"]
    report(
        "V2b  stale attribute shadows a later item",
        attr[1] is not item,
        "s = [A];  s.X = 5;  s.append(HeaderItem('X', value='real'));  s.X",
        "'X' in s is True, so s.X returns the same item as s['X']",
        "s['X'] -> %r ; s.X -> %r ; (s.x -> %r)" % (item, attr[1], s.x),
    )


# --------------------------------------------------------------------------
# V3  keys that coincide with an attribute name of SectionItems / list
# --------------------------------------------------------------------------
def v3a():
    text = (
        "~V\n VERS. 2.0 :\n WRAP. NO :\n~W\n NULL. -999.25 :\n"
        "~C\n DEPT.M : depth\n INDEX. : an index curve\n COUNT. : counts\n"
        "~A\n1 2 3\n2 3 4\n"
    )
    las = lasio.read(text)  # default mnemonic_case='upper' -> normalisation on
    s = las.curves
    bad = []
    for k in ("index", "count"):
        if (k in s) and getattr(s, k) is not s[k]:
            bad.append(k)
    report(
        "V3a  different-case key that is a list method name (section read "
        "with case normalisation)",
        bool(bad),
        "lasio.read(<curves DEPT, INDEX, COUNT>).curves ; probe keys "
        "'index', 'count'",
        "'index' in s is True, so s.index is the item s['index']",
        "'index' in s = %s; s['index'] = %r; s.index = %r"
        % ("index" in s, s["index"], s.index),
    )


def v3b():
    names = ["keys", "get", "json", "copy", "pop", "sort", "values", "items",
             "append", "mnemonic_transforms"]
    bad = []
    for n in names:
        s = section([n])
        if (n in s) and getattr(s, n) is not s[n]:
            bad.append(n)
    report(
        "V3b  exact-case key equal to a SectionItems attribute name "
        "(normalisation off)",
        bool(bad),
        "s = [HeaderItem(n)] for n in %s" % names,
        "n in s is True, so getattr(s, n) is s[n]",
        "attribute access returns the method/property/flag instead of the "
        "item for: %s" % bad,
    )


# --------------------------------------------------------------------------
# V4  get() of an absent key in a curve section whose first curve is text
# --------------------------------------------------------------------------
def v4():
    text = (
        "~V\n VERS. 2.0 :\n WRAP. NO :\n~W\n NULL. -999.25 :\n"
        "~C\n TIME. : time stamp\n GR.API : gamma\n"
        "~A\n2020-01-01T00:00 1.0\n2020-01-01T00:01 2.0\n"
    )
    las = lasio.read(text)
    s = las.curves
    n0 = len(s)
    r1 = outcome(lambda: s.get("X"))
    r2 = outcome(lambda: s.get("X", add=True))
    report(
        "V4   get(absent) on a curve section whose first curve holds text",
        r2[0] == "exc" or len(s) != n0 + 1,
        "las = lasio.read(<TIME (text) and GR>);  las.curves.get('X') ; "
        "las.curves.get('X', add=True)   [first curve dtype %s]"
        % s[0].data.dtype,
        "get() returns a default item; with add=True exactly one item is "
        "appended",
        "get('X') -> %s ; get('X', add=True) -> %s ; len %d -> %d"
        % (r1[1], r2[1], n0, len(s)),
    )


if __name__ == "__main__":
    print("lasio imported from", lasio.__file__)
    for case in (v1a, v1b, v1c, v1d, v2a, v2b, v3a, v3b, v4):
        case()
    print("=" * 78)
    print("%d violating case(s): %s" % (len(VIOLATIONS), VIOLATIONS))
    sys.exit(1 if VIOLATIONS else 0)
