#!/venv/bin/python
"""Hunt on property C12: writer options change presentation only, never content.

Every case reads one LAS text, writes it with two writer configurations that
differ only in options the property calls "presentation" (wrap on/off, target
version 1.2/2.0), reads both outputs back and compares header items (VERS and
WRAP themselves left out) and curve data.

Exit status: 1 if at least one in-domain violation is demonstrated, else 0.
"""
import io
import logging
import sys
import warnings

sys.path.insert(0, "/tmp/hunt2-C12")

import numpy as np  # noqa: E402

import lasio  # noqa: E402

logging.disable(logging.CRITICAL)
warnings.filterwarnings("ignore")


def content(las):
    """Header items (apart from VERS and WRAP) and curve data of a LASFile."""
    out = {}
    for name in ("Version", "Well", "Curves", "Parameter"):
        items = []
        for item in las.sections[name]:
            if name == "Version" and item.original_mnemonic.upper() in ("VERS", "WRAP"):
                continue
            items.append(
                (item.original_mnemonic, item.unit, repr(item.value), item.descr)
            )
        out[name] = items
    out["Other"] = las.sections["Other"]
    data = []
    for curve in las.curves:
        values = [
            "nan" if (isinstance(v, float) and v != v) else repr(v)
            for v in curve.data.tolist()
        ]
        data.append((curve.original_mnemonic, curve.data.dtype.kind, values))
    out["data"] = data
    return out


def written_and_reread(text, **write_kwargs):
    las = lasio.read(text)  # a fresh object for every configuration
    buf = io.StringIO()
    las.write(buf, **write_kwargs)
    written = buf.getvalue()
    try:
        return written, content(lasio.read(written))
    except Exception as exc:  # the output cannot be read at all
        return written, "UNREADABLE: %s: %s" % (type(exc).__name__, str(exc)[:120])


def case(label, text, cfg_a, cfg_b, requirement, counted=True):
    print("=" * 78)
    print(label)
    print("=" * 78)
    print("input:")
    print(text)
    first = lasio.read(text)
    print("as read: well =", [(i.original_mnemonic, i.value, i.descr) for i in first.well])
    print("         data =", [(c.original_mnemonic, c.data.tolist()) for c in first.curves])
    out_a, got_a = written_and_reread(text, **cfg_a)
    out_b, got_b = written_and_reread(text, **cfg_b)
    print("property requires:", requirement)
    differs = got_a != got_b
    for cfg, out, got in ((cfg_a, out_a, got_a), (cfg_b, out_b, got_b)):
        print("--- written with", cfg)
        print(out.rstrip("\n"))
        if isinstance(got, str):
            print("  re-read ->", got)
    if differs:
        if isinstance(got_a, str) or isinstance(got_b, str):
            print("lasio does: one output is unreadable / the other is not")
        else:
            for key in got_a:
                if got_a[key] != got_b[key]:
                    print("lasio does: %s differ" % key)
                    print("   %-28s -> %s" % (cfg_a, got_a[key]))
                    print("   %-28s -> %s" % (cfg_b, got_b[key]))
    verdict = "VIOLATION" if differs else "holds"
    if differs and not counted:
        verdict = "differs (borderline, NOT counted)"
    print("RESULT:", verdict)
    print()
    return differs and counted


HEAD_WELL = """~Well
 STRT.M 1.0 : start
 STOP.M 3.0 : stop
 STEP.M 1.0 : step
 NULL. -999.25 : null
 COMP.  ACME : COMPANY
"""

violations = set()

# --------------------------------------------------------------------------
# V1: a file with the WRAP line twice (read silently as WRAP:1 / WRAP:2)
# --------------------------------------------------------------------------
V1 = (
    """~Version
 VERS.   2.0 : CWLS log ASCII Standard -VERSION 2.0
 WRAP.   NO  : One line per depth step
 WRAP.   NO  : One line per depth step
"""
    + HEAD_WELL
    + """~Curve
 DEPT.M : depth
 GR.API : gamma
 RHOB.G/CC : density
 NPHI.V/V : neutron
~A
 1.0 10.5 2.1 0.31
 2.0 -999.25 2.2 0.32
 3.0 12.5 2.3 0.33
"""
)
violations |= {"V1"} if case(
    "V1  WRAP line present twice: wrap=True versus wrap=False",
    V1,
    dict(wrap=True, data_width=30),
    dict(wrap=False),
    "equal curve data whether the data section is wrapped or not",
) else set()

# --------------------------------------------------------------------------
# V2: a file with the VERS line twice and no data rows
# --------------------------------------------------------------------------
V2 = (
    """~Version
 VERS.   2.0 : CWLS log ASCII Standard -VERSION 2.0
 VERS.   2.0 : CWLS log ASCII Standard -VERSION 2.0
 WRAP.   NO  : One line per depth step
"""
    + HEAD_WELL
    + """~Curve
 DEPT.M : depth
 GR.API : gamma
~A
"""
)
violations |= {"V2"} if case(
    "V2  VERS line present twice (no data rows): version=1.2 versus version=2",
    V2,
    dict(version=1.2),
    dict(version=2),
    "COMP reads back as value 'ACME' / description 'COMPANY' from both outputs",
) else set()

print("V2 (side observation) the same header with one data row: write(version=...)")
las = lasio.read(V2 + " 1.0 5.0\n")
for version in (1.2, 2):
    buf = io.StringIO()
    try:
        las.write(buf, version=version)
        print("   version=%s: written" % version)
    except Exception as exc:
        print(
            "   version=%s: %s after %d characters of output (writer.py: "
            "version_section_to_write.VERS)" % (version, type(exc).__name__, len(buf.getvalue()))
        )
print()

# --------------------------------------------------------------------------
# V3: a text sample with '#' inside it (not at its start) and a numeric prefix
# --------------------------------------------------------------------------
V3 = (
    """~Version
 VERS.   2.0 : CWLS log ASCII Standard -VERSION 2.0
 WRAP.   YES : Multiple lines per depth step
"""
    + HEAD_WELL.replace("3.0 : stop", "2.0 : stop")
    + """~Curve
 DEPT.M : depth
 CSG.LB/FT : casing weight
 GR.API : gamma
~A
 1.0
 47# 10.5
 2.0
 40# 11.5
"""
)
violations |= {"V3"} if case(
    "V3  text samples '47#', '40#' (wrapped 2.0 input): wrap=True versus wrap=False",
    V3,
    dict(wrap=True),
    dict(wrap=False),
    "CSG stays the text curve ['47#', '40#'] and GR keeps [10.5, 11.5] in both outputs",
) else set()

V3b = V3.replace("WRAP.   YES : Multiple lines per depth step", "WRAP.   NO : One line\n DLM. COMMA : delimiter").replace(
    " 1.0\n 47# 10.5\n 2.0\n 40# 11.5\n", "1.0,47#,10.5\n2.0,40#,11.5\n"
)
violations |= {"V3"} if case(
    "V3b the same samples in a comma-delimited input: default (unwrapped) versus wrap=True",
    V3b,
    dict(),
    dict(wrap=True),
    "equal curve data from both outputs",
) else set()

# --------------------------------------------------------------------------
# Borderline (NOT counted): '~'-leading text sample, sibling of the '#'-leading
# samples that an earlier hunt reported and that were judged out of domain.
# --------------------------------------------------------------------------
B1 = (
    """~Version
 VERS.   2.0 : CWLS log ASCII Standard -VERSION 2.0
 WRAP.   NO  : One line per depth step
"""
    + HEAD_WELL.replace("3.0 : stop", "2.0 : stop")
    + """~Curve
 DEPT.M : depth
 GR.API : gamma
 FLAG.  : approximate value
~A
 1.0 10.5 ~10
 2.0 11.5 ~12
"""
)
case(
    "B1  (borderline) text samples '~10', '~12': wrap=True (data_width=12) versus wrap=False",
    B1,
    dict(wrap=True, data_width=12),
    dict(wrap=False),
    "equal curve data from both outputs",
    counted=False,
)

print("in-domain violations demonstrated: %d %s" % (len(violations), sorted(violations)))
sys.exit(1 if violations else 0)
