#!/usr/bin/env python
"""Hunt for violations of property C03 (header metadata survives write->read).

Run with:  /venv/bin/python /tmp/hunt-C03/hunt_C03.py

Every case builds a LASFile in memory, writes it with LASFile.write(version=...),
reads the text back with lasio.read(..., mnemonic_case=...) and compares the header
items with what the property requires.  A case is reported as VIOLATION only when the
comparison made by this script really fails on the code under test, so the script
exits 0 on a tree where none of them reproduces.

Tier A: inside the stated domain on any reasonable reading.
Tier B: inside the domain by the letter of the statement / quantifier, but a
        maintainer could call it a precondition or intended behaviour.
"""
import io
import logging
import math
import os
import sys
import warnings

sys.path.insert(0, os.path.dirname(os.path.abspath(__file__)))
warnings.filterwarnings("ignore")
logging.disable(logging.CRITICAL)

import numpy as np  # noqa: E402
import lasio  # noqa: E402
from lasio import CurveItem, HeaderItem, LASFile, SectionItems  # noqa: E402

SECTIONS = ("Version", "Well", "Curves", "Parameter")
CASE_FUNCS = {"preserve": lambda s: s, "upper": str.upper, "lower": str.lower}


def build(version=(), well=(), curves=(("DEPT", "m", "", "depth"),), params=(), other="", nrows=3):
    """A LASFile with the mandatory items plus the given (mnemonic, unit, value, descr) tuples."""
    las = LASFile()
    las.sections["Version"] = SectionItems(
        [
            HeaderItem("VERS", "", 2.0, "CWLS log ASCII Standard -VERSION 2.0"),
            HeaderItem("WRAP", "", "NO", "One line per depth step"),
        ]
        + [HeaderItem(*t) for t in version]
    )
    las.sections["Well"] = SectionItems(
        [
            HeaderItem("STRT", "m", 0.0, "START DEPTH"),
            HeaderItem("STOP", "m", 0.0, "STOP DEPTH"),
            HeaderItem("STEP", "m", 0.0, "STEP"),
        ]
        + [HeaderItem(*t) for t in well]
    )
    las.sections["Curves"] = SectionItems(
        [CurveItem(*t, data=np.arange(nrows, dtype=float) + k) for k, t in enumerate(curves)]
    )
    las.sections["Parameter"] = SectionItems([HeaderItem(*t) for t in params])
    las.sections["Other"] = other
    return las


def snapshot(las):
    return {
        s: [(i.original_mnemonic, i.unit, i.value, i.descr) for i in las.sections[s]]
        for s in SECTIONS
    }


def values_equal(a, b):
    """Numbers are compared numerically, everything else as text."""
    try:
        fa, fb = float(a), float(b)
    except (TypeError, ValueError):
        return str(a) == str(b)
    return fa == fb or (math.isnan(fa) and math.isnan(fb))


def differences(before, after, mnemonic_case):
    """Differences the property does not permit (documented ones are skipped)."""
    f = CASE_FUNCS[mnemonic_case]
    out = []
    for sec in SECTIONS:
        o, b = before[sec], after[sec]
        if len(o) != len(b):
            out.append("%s: %d items written, %d read back (%s -> %s)"
                       % (sec, len(o), len(b), [x[0] for x in o], [x[0] for x in b]))
            continue
        for k, (x, y) in enumerate(zip(o, b)):
            refreshed = sec == "Well" and x[0] in ("STRT", "STOP", "STEP")
            index_curve = sec == "Curves" and k == 0
            vers_line = sec == "Version" and x[0] == "VERS"   # dictated by version=
            tag = "%s[%d] %r" % (sec, k, x[0])
            if f(x[0]) != y[0]:
                out.append("%s: mnemonic %r -> %r" % (tag, x[0], y[0]))
            if x[1] != y[1] and not (refreshed or index_curve or vers_line):
                out.append("%s: unit %r -> %r" % (tag, x[1], y[1]))
            if not (refreshed or vers_line):
                if x[2] == "" and x[1] and sec in ("Well", "Parameter"):
                    ok = y[2] == "" or values_equal(y[2], 0)      # documented: written as 0
                else:
                    ok = values_equal(x[2], y[2])
                if not ok:
                    out.append("%s: value %r -> %r" % (tag, x[2], y[2]))
            if x[3] != y[3] and not vers_line:
                out.append("%s: descr %r -> %r" % (tag, x[3], y[3]))
    return out


def roundtrip(las, version, mnemonic_case, **write_kwargs):
    buf = io.StringIO()
    las.write(buf, version=version, **write_kwargs)
    text = buf.getvalue()
    return text, lasio.read(text, mnemonic_case=mnemonic_case)


RESULTS = []


def case(tier, label, requires, make_las, version, mnemonic_case, show_lines=(), check_other=False,
         vers_strict=False):
    """Run one case; returns True when a violation is demonstrated."""
    print("=" * 78)
    print("[%s] %s" % (tier, label))
    las = make_las()
    before = snapshot(las)
    other_before = las.other
    n_mandatory = {"Version": 2, "Well": 3, "Curves": 1, "Parameter": 0}
    shown = {s: v[n_mandatory[s]:] for s, v in before.items()}
    print("  input items  : (besides VERS/WRAP, STRT/STOP/STEP, curve DEPT)",
          {s: v for s, v in shown.items() if v})
    if check_other:
        print("  input ~Other : %r" % other_before)
    print("  write(version=%s) ; read(mnemonic_case=%r)" % (version, mnemonic_case))
    print("  required     :", requires)
    try:
        text, back = roundtrip(las, version, mnemonic_case)
    except Exception as exc:  # the round trip is not even possible
        print("  lasio does   : raises %s: %s" % (type(exc).__name__, str(exc)[:120]))
        print("  => VIOLATION (no file / no LASFile comes back)")
        RESULTS.append((tier, label, True))
        return True
    diffs = differences(before, snapshot(back), mnemonic_case)
    if vers_strict:
        v0, v1 = before["Version"][0], snapshot(back)["Version"][0]
        if (CASE_FUNCS[mnemonic_case](v0[0]), v0[1], v0[3]) != (v1[0], v1[1], v1[3]):
            diffs.append("Version[0] VERS: (mnemonic, unit, descr) %r -> %r"
                         % ((v0[0], v0[1], v0[3]), (v1[0], v1[1], v1[3])))
    if check_other and back.other != other_before:
        diffs.append("~Other: %r -> %r" % (other_before, back.other))
    wanted = [l for l in text.splitlines() if any(l.startswith(p) for p in show_lines)]
    for l in wanted:
        print("  written line : %r" % l)
    if diffs:
        for d in diffs:
            print("  lasio does   :", d)
        print("  => VIOLATION")
    else:
        print("  lasio does   : round trip is exact")
        print("  => holds")
    RESULTS.append((tier, label, bool(diffs)))
    return bool(diffs)


def main():
    # ------------------------------------------------------------------ tier A
    for mc in ("upper", "lower"):
        case(
            "A1", "mixed-case spelling of NULL in ~Well, LAS 1.2, mnemonic_case=%s" % mc,
            "item 'Null' comes back as %r with value -999.25 and descr 'null value'"
            % CASE_FUNCS[mc]("Null"),
            lambda: build(well=[("Null", "", -999.25, "null value"), ("COMP", "", "ACME", "COMPANY")]),
            1.2, mc, show_lines=("Null",),
        )
    case(
        "A1", "same file, mnemonic_case='preserve' (control: holds)",
        "item 'Null' unchanged",
        lambda: build(well=[("Null", "", -999.25, "null value"), ("COMP", "", "ACME", "COMPANY")]),
        1.2, "preserve", show_lines=("Null",),
    )
    case(
        "A1", "mixed-case 'Stop'/'sTEP' extra items in ~Well, LAS 1.2, mnemonic_case=upper",
        "descriptions 'second stop' / 'a step' stay descriptions",
        lambda: build(well=[("Stop", "ft", "x", "second stop"), ("sTEP", "", "y", "a step")]),
        1.2, "upper", show_lines=("Stop", "sTEP"),
    )
    for sec in ("well", "params", "curves", "version"):
        case(
            "A2", "unit '(m3)/(m3)' (starts with '(' and ends with ')' but is not a bracketed unit) in ~%s" % sec,
            "unit '(m3)/(m3)' comes back unchanged",
            (lambda sec=sec: build(**{sec: ([("DEPT", "m", "", "depth")] if sec == "curves" else [])
                                      + [("PHI", "(m3)/(m3)", "", "porosity")]})),
            2, "preserve", show_lines=("PHI",),
        )
    case(
        "A2", "unit '[a][b]' in ~Parameter, LAS 1.2",
        "unit '[a][b]' comes back unchanged",
        lambda: build(params=[("X", "[a][b]", 5, "d")]),
        1.2, "upper", show_lines=("X",),
    )

    # ------------------------------------------------------------------ tier B
    for sec in ("version", "well", "params"):
        case(
            "B1", "textual value '1,234' (no ':' in it) in ~%s" % sec,
            "value comes back as the text '1,234' (it is not a Python/LAS number)",
            (lambda sec=sec: build(**{sec: [("CASE", "", "1,234", "pieces ordered")]})),
            2, "preserve", show_lines=("CASE",),
        )
    case(
        "B2", "mnemonic '#RUN' (no '.' or ':') in ~Parameter",
        "item '#RUN' comes back",
        lambda: build(params=[("#RUN", "", 2, "run number"), ("BHT", "degC", 35.5, "temp")]),
        2, "preserve", show_lines=("#RUN",),
    )
    case(
        "B2", "mnemonic '~X' (no '.' or ':') in ~Well",
        "items '~X' and 'COMP' come back",
        lambda: build(well=[("~X", "", "v", "d"), ("COMP", "", "ACME", "COMPANY")]),
        2, "preserve", show_lines=("~X",),
    )
    case(
        "B3", "~Other text with indented lines",
        "the same ~Other text",
        lambda: build(other="Remarks\n    1) indented item\n    2) another one"),
        2, "preserve", show_lines=("~~",), check_other=True,
    )

    def dup(section, mnemonic):
        def make():
            las = build()
            las.sections[section].append(HeaderItem(mnemonic, "", "x", "a second %s line" % mnemonic))
            return las
        return make

    case("B4", "duplicate mnemonic WRAP in ~Version", "both WRAP items come back",
         dup("Version", "WRAP"), 2, "preserve", show_lines=("WRAP",))
    case("B4", "duplicate mnemonic VERS in ~Version", "both VERS items come back",
         dup("Version", "VERS"), 2, "preserve", show_lines=("VERS",))
    case("B4", "duplicate mnemonic STOP in ~Well", "both STOP items come back",
         dup("Well", "STOP"), 2, "preserve", show_lines=("STOP",))

    case(
        "B5", "extra ~Version item 'vers' (distinct from VERS), LAS 1.2, mnemonic_case=upper",
        "~Well item COMP keeps value 'ACME' and descr 'COMPANY'",
        lambda: build(version=[("vers", "", "x", "y")], well=[("COMP", "", "ACME", "COMPANY")]),
        1.2, "upper", show_lines=("vers", "VERS", "COMP"),
    )
    case(
        "B5", "~Version item 'dlm' with a free-text value, mnemonic_case=upper",
        "the file can be read back and the item is there",
        lambda: build(version=[("dlm", "", "XYZ", "my own item")]),
        2, "upper", show_lines=("dlm",),
    )

    def vers_descr():
        las = build()
        las.version.VERS.descr = "CWLS LOG ASCII STANDARD -VERSION 2.0"   # as in most real files
        return las

    case(
        "B6", "description of VERS (version unchanged: 2.0 -> 2.0)",
        "VERS keeps its description (not one of the permitted differences)",
        vers_descr, 2, "preserve", show_lines=("VERS",), vers_strict=True,
    )

    def dlm_comma():
        las = build()
        las.version.append(HeaderItem("DLM", "", "COMMA", "DELIMITER"))
        return las

    case(
        "B6", "value of ~Version item DLM",
        "DLM keeps the value 'COMMA' (not one of the permitted differences)",
        dlm_comma, 2, "preserve", show_lines=("DLM",),
    )

    # ------------------------------------------------------------------ summary
    print("=" * 78)
    print("SUMMARY")
    groups = {}
    for tier, label, bad in RESULTS:
        groups.setdefault(tier, []).append((label, bad))
    n_bad = 0
    for tier in sorted(groups):
        bad = [l for l, b in groups[tier] if b]
        print("  %s: %d of %d cases violate the property" % (tier, len(bad), len(groups[tier])))
        if bad:
            n_bad += 1
    print("  violation groups demonstrated: %d" % n_bad)
    return 1 if n_bad else 0


if __name__ == "__main__":
    sys.exit(main())
