#!/usr/bin/env python
"""Bug hunt for property C09 (reading is invariant under presentation-only
changes of the text) on the lasio tree in /tmp/hunt-C09, AS IT IS.

Every case builds two texts A and B that differ only by one of the
transformations listed in the property (amount of blanks/tabs between fields,
LF/CRLF, inserted comment lines, re-wrapping a WRAP=YES file at token
boundaries, re-delimiting with the declared delimiter), reads both with lasio
and compares header items and curve data.

Exit status: 1 if at least one violation is demonstrated, 0 otherwise.
Run:  /venv/bin/python /tmp/hunt-C09/hunt_C09.py
"""
import logging
import math
import os
import sys
import tempfile

HERE = os.path.dirname(os.path.abspath(__file__))
sys.path.insert(0, HERE)

import numpy as np  # noqa: E402
import lasio  # noqa: E402

logging.disable(logging.CRITICAL)


# --------------------------------------------------------------------------
# helpers
# --------------------------------------------------------------------------
def canon(v):
    if isinstance(v, (float, np.floating)):
        return "nan" if math.isnan(v) else float(v)
    if isinstance(v, (int, np.integer)):
        return int(v)
    return str(v)


def summary(file_ref, **kw):
    """(header items per section, curve data) or ('EXC', type, message)."""
    try:
        las = lasio.read(file_ref, **kw)
    except Exception as exc:  # noqa: BLE001
        return ("EXC", type(exc).__name__, str(exc).strip().splitlines()[-1][-90:])
    hdr = {}
    for name, sect in las.sections.items():
        if isinstance(sect, str):
            continue  # ~Other is free text, not "header items"
        hdr[name] = [
            (i.mnemonic, i.unit, canon(i.value), i.descr)
            for i in sect
            # the DLM item itself legitimately differs when re-delimiting
            if not (name == "Version" and i.mnemonic == "DLM")
        ]
    data = [(c.mnemonic, c.data.dtype.kind, [canon(x) for x in c.data.tolist()])
            for c in las.curves]
    return hdr, data


def describe_difference(ra, rb):
    out = []
    if ra[0] == "EXC" or rb[0] == "EXC":
        for tag, r in (("A", ra), ("B", rb)):
            if r[0] == "EXC":
                out.append("    %s -> raises %s: %s" % (tag, r[1], r[2]))
            else:
                out.append("    %s -> reads fine, curve data %r" % (tag, r[1]))
        return out
    for sec in ra[0]:
        a, b = ra[0][sec], rb[0].get(sec)
        if a != b:
            if b is not None and len(a) == len(b):
                for x, y in zip(a, b):
                    if x != y:
                        out.append("    ~%s item  A: %r" % (sec, x))
                        out.append("    ~%s item  B: %r" % (sec, y))
            else:
                out.append("    ~%s A: %r" % (sec, a))
                out.append("    ~%s B: %r" % (sec, b))
    if ra[1] != rb[1]:
        if len(ra[1]) == len(rb[1]):
            for x, y in zip(ra[1], rb[1]):
                if x != y:
                    out.append("    curve A: %r dtype %s first values %r" % (x[0], x[1], x[2][:5]))
                    out.append("    curve B: %r dtype %s first values %r" % (y[0], y[1], y[2][:5]))
        else:
            out.append("    curve data A: %r" % (ra[1],))
            out.append("    curve data B: %r" % (rb[1],))
    return out


RESULTS = []


def show_text(label, text, limit=14):
    print("  %s:" % label)
    lines = text.split("\n")
    for line in lines[:limit]:
        print("      | " + repr(line)[1:-1])
    if len(lines) > limit:
        print("      | ... (%d more lines)" % (len(lines) - limit))


def case(cid, title, transformation, text_a, text_b, only_lines=None, read_a=None,
         read_b=None, **kw):
    """Compare lasio.read(A) with lasio.read(B)."""
    print("=" * 78)
    print("CASE %s: %s" % (cid, title))
    print("  transformation A -> B: %s" % transformation)
    if kw:
        print("  read options: %r" % (kw,))
    if only_lines is None:
        show_text("A", text_a)
        show_text("B", text_b)
    else:
        print("  A and B are identical except for:")
        for what in only_lines:
            print("      " + what)
    ra = read_a(text_a) if read_a else summary(text_a, **kw)
    rb = read_b(text_b) if read_b else summary(text_b, **kw)
    print("  property requires: equal header items and equal curve data")
    if ra == rb:
        print("  lasio: SAME result -> no violation demonstrated")
        RESULTS.append((cid, title, False))
        return False
    print("  lasio: DIFFERENT results -> VIOLATION")
    for line in describe_difference(ra, rb):
        print(line[:400])
    RESULTS.append((cid, title, True))
    return True


HEAD = (
    "~Version\n"
    "VERS. 2.0 : CWLS LOG ASCII STANDARD - VERSION 2.0\n"
    "WRAP. {wrap} : wrap mode\n"
    "{dlm}"
    "~Well\n"
    "STRT.M 1.0 : START\n"
    "STOP.M 2.0 : STOP\n"
    "STEP.M 1.0 : STEP\n"
    "NULL. -999.25 : NULL\n"
    "~Curve\n"
    "{c0}\n"
    "A   .    : a\n"
    "B   .    : b\n"
    "~Parameter\n"
    "{param}\n"
    "~ASCII\n"
)


def mk(data, wrap="NO", dlm=None, c0="DEPT.M : depth", param="X . 1 : x"):
    return HEAD.format(
        wrap=wrap,
        dlm="" if dlm is None else "DLM . %s : delimiter\n" % dlm,
        c0=c0,
        param=param,
    ) + data


# --------------------------------------------------------------------------
# V1  ~Curve: mnemonic/unit split of 'NAME..UNIT' depends on a blank
# --------------------------------------------------------------------------
def v1():
    a = mk("1 2 3\n", c0="DEPT ..1IN : depth in tenths of an inch")
    b = mk("1 2 3\n", c0="DEPT..1IN : depth in tenths of an inch")
    hit = case(
        "V1a", "~Curve line: blanks between the mnemonic and the delimiting dot",
        "remove the blank between the mnemonic and the '.' delimiter",
        a, b,
        only_lines=["A: 'DEPT ..1IN : depth in tenths of an inch'",
                    "B: 'DEPT..1IN : depth in tenths of an inch'"])
    c = mk("1 2 3\n", c0="DEPT\t..1IN : depth in tenths of an inch")
    hit |= case(
        "V1b", "~Curve line: blank versus tab between the mnemonic and the dot",
        "replace the blank between mnemonic and '.' by a tab",
        a, c,
        only_lines=["A: 'DEPT ..1IN : ...'", "B: 'DEPT<TAB>..1IN : ...'"])
    # the same on an example-corpus file
    path = os.path.join(HERE, "tests", "examples", "autodepthindex_point_one_inch.las")
    if os.path.exists(path):
        with open(path) as f:
            text = f.read()
        assert " DEPT  ..1IN" in text
        text_b = text.replace(" DEPT  ..1IN", " DEPT..1IN  ")
        hit |= case(
            "V1c", "corpus file tests/examples/autodepthindex_point_one_inch.las",
            "line ' DEPT  ..1IN   : ' -> ' DEPT..1IN     : ' (blanks moved)",
            text, text_b,
            only_lines=["A: ' DEPT  ..1IN ...'", "B: ' DEPT..1IN   ...'"])
    return hit


# --------------------------------------------------------------------------
# V2  digits-only unit: one blank versus two between unit and value
# --------------------------------------------------------------------------
def v2():
    a = mk("1 2 3\n", param="CSG .10   2500 : casing code, shoe depth")
    b = mk("1 2 3\n", param="CSG .10 2500 : casing code, shoe depth")
    hit = case(
        "V2a", "header line with a digits-only unit: amount of blanks between unit and value",
        "three blanks between the unit '10' and the value '2500' reduced to one",
        a, b,
        only_lines=["A: 'CSG .10   2500 : casing code, shoe depth'",
                    "B: 'CSG .10 2500 : casing code, shoe depth'"])
    path = os.path.join(HERE, "tests", "examples", "issue79.las")
    if os.path.exists(path):
        f, _enc = lasio.reader.open_file(path)
        text = f.read()
        f.close()
        old = "  1088.1737   339.4208"
        assert old in text
        text_b = text.replace(old, "  1088.1737 339.4208", 1)
        hit |= case(
            "V2b", "corpus file tests/examples/issue79.las (rows of a '~   DEPTH ...' "
            "section are parsed as header lines)",
            "'  1088.1737   339.4208 ...' -> '  1088.1737 339.4208 ...'",
            text, text_b,
            only_lines=["A: '  1088.1737   339.4208     9.0000 ...'",
                        "B: '  1088.1737 339.4208     9.0000 ...'"])
    return hit


# --------------------------------------------------------------------------
# V3  ~Parameter: the time-colon heuristics look at the blanks round the colon
# --------------------------------------------------------------------------
def v3():
    a = mk("1 2 3\n", param="RUN .   12 : Run number: first run")
    b = mk("1 2 3\n", param="RUN .   12: Run number: first run")
    hit = case(
        "V3a", "~Parameter line: blank between the value and the ':' delimiter",
        "remove the blank between the value '12' and the delimiting colon",
        a, b,
        only_lines=["A: 'RUN .   12 : Run number: first run'",
                    "B: 'RUN .   12: Run number: first run'"])
    c = mk("1 2 3\n", param="RUN .\t12: Run number: first run")
    hit |= case(
        "V3b", "~Parameter line: blank versus tab between unit and value",
        "replace the blanks in front of the value '12' by a tab",
        b, c,
        only_lines=["A: 'RUN .   12: Run number: first run'",
                    "B: 'RUN .<TAB>12: Run number: first run'"])
    d = mk("1 2 3\n", param="BS  .IN  8.5 : 12 1/4 in the upper hole: see report")
    e = mk("1 2 3\n", param="BS  .IN  8.5 :12 1/4 in the upper hole: see report")
    hit |= case(
        "V3c", "~Parameter line: blank between the ':' delimiter and the description",
        "remove the blank between the delimiting colon and the description '12 1/4 in ...'",
        d, e,
        only_lines=["A: 'BS  .IN  8.5 : 12 1/4 in the upper hole: see report'",
                    "B: 'BS  .IN  8.5 :12 1/4 in the upper hole: see report'"])
    return hit


# --------------------------------------------------------------------------
# V4  WRAP=YES: the hyphen sniffing works per physical line
# --------------------------------------------------------------------------
def v4():
    a = mk("1.0 2018-05-22 -5.0\n2.0 2018-05-23 -6.0\n", wrap="YES")
    b = mk("1.0\n2018-05-22 -5.0\n2.0\n2018-05-23 -6.0\n", wrap="YES")
    return case(
        "V4", "WRAP=YES file with a date column: re-wrapping",
        "all values of a depth step on one line -> the standard wrapped layout "
        "(depth alone on its line)",
        a, b,
        only_lines=["A data: '1.0 2018-05-22 -5.0' / '2.0 2018-05-23 -6.0'",
                    "B data: '1.0' / '2018-05-22 -5.0' / '2.0' / '2018-05-23 -6.0'"])


# --------------------------------------------------------------------------
# V5  WRAP=YES: a token that starts with '#' (or '~') moved to a line start
# --------------------------------------------------------------------------
def v5():
    a = mk("1.0 #N/A -5.0\n2.0 #N/A -6.0\n", wrap="YES")
    b = mk("1.0\n#N/A\n-5.0\n2.0\n#N/A\n-6.0\n", wrap="YES")
    hit = case(
        "V5a", "WRAP=YES file with the text token '#N/A': one value per line",
        "re-wrap from all values on one line to one value per line",
        a, b,
        only_lines=["A data: '1.0 #N/A -5.0' / '2.0 #N/A -6.0'",
                    "B data: '1.0' / '#N/A' / '-5.0' / '2.0' / '#N/A' / '-6.0'"])
    c = mk("1.0 ~5 -5.0\n2.0 ~6 -6.0\n", wrap="YES")
    d = mk("1.0\n~5\n-5.0\n2.0\n~6\n-6.0\n", wrap="YES")
    hit |= case(
        "V5b", "WRAP=YES file with the text token '~5': one value per line",
        "re-wrap from all values on one line to one value per line",
        c, d,
        only_lines=["A data: '1.0 ~5 -5.0' / '2.0 ~6 -6.0'",
                    "B data: '1.0' / '~5' / '-5.0' / '2.0' / '~6' / '-6.0'"])
    return hit


# --------------------------------------------------------------------------
# V6  the numpy engine cuts a data line at '#', the normal engine does not
# --------------------------------------------------------------------------
def v6():
    a = mk("1.0 2.0 #12\n2.0 3.0 #13\n")
    b = mk("1.0,2.0,#12\n2.0,3.0,#13\n", dlm="COMMA")
    hit = case(
        "V6a", "a column of sample labels '#12', '#13': SPACE versus COMMA",
        "re-delimit SPACE -> COMMA (DLM item added accordingly)",
        a, b,
        only_lines=["A: DLM SPACE (default), data '1.0 2.0 #12' / '2.0 3.0 #13'",
                    "B: DLM COMMA,           data '1.0,2.0,#12' / '2.0,3.0,#13'"])
    path = os.path.join(HERE, "tests", "examples", "null_policy_ind.las")
    if os.path.exists(path):
        with open(path) as f:
            text = f.read()
        head, _, data = text.partition("~A")
        title, _, rows = data.partition("\n")
        rows_b = "\n".join(",".join(r.split()) for r in rows.split("\n") if r.strip())
        head_b = head.replace("~W", "DLM . COMMA : delimiter\n~W", 1)
        if "DLM" not in head_b:
            head_b = None
        if head_b:
            text_b = head_b + "~A" + title + "\n" + rows_b + "\n"
            hit |= case(
                "V6b", "corpus file tests/examples/null_policy_ind.las ('-1.#IND0000' values)",
                "re-delimit SPACE -> COMMA",
                text, text_b,
                only_lines=["A: the file as it is (blank-separated)",
                            "B: 'DLM . COMMA' added to ~V, every data row joined with ','"])
    return hit


# --------------------------------------------------------------------------
# V7  the COMMA splitter keeps quote characters, SPACE and TAB remove them
# --------------------------------------------------------------------------
def v7():
    a = mk('1.0 "SAND" 3\n2.0 "SHALE" 4\n')
    b = mk('1.0,"SAND",3\n2.0,"SHALE",4\n', dlm="COMMA")
    c = mk('1.0\t"SAND"\t3\n2.0\t"SHALE"\t4\n', dlm="TAB")
    hit = case(
        "V7a", "quoted text values: SPACE versus COMMA",
        "re-delimit SPACE -> COMMA, every token kept as it is",
        a, b,
        only_lines=["A: data '1.0 \"SAND\" 3' / '2.0 \"SHALE\" 4'",
                    "B: data '1.0,\"SAND\",3' / '2.0,\"SHALE\",4'"])
    hit |= case(
        "V7b", "quoted text values: TAB versus COMMA",
        "re-delimit TAB -> COMMA, every token kept as it is",
        c, b,
        only_lines=["A: data '1.0<TAB>\"SAND\"<TAB>3' ...", "B: data '1.0,\"SAND\",3' ..."])
    return hit


# --------------------------------------------------------------------------
# V8  reading from a path: the encoding is guessed from the raw bytes
# --------------------------------------------------------------------------
def read_path(text, encoding):
    def reader_(t):
        with tempfile.NamedTemporaryFile("wb", suffix=".las", delete=False) as f:
            f.write(t.encode(encoding))
            name = f.name
        try:
            las = lasio.read(name)
            print("      (lasio.read(path): encoding detected as %r)" % las.encoding)
            return summary(name)
        finally:
            os.unlink(name)
    return reader_


def v8():
    data = "".join("%d.0 %d.5\n" % (i, i) for i in range(1, 4))
    a = mk(data, c0="DEPT.M : depth").replace("A   .    : a", "TEMP.°C  : temperature in °C")
    pad = "".join("# comment line number %03d --------------------------\n" % i
                  for i in range(90))
    b = a.replace("~Well\n", pad + "~Well\n", 1)
    hit = case(
        "V8a", "UTF-8 file on disk, lasio.read(path): comment lines inserted in ~Version",
        "insert 90 '#' comment lines (about 4.7 kB) at the end of the ~Version section",
        a, b,
        only_lines=["A: header has 'TEMP.°C  : temperature in °C' (UTF-8 bytes on disk)",
                    "B: the same plus 90 comment lines in front of '~Well'"],
        read_a=read_path(a, "utf-8"), read_b=read_path(b, "utf-8"))
    path = os.path.join(HERE, "tests", "examples", "3.0", "sample_3.0.las")
    if os.path.exists(path):
        with open(path, "rb") as f:
            text = f.read().decode("cp1252")
        assert "\r\n" in text
        # base file: the corpus file with its two commented-out lat/long lines
        # turned into ~Well items (so that the degree sign is in a header item)
        text = text.replace("# LATI .", " LATX .").replace("# LONG .", " LONX .")
        text_b = text.replace("\r\n", "\n")
        hit |= case(
            "V8b", "cp1252 file on disk (tests/examples/3.0/sample_3.0.las with its two "
            "commented '# LATI .'/'# LONG .' lines made items LATX/LONX), lasio.read(path)",
            "switch CRLF -> LF",
            text, text_b,
            only_lines=["A: CRLF line ends", "B: LF line ends"],
            read_a=read_path(text, "cp1252"), read_b=read_path(text_b, "cp1252"))
    return hit


# --------------------------------------------------------------------------
# V9  non-default null_policy: the substitutions want literal blanks
# --------------------------------------------------------------------------
def v9():
    a = mk("1.0 - 3.0\n2.0 -- 4.0\n")
    b = mk("1.0\t-\t3.0\n2.0\t--\t4.0\n")
    hit = case(
        "V9a", "null_policy='common': blanks versus tabs between the data values",
        "replace the single blanks between the values by single tabs",
        a, b, null_policy="common",
        only_lines=["A: data '1.0 - 3.0' / '2.0 -- 4.0'",
                    "B: data '1.0<TAB>-<TAB>3.0' / '2.0<TAB>--<TAB>4.0'"])
    c = mk("1.0 2.0 3.0\n2.0 3.0 4.0\n")
    d = mk("1.0 \t2.0 3.0\n2.0 \t3.0 4.0\n")
    hit |= case(
        "V9b", "null_policy='numbers-only': a blank+tab separator",
        "separator ' ' -> ' <TAB>' between the first two values",
        c, d, null_policy="numbers-only",
        only_lines=["A: data '1.0 2.0 3.0' / '2.0 3.0 4.0'",
                    "B: data '1.0 <TAB>2.0 3.0' / '2.0 <TAB>3.0 4.0'"])
    e = mk("1.0 - 3.0\n2.0 - 4.0\n", wrap="YES")
    f = mk("1.0\n-\n3.0\n2.0\n-\n4.0\n", wrap="YES")
    hit |= case(
        "V9c", "null_policy='common', WRAP=YES: one value per line",
        "re-wrap to one value per line",
        e, f, null_policy="common",
        only_lines=["A: data '1.0 - 3.0' / '2.0 - 4.0'",
                    "B: data '1.0' / '-' / '3.0' / '2.0' / '-' / '4.0'"])
    return hit


def main():
    for fn in (v1, v2, v3, v4, v5, v6, v7, v8, v9):
        try:
            fn()
        except Exception as exc:  # noqa: BLE001
            print("!! case group %s could not be run: %r" % (fn.__name__, exc))
    print("=" * 78)
    print("SUMMARY")
    n = 0
    for cid, title, hit in RESULTS:
        print("  %-4s %-9s %s" % (cid, "VIOLATION" if hit else "ok", title[:100]))
        n += bool(hit)
    groups = sorted({cid[:2] for cid, _t, hit in RESULTS if hit})
    print("%d demonstrations in %d groups (%s) violate C09" % (n, len(groups), ", ".join(groups)))
    return 1 if n else 0


if __name__ == "__main__":
    sys.exit(main())
