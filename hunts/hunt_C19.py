#!/venv/bin/python
"""Hunt for violations of PROPERTY C19 (ignore_header_errors makes header
parsing tolerant and non-interfering) on the unmodified lasio tree in
/tmp/hunt-C19.

Run:  /venv/bin/python /tmp/hunt-C19/hunt_C19.py
Exit status 1 if at least one in-domain violation is demonstrated, else 0.

All three violations share one trigger: the file is read FROM DISK (a file
name / Path), so lasio sniffs the character encoding from the first 4000 bytes
with chardet (installed in /venv) -- and a junk header line made only of
printable ASCII is part of what is sniffed.
"""
import logging
import os
import shutil
import sys
import tempfile

HERE = os.path.dirname(os.path.abspath(__file__))
sys.path.insert(0, HERE)

import numpy as np  # noqa: E402
import lasio  # noqa: E402
from lasio import exceptions  # noqa: E402

assert os.path.dirname(os.path.abspath(lasio.__file__)) == os.path.join(HERE, "lasio"), lasio.__file__
logging.disable(logging.CRITICAL)

try:
    import chardet  # noqa: F401

    HAVE_CHARDET = True
except ImportError:
    HAVE_CHARDET = False

TMP = tempfile.mkdtemp(prefix="_hunt_tmp_", dir=HERE)
VIOLATIONS = []


def on_disk(text, name, encoding="ascii"):
    path = os.path.join(TMP, name)
    with open(path, "wb") as f:
        f.write(text.encode(encoding))
    return path


def insert_after(text, marker, junk_lines):
    out = []
    for line in text.split("\n"):
        out.append(line)
        if line.startswith(marker):
            out.extend(junk_lines)
    return "\n".join(out)


def items(las):
    """(section, original mnemonic, unit, value, descr) of every header item."""
    res = []
    for name, sec in las.sections.items():
        if isinstance(sec, str):
            continue
        for it in sec:
            res.append((name, it.original_mnemonic, it.unit, repr(it.value), it.descr))
    return res


def data_of(las):
    # repr() so that nan compares equal to nan
    return repr([(c.original_mnemonic, np.asarray(c.data).tolist()) for c in las.curves])


def attempt(path, **kw):
    try:
        return lasio.read(path, **kw), None
    except BaseException as e:  # noqa
        return None, e


def short(s, n=70):
    s = repr(s)
    return s if len(s) <= n else s[: n - 12] + "...<%d chars>" % len(s)


def report(label, junk, requires, got, violated):
    print("-" * 78)
    print(label)
    print("  junk line(s)      :", ", ".join(short(j) for j in junk))
    print("  property requires :", requires)
    print("  lasio does        :", got)
    print("  ==> %s" % ("VIOLATION" if violated else "holds"))
    if violated:
        VIOLATIONS.append(label)


BASE = """~Version
VERS. 2.0 : CWLS
WRAP. NO : one line per step
~Well
STRT.M 1.0 : start
STOP.M 3.0 : stop
STEP.M 1.0 : step
NULL. -999.25 : null
COMP. A+B Oil : company
~Parameter
BHT.DEGC 35.5 : bottom hole temp
~Curves
DEPT.M : depth
GR.GAPI : gamma
~ASCII
1.0 1.0E+01
2.0 -999.25
3.0 3.0E+01
"""


def main():
    print("lasio under test:", lasio.__file__)
    print("chardet available:", HAVE_CHARDET)
    if not HAVE_CHARDET:
        print("chardet is not installed: the three cases cannot be demonstrated here.")

    # sanity: the base file itself is readable from disk and as a string
    base_path = on_disk(BASE, "base.las")
    ref, err = attempt(base_path)
    assert err is None, err
    ref_items, ref_data = items(ref), data_of(ref)

    # ------------------------------------------------------------------ V1
    # A short junk line holding an HZ-GB-2312 shift pair "~{..~}" (all printable
    # ASCII, does not start with '~', names no steering mnemonic).
    for site in ("~Version", "~Well", "~Parameter"):
        junk = ["FOO. ~{ab~} : junk"]
        path = on_disk(insert_after(BASE, site, junk), "v1_%s.las" % site[1:])
        las, err = attempt(path, ignore_header_errors=True)
        report(
            "V1a  [%s] ignore_header_errors=True: junk line makes read() raise" % site,
            junk,
            "read() must not raise; genuine items and data unchanged",
            "raised %s: %s" % (type(err).__name__, err) if err else "read OK (encoding %s)" % las.encoding,
            err is not None,
        )
    junk = ["zz ~{ab~} zz"]  # cannot be understood at all (no '.' and no ':')
    path = on_disk(insert_after(BASE, "~Well", junk), "v1_noflag.las")
    las, err = attempt(path)
    report(
        "V1b  [~Well] flag off: the exception is not LASHeaderError naming the line",
        junk,
        "LASHeaderError whose message names the junk line",
        "raised %s: %s" % (type(err).__name__, err) if err else "read OK",
        not (isinstance(err, exceptions.LASHeaderError) and junk[0] in str(err)),
    )
    # the same text passed as a string (no encoding sniffing) behaves properly
    las, err = attempt(insert_after(BASE, "~Well", ["FOO. ~{ab~} : junk"]), ignore_header_errors=True)
    print("  (control: same text passed as a str ->",
          "raised %r" % err if err else "read OK, genuine items intact: %s, data intact: %s)"
          % (all(i in items(las) for i in ref_items), data_of(las) == ref_data))

    # ------------------------------------------------------------------ V2
    # A junk line holding a valid UTF-7 shifted sequence; the line is long
    # enough (property: "very long") for the sniffed 4000 bytes to contain no
    # other '+'.  The whole file is then decoded as UTF-7 with errors="replace".
    junk = ["FOO. +AOkA6Q- : " + "y" * 4000]
    path = on_disk(insert_after(BASE, "~Version", junk), "v2.las")
    las, err = attempt(path, ignore_header_errors=True)
    report(
        "V2a  [~Version] ignore_header_errors=True: junk line makes read() raise",
        junk,
        "read() must not raise; curve data unchanged",
        "raised %s: %s" % (type(err).__name__, str(err)[-90:]) if err else "read OK (encoding %s)" % las.encoding,
        err is not None,
    )
    las, err = attempt(path)
    report(
        "V2b  [~Version] flag off: the exception is not LASHeaderError",
        junk,
        "no exception (the line parses) or LASHeaderError naming the line",
        "raised %s: %s" % (type(err).__name__, str(err)[-90:]) if err else "read OK",
        err is not None and not isinstance(err, exceptions.LASHeaderError),
    )
    las, err = attempt(path, ignore_header_errors=True, ignore_data=True)
    ref_hdr, _ = attempt(base_path, ignore_data=True)
    if err is None:
        changed = [i for i in items(ref_hdr) if i not in items(las)]
        report(
            "V2c  [~Version] ignore_data=True: value of a genuine ~Well item is changed",
            junk,
            "COMP keeps its value 'A+B Oil'",
            "encoding=%s; genuine items no longer present: %s; COMP.value=%r"
            % (las.encoding, changed, las.well["COMP"].value if "COMP" in las.well else None),
            bool(changed),
        )
    else:
        report("V2c", junk, "no raise", "raised %r" % err, True)
    # many ordinary-length junk lines do the same as one long line ("forall counts")
    junk = ["FOO. +AOkA6Q- : x"] + ["J%d. 1 : %s" % (i, "y" * 60) for i in range(60)]
    path = on_disk(insert_after(BASE, "~Version", junk), "v2_many.las")
    las, err = attempt(path, ignore_header_errors=True)
    report(
        "V2d  [~Version] 61 junk lines of <= 70 chars: read() raises",
        junk[:2] + ["... 59 more like the 2nd"],
        "read() must not raise",
        "raised %s: %s" % (type(err).__name__, str(err)[-90:]) if err else "read OK (encoding %s)" % las.encoding,
        err is not None,
    )

    # ------------------------------------------------------------------ V3
    # Base file: the UTF-8 (no BOM) example shipped with lasio.  ASCII junk in
    # ~V pushes every non-ASCII byte beyond the 4000 sniffed bytes, the file is
    # opened as "ascii" with errors="replace" and genuine items are corrupted.
    src = os.path.join(HERE, "tests", "examples", "encodings_utf8.las")
    raw = open(src, "rb").read()
    nl = b"\r\n" if b"\r\n" in raw else b"\n"
    first, rest = raw.split(nl, 1)
    ref8, err = attempt(src)
    assert err is None, err
    for label, junk in (
        ("one very long line that cannot be understood", ["x" * 4000]),
        ("one very long line that parses", ["JUNK. 1 : " + "y" * 4000]),
        ("100 lines of 40 chars", ["junk %03d %s" % (i, "z" * 31) for i in range(100)]),
    ):
        path = os.path.join(TMP, "v3.las")
        with open(path, "wb") as f:
            f.write(first + nl + nl.join(j.encode("ascii") for j in junk) + nl + rest)
        las, err = attempt(path, ignore_header_errors=True)
        if err is not None:
            report("V3   [~Version] " + label, junk[:1], "no raise", "raised %r" % err, True)
            continue
        lost = [i for i in items(ref8) if i not in items(las)]
        same_data = repr(np.asarray(las.data).tolist()) == repr(np.asarray(ref8.data).tolist())
        report(
            "V3   [~Version of tests/examples/encodings_utf8.las] %s: unit / descr / mnemonic "
            "of genuine items changed" % label,
            junk[:1] + (["... %d more" % (len(junk) - 1)] if len(junk) > 1 else []),
            "every genuine item keeps mnemonic, unit, value, descr (encoding without junk: %s)" % ref8.encoding,
            "encoding=%s; %d genuine items altered, e.g. %s -> now %s (data intact: %s)"
            % (
                las.encoding,
                len(lost),
                [i for i in lost if i[0] == "Parameter"][:1],
                [i for i in items(las) if i[0] == "Parameter" and i[1] == "BHT"],
                same_data,
            ),
            bool(lost),
        )

    # ------------------------------------------------------- informational
    print("-" * 78)
    print("BORDERLINE (not counted): a junk line ' ~X' (blank, then '~')")
    txt = insert_after(BASE, "STRT.", [" ~X"])
    las, err = attempt(txt, ignore_header_errors=True)
    if err is None:
        print("  lasio strips the line first, so it is a section title: ~Well now has %s, "
              "a new section %r holds %s"
              % ([i.original_mnemonic for i in las.well],
                 "X", [i.original_mnemonic for i in las.sections.get("X", [])]))
    else:
        print("  raised %r" % err)
    print("  judged OUTSIDE the domain: the statement excludes lines starting with '~' because they")
    print("  are section titles, and lasio decides that after stripping blanks.")

    print("=" * 78)
    print("%d violating case(s) demonstrated (3 distinct violations V1, V2, V3):" % len(VIOLATIONS))
    for v in VIOLATIONS:
        print("  *", v)
    return 1 if VIOLATIONS else 0


if __name__ == "__main__":
    try:
        status = main()
    finally:
        shutil.rmtree(TMP, ignore_errors=True)
    sys.exit(status)
