"""Hunt on property C03: header metadata survives write -> read.

Run with:  /venv/bin/python /tmp/hunt2-C03/hunt_C03.py

Every case builds a LASFile whose header items use LAS-conformant fields,
writes it as LAS 1.2 and 2.0, reads the text back and prints what the property
requires next to what lasio returns.  Exit status 1 if at least one violation
is demonstrated, 0 otherwise.  lasio itself is not modified.
"""
import io
import logging
import os
import sys
from fractions import Fraction

sys.path.insert(0, os.path.dirname(os.path.abspath(__file__)))

import numpy as np  # noqa: E402

import lasio  # noqa: E402
from lasio import CurveItem, HeaderItem  # noqa: E402

logging.disable(logging.CRITICAL)

VIOLATIONS = []


def new_las():
    las = lasio.LASFile()
    las.append_curve("DEPT", np.array([1.0, 2.0, 3.0]), unit="m")
    return las


def roundtrip(las, version, case="preserve"):
    buf = io.StringIO()
    las.write(buf, version=version)
    text = buf.getvalue()
    return text, lasio.read(text, mnemonic_case=case)


def header_lines(text, *mnemonics):
    return [
        line
        for line in text.splitlines()
        if any(line.startswith(m) for m in mnemonics)
    ]


def exactly_equal(number, read_back):
    """Numeric comparison without rounding either side to float64."""
    try:
        if isinstance(read_back, (int, np.integer)):
            return Fraction(int(number)) == Fraction(int(read_back))
        return Fraction(int(number)) == Fraction(float(read_back))
    except (TypeError, ValueError):
        return False


# ---------------------------------------------------------------------------
# Violation 1: an integer value beyond the int64 range loses its low digits
# ---------------------------------------------------------------------------
def case_big_integer():
    print("=" * 78)
    print("CASE 1  integer header value outside the int64 range")
    print("=" * 78)
    demonstrated = False
    big = 12345678901234567890  # 20 digits, > 2**63 - 1
    for version in (1.2, 2.0):
        for kind, value in (("int", big), ("text", str(big))):
            las = new_las()
            las.version.append(HeaderItem("VX", "", value, "extra version item"))
            las.well.append(HeaderItem("LIC", "", value, "licence number"))
            las.params.append(HeaderItem("SER", "", value, "tool serial number"))
            text, back = roundtrip(las, version)
            print("\nversion=%s, value given as %s %r" % (version, kind, value))
            for line in header_lines(text, "VX", "LIC", "SER"):
                print("   written : %s" % line)
            for section, mnemonic in (
                ("version", "VX"),
                ("well", "LIC"),
                ("params", "SER"),
            ):
                got = getattr(back, section)[mnemonic].value
                same = exactly_equal(big, got)
                print(
                    "   ~%-8s required value %d, lasio returns %r (%s) -> %s"
                    % (
                        section,
                        big,
                        got,
                        type(got).__name__,
                        "same number" if same else "DIFFERENT NUMBER (%d)" % int(got),
                    )
                )
                if not same:
                    demonstrated = True
            # a second cycle shows the loss in the file itself
            text2, _ = roundtrip(back, version)
            for line in header_lines(text2, "SER"):
                print("   2nd write: %s" % line)
    # the boundary: the largest int64 survives, the next integer does not
    for value in (2**63 - 1, 2**63 + 1, -(2**63), -(2**63) - 1):
        las = new_las()
        las.params.append(HeaderItem("P", "", value, "d"))
        _, back = roundtrip(las, 2.0)
        got = back.params["P"].value
        print(
            "   boundary %d -> %r : %s"
            % (value, got, "ok" if exactly_equal(value, got) else "CHANGED")
        )
    if demonstrated:
        VIOLATIONS.append(
            "integer value beyond int64 is read back as a float64 with other digits"
        )


# ---------------------------------------------------------------------------
# Violation 2: a value of None is '' in ~Well/~Parameter but the text "None"
#              in ~Version and ~Curves
# ---------------------------------------------------------------------------
def case_none_value():
    print()
    print("=" * 78)
    print("CASE 2  value None (no value) in each of the four sections")
    print("=" * 78)
    demonstrated = False
    for version in (1.2, 2.0):
        las = new_las()
        las.version.append(HeaderItem("VX", "", None, "version item"))
        las.well.append(HeaderItem("WX", "", None, "well item"))
        las.params.append(HeaderItem("PX", "", None, "parameter item"))
        las.append_curve_item(
            CurveItem("CX", "", None, "curve item", data=np.array([1.0, 2.0, 3.0]))
        )
        text, back = roundtrip(las, version)
        print("\nversion=%s" % version)
        for line in header_lines(text, "VX", "WX", "PX", "CX"):
            print("   written : %s" % line)
        for section, mnemonic in (
            ("version", "VX"),
            ("well", "WX"),
            ("curves", "CX"),
            ("params", "PX"),
        ):
            got = getattr(back, section)[mnemonic].value
            ok = got == ""
            print(
                "   ~%-8s required '' (empty value), lasio returns %r -> %s"
                % (section, got, "ok" if ok else "TEXT INVENTED")
            )
            if not ok:
                demonstrated = True
    if demonstrated:
        VIOLATIONS.append(
            'value None is written as the text "None" in ~Version and ~Curves '
            "('' in ~Well and ~Parameter)"
        )


# ---------------------------------------------------------------------------
# Not counted: borderline observations (documented in HUNT_C03.md)
# ---------------------------------------------------------------------------
def borderline():
    print()
    print("=" * 78)
    print("BORDERLINE (not counted as violations, see HUNT_C03.md)")
    print("=" * 78)
    # (a) unit that begins and ends with a bracket but is not enclosed by a pair
    for unit in ("(()", "[a[b]"):
        las = new_las()
        las.params.append(HeaderItem("P", unit, "v", "d"))
        _, back = roundtrip(las, 2.0)
        print("   unit %-8r read back as %r" % (unit, back.params["P"].unit))
    # (b) mandatory items under another letter case, file read with 'preserve'
    text = (
        "~Version\nvers. 2.0 : v\nwrap. NO : w\n~Well\nstrt.m 1 : a\nstop.m 3 : b\n"
        "step.m 1 : c\nnull. -999.25 : n\n~Curve\ndept.m : d\n~Params\n~Other\n"
        "~ASCII\n1\n2\n3\n"
    )
    las = lasio.read(text, mnemonic_case="preserve")
    try:
        las.write(io.StringIO(), version=2.0)
        print("   lower-case mandatory items, preserve: written")
    except Exception as error:  # noqa: BLE001
        print("   lower-case mandatory items, preserve: write() raises %r" % error)
    # (c) a section without its mandatory items
    las = new_las()
    del las.well[:]
    try:
        las.write(io.StringIO(), version=2.0)
        print("   empty ~Well: written")
    except Exception as error:  # noqa: BLE001
        print("   empty ~Well: write() raises %r" % error)
    # (d) Unicode whitespace at the edge of a field, Unicode digits
    las = new_las()
    las.params.append(HeaderItem("P", "", " x", "y　"))
    las.params.append(HeaderItem("Q", "", "١٢٣", "arabic-indic digits"))
    _, back = roundtrip(las, 2.0)
    print(
        "   value '\\xa0x' -> %r, descr 'y\\u3000' -> %r, value '١٢٣' -> %r"
        % (back.params["P"].value, back.params["P"].descr, back.params["Q"].value)
    )
    # (e) non-finite numbers, float32
    las = new_las()
    las.params.append(HeaderItem("N", "", float("nan"), "d"))
    las.params.append(HeaderItem("I", "", float("inf"), "d"))
    las.params.append(HeaderItem("F", "", np.float32(0.1), "d"))
    _, back = roundtrip(las, 2.0)
    print(
        "   nan -> %r, inf -> %r, float32(0.1) -> %r"
        % (back.params["N"].value, back.params["I"].value, back.params["F"].value)
    )


if __name__ == "__main__":
    case_big_integer()
    case_none_value()
    borderline()
    print()
    print("=" * 78)
    print("%d in-domain violation(s) demonstrated" % len(VIOLATIONS))
    for number, text in enumerate(VIOLATIONS, 1):
        print("  %d. %s" % (number, text))
    sys.exit(1 if VIOLATIONS else 0)
