#!/venv/bin/python
"""Hunt for violations of property C14 (curve collection == ordered list model).

Run:  /venv/bin/python /tmp/hunt-C14/hunt_C14.py
Exit status 1 if at least one in-domain violation is demonstrated, 0 otherwise.

Every case prints the call sequence, what a plain list model of
(name, metadata, 1-D array) requires, and what lasio does.
Cases labelled BORDERLINE are shown for documentation but do not count
towards the exit status.
"""
import os
import sys
import logging

HERE = os.path.dirname(os.path.abspath(__file__))
sys.path.insert(0, HERE)

import numpy as np  # noqa: E402
import lasio  # noqa: E402
from lasio import CurveItem  # noqa: E402

assert os.path.abspath(lasio.__file__).startswith(HERE), lasio.__file__
logging.getLogger("lasio").setLevel(logging.ERROR)

LAS_TEXT = """~Version
VERS. 2.0 :
WRAP. NO  :
~Well
STRT.M 1.0 :
STOP.M 3.0 :
STEP.M 1.0 :
NULL. -999.25 :
~Curve
DEPT.M   : depth
GR.API   : gamma
~A
1 10
2 11
3 12
"""

violations = []
borderline = []


def fresh():
    las = lasio.LASFile()
    las.append_curve("DEPT", np.array([1.0, 2.0, 3.0]))
    las.append_curve("GR", np.array([10.0, 11.0, 12.0]))
    return las


def report(label, counted, violated, calls, required, actual):
    kind = "VIOLATION" if counted else "BORDERLINE"
    print("=" * 78)
    print("%s  [%s]  %s" % (label, kind, "DEMONSTRATED" if violated else "not reproduced"))
    print("  calls    :", calls)
    print("  required :", required)
    print("  lasio    :", actual)
    if violated:
        (violations if counted else borderline).append(label)


# ---------------------------------------------------------------------------
# V1  set_data with a zero-row 2-D array is silently ignored (data AND names)
# ---------------------------------------------------------------------------
def v1():
    for kind, make in (("fresh", fresh), ("read", lambda: lasio.read(LAS_TEXT))):
        las = make()
        arr = np.empty((0, 2))
        las.set_data(arr, names=["MD", "GAMMA"])
        keys = las.keys()
        lens = [len(v) for v in las.values()]
        bad = keys != ["MD", "GAMMA"] or lens != [0, 0] or las.data.shape != (0, 2)
        report(
            "V1a (%s LASFile) set_data(zero-row array as wide as the curve list, names=...)" % kind,
            True, bad,
            "las with curves DEPT, GR (3 samples each); las.set_data(np.empty((0, 2)), names=['MD', 'GAMMA'])",
            "keys ['MD', 'GAMMA'], every curve array has 0 samples, data.shape (0, 2)",
            "keys %r, curve lengths %r, data.shape %r" % (keys, lens, las.data.shape),
        )
    las = fresh()
    las.data = np.empty((0, 2))
    lens = [len(v) for v in las.values()]
    report(
        "V1b las.data = zero-row array",
        True, lens != [0, 0],
        "las with DEPT, GR (3 samples); las.data = np.empty((0, 2))",
        "both curve arrays are replaced by empty arrays; las.data.shape == (0, 2)",
        "curve lengths %r, data.shape %r" % (lens, las.data.shape),
    )
    las = fresh()
    las.set_data(np.empty((0, 4)))
    report(
        "V1c zero-row array WIDER than the curve list does not extend the curve list",
        True, len(las.curves) != 4,
        "las with DEPT, GR; las.set_data(np.empty((0, 4)))",
        "4 curves (DEPT, GR and two new unnamed ones), all with 0 samples",
        "%d curves %r, lengths %r" % (len(las.curves), las.keys(), [len(v) for v in las.values()]),
    )
    # the realistic form: copy the table of a LASFile that has no data rows
    src = lasio.read(LAS_TEXT.split("~A")[0] + "~A\n")
    dst = lasio.read(LAS_TEXT)
    dst.set_data(src.data)
    report(
        "V1d dst.set_data(src.data) where src was read from a file without data rows",
        True, dst.data.shape != src.data.shape,
        "src = read(file with empty ~A); dst = read(file with 3 rows); dst.set_data(src.data)",
        "dst.data.shape == src.data.shape == %r" % (src.data.shape,),
        "dst.data.shape %r (old samples kept)" % (dst.data.shape,),
    )


# ---------------------------------------------------------------------------
# V2  keys() depend on the edit history, not on the list: stale ':n' suffixes
# ---------------------------------------------------------------------------
def v2():
    h1 = lasio.LASFile()
    h1.append_curve("A", np.array([1.0]))
    h1.append_curve("A", np.array([2.0]))
    h1.delete_curve(ix=1)
    h2 = lasio.LASFile()
    h2.append_curve("A", np.array([1.0]))
    same_list = (
        [c.original_mnemonic for c in h1.curves] == [c.original_mnemonic for c in h2.curves]
        and all(np.array_equal(a, b) for a, b in zip(h1.values(), h2.values()))
    )
    report(
        "V2a two histories, same list [('A', .., [1.])], different keys()",
        True, same_list and h1.keys() != h2.keys(),
        "h1: append A, append A, delete_curve(ix=1)      h2: append A",
        "equal lists -> equal keys() (a list model has no memory of deleted elements)",
        "h1.keys() = %r, h2.keys() = %r (original names %r / %r)" % (
            h1.keys(), h2.keys(),
            [c.original_mnemonic for c in h1.curves], [c.original_mnemonic for c in h2.curves]),
    )
    try:
        h1["A"]
        got = "found"
    except KeyError as exc:
        got = "KeyError: %s" % exc
    report(
        "V2b mnemonic indexing of the only curve, whose name is 'A'",
        True, got != "found",
        "h1 as above; h1['A']",
        "array [1.] (the list holds exactly one curve, named A)",
        got,
    )
    h1["A"] = np.array([9.0])
    report(
        "V2c item assignment routes to append instead of update",
        True, len(h1.curves) != 1,
        "h1 as above; h1['A'] = array([9.])",
        "the existing curve A is updated: 1 curve, data [9.]",
        "%d curves, keys %r, values %r" % (len(h1.curves), h1.keys(), h1.values()),
    )
    las = lasio.LASFile()
    for i, n in enumerate("AAA"):
        las.append_curve(n, np.array([float(i)]))
    las.replace_curve_item(0, CurveItem("B", data=np.array([7.0])))
    report(
        "V2d replace_curve_item leaves gaps in the numbering of the other duplicates",
        True, las.keys() != ["B", "A:1", "A:2"],
        "append A, A, A; replace_curve_item(0, CurveItem('B'))",
        "keys of the list [B, A, A] = ['B', 'A:1', 'A:2'] (what append B, A, A gives)",
        "keys %r" % las.keys(),
    )


# ---------------------------------------------------------------------------
# V3  read LASFiles number duplicates case-insensitively, fresh ones do not,
#     while LASFile's own routing (key in keys()) is always case-sensitive
# ---------------------------------------------------------------------------
def v3():
    f = fresh()
    f["dept"] = np.array([0.0, 0.0, 0.0])
    r = lasio.read(LAS_TEXT)
    r["dept"] = np.array([0.0, 0.0, 0.0])
    report(
        "V3a same operation, same starting list, fresh vs read LASFile",
        True, f.keys() != r.keys(),
        "curves DEPT, GR; las['dept'] = zeros(3)   (on a fresh LASFile and on lasio.read(text))",
        "the same keys on both, ['DEPT', 'GR', 'dept'] ('dept' is a new name: las['dept'] raised KeyError before)",
        "fresh: %r   read: %r" % (f.keys(), r.keys()),
    )
    try:
        r["DEPT"]
        got = "found"
    except KeyError as exc:
        got = "KeyError: %s" % exc
    report(
        "V3b appending the NEW name 'dept' makes the existing key 'DEPT' disappear (read LASFile)",
        True, got != "found",
        "r = lasio.read(text); r['dept'] = zeros(3); r['DEPT']",
        "the index curve, untouched by an append of a different name",
        got,
    )
    r2 = lasio.read(LAS_TEXT)
    r2.set_data(np.zeros((3, 2)), names=["x", "X"])
    f2 = fresh()
    f2.set_data(np.zeros((3, 2)), names=["x", "X"])
    report(
        "V3c set_data(names=['x', 'X'])",
        True, r2.keys() != f2.keys(),
        "las.set_data(zeros((3, 2)), names=['x', 'X']) on a fresh and on a read LASFile",
        "the same keys on both",
        "fresh: %r   read: %r" % (f2.keys(), r2.keys()),
    )


# ---------------------------------------------------------------------------
# V4  a CurveItem handed from one LASFile to another stays shared
# ---------------------------------------------------------------------------
def v4():
    a = fresh()
    b = lasio.LASFile()
    b["GR"] = a.curves["GR"]          # item assignment with a CurveItem (key == mnemonic)
    before = (b.keys(), [v.copy() for v in b.values()], b.curves[0].unit)
    a.update_curve(mnemonic="GR", data=np.array([7.0, 8.0, 9.0]), unit="changed")
    after1 = (b.keys(), [v.copy() for v in b.values()], b.curves[0].unit)
    a.set_data(np.zeros((2, 2)), names=["P", "Q"])
    after2 = (b.keys(), [v.copy() for v in b.values()], b.curves[0].unit)
    bad = not np.array_equal(before[1][0], after1[1][0]) or before[0] != after2[0]
    report(
        "V4 operations on LASFile a change LASFile b",
        True, bad,
        "b['GR'] = a.curves['GR']; a.update_curve(mnemonic='GR', data=[7,8,9], unit='changed'); "
        "a.set_data(zeros((2,2)), names=['P','Q'])",
        "b unchanged by the two operations on a: keys ['GR'], data [10, 11, 12], unit ''",
        "b before %r; after update_curve on a %r; after set_data on a %r" % (before, after1, after2),
    )


# ---------------------------------------------------------------------------
# B1  update_curve / item assignment keep a list as a list (no 1-D array)
# ---------------------------------------------------------------------------
def b1():
    las = fresh()
    las.append_curve("X", [1, 2, 3])      # list accepted and converted here
    t_append = type(las["X"]).__name__
    las["X"] = [4, 5, 6]                  # ... but not here
    t_update = type(las["X"]).__name__
    try:
        repr(las.curves["X"])
        rep = "repr ok"
    except AttributeError as exc:
        rep = "repr(curve) raises AttributeError: %s" % exc
    report(
        "B1 update of an existing curve with a list keeps the list",
        False, t_update != "ndarray",
        "las.append_curve('X', [1, 2, 3]); las['X'] = [4, 5, 6]   (same for update_curve(data=[...]))",
        "the curve's array is a 1-D ndarray after either call",
        "after append: %s, after item assignment: %s; %s" % (t_append, t_update, rep),
    )


# ---------------------------------------------------------------------------
# B2  a name that looks like a session mnemonic ('A:1') shadows a curve
# ---------------------------------------------------------------------------
def b2():
    las = lasio.LASFile()
    las.append_curve("A", np.array([1.0]))
    las.append_curve("A", np.array([2.0]))
    las.append_curve("A:1", np.array([3.0]))
    keys = las.keys()
    report(
        "B2 duplicate keys: third curve cannot be reached by mnemonic",
        False, len(set(keys)) != len(keys),
        "append A, A, 'A:1'",
        "distinct keys, las[key] reaches every curve",
        "keys %r; las['A:1'] = %r" % (keys, las["A:1"]),
    )


for case in (v1, v2, v3, v4, b1, b2):
    case()

print("=" * 78)
mechanisms = sorted({v.split()[0][:2] for v in violations})
print("in-domain violations demonstrated: %d distinct (%s), %d sub-cases"
      % (len(mechanisms), ", ".join(mechanisms), len(violations)))
for v in violations:
    print("   ", v)
print("borderline cases demonstrated    : %d" % len(borderline))
for v in borderline:
    print("   ", v)
sys.exit(1 if violations else 0)
