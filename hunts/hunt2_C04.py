#!/usr/bin/env python
"""Hunt for violations of property C04 (header line grammar) on the unmodified code.

Run with:  /venv/bin/python /tmp/hunt2-C04/hunt_C04.py
Exit status 1 if at least one violation is demonstrated, 0 otherwise.
"""
import logging
import os
import sys

HERE = os.path.dirname(os.path.abspath(__file__))
sys.path.insert(0, HERE)

import lasio  # noqa: E402
from lasio.reader import read_header_line  # noqa: E402

assert os.path.abspath(lasio.__file__).startswith(HERE), lasio.__file__
logging.disable(logging.CRITICAL)

violations = 0


def report(label, shown_input, required, got):
    global violations
    bad = required != got
    if bad:
        violations += 1
    print("=" * 78)
    print(label)
    print("  input    : %s" % shown_input)
    print("  required : %r" % (required,))
    print("  lasio    : %r" % (got,))
    print("  -> %s" % ("VIOLATION" if bad else "holds"))


def fields(d):
    return (d["name"], d["unit"], d["value"], d["descr"])


def item_fields(item):
    return (item.original_mnemonic, item.unit, str(item.value), item.descr)


# --------------------------------------------------------------------------
# V1  A line without a period in ~Curves whose VALUE holds '..' and a colon
#     clause: "a line without a period is `NAME : VALUE`" x section kind Curves
# --------------------------------------------------------------------------
line = "NOTE : see.. remark: x"
for section in ("Well", "Parameter", "~Zed", None):
    # control: every other section kind gives NAME : VALUE
    assert fields(read_header_line(line, section_name=section)) == (
        "NOTE", "", "see.. remark: x", ""), section
report(
    "V1a  no-period line `NAME : VALUE` in ~Curves, VALUE = 'see.. remark: x' "
    "(read_header_line; the same line is right in Version/Well/Parameter/custom/None)",
    "read_header_line(%r, section_name='Curves')" % line,
    ("NOTE", "", "see.. remark: x", ""),
    fields(read_header_line(line, section_name="Curves")),
)

line = "RUN : 1..2 at 12:30"
report(
    "V1b  same, with a clock time in the value (the documented `TIME :14:00:32` kind)",
    "read_header_line(%r, section_name='Curves')" % line,
    ("RUN", "", "1..2 at 12:30", ""),
    fields(read_header_line(line, section_name="Curves")),
)

text = (
    "~Version\nVERS. 2.0 : v\nWRAP. NO : w\n"
    "~Well\nSTRT.m 1 : s\nSTOP.m 2 : s\nSTEP.m 1 : s\nNULL. -999.25 : n\n"
    "~Curve\nDEPT.m : depth\nNOTE : see.. remark: x\n"
    "~A\n1 10\n2 20\n"
)
las = lasio.read(text, mnemonic_case="preserve")
report(
    "V1c  the same line read from a file (second curve of ~Curve)",
    "lasio.read(<file with `NOTE : see.. remark: x` in ~Curve>).curves[1]",
    ("NOTE", "", "see.. remark: x", ""),
    item_fields(las.curves[1]),
)

# --------------------------------------------------------------------------
# V2  The parameter section of a LAS 3.0 file (~Log_Parameter), which lasio
#     files as las.sections['Parameter'] / las.params, is not parsed with the
#     ~Parameter grammar (clock-time colons, colons in the description)
# --------------------------------------------------------------------------
TEMPLATE = (
    "~Version\nVERS. {vers} : v\nWRAP. NO : w\nDLM . SPACE : d\n"
    "~Well\nSTRT.m 1 : s\nSTOP.m 2 : s\nSTEP.m 1 : s\nNULL. -999.25 : n\n"
    "{title}\n"
    "TIML.hh:mm 23:15 23-JAN-2001:   Time Logger: At Bottom\n"
    "RUN .  14:30 : start : of run\n"
    "~Curve\nDEPT.m : depth\n"
    "~A\n1\n2\n"
)
required = [
    ("TIML", "hh:mm", "23:15 23-JAN-2001", "Time Logger: At Bottom"),
    ("RUN", "", "14:30", "start : of run"),
]
# control: the 2.0 / 3.0 title ~Parameter gives the documented result
for vers in ("2.0", "3.0"):
    las = lasio.read(TEMPLATE.format(vers=vers, title="~Parameter"))
    assert [item_fields(i) for i in las.params] == required, vers

for vers, title in (("3.0", "~Log_Parameter"), ("2.0", "~Log_Parameter")):
    las = lasio.read(TEMPLATE.format(vers=vers, title=title))
    assert "Parameter" in las.sections and len(las.params) == 2
    report(
        "V2   VERS %s, section title %s (stored by lasio as las.params): "
        "documented line TIML.hh:mm ... and a time value with colons in the description"
        % (vers, title),
        "las.params of a file whose parameter section is titled %s" % title,
        required,
        [item_fields(i) for i in las.params],
    )

print("=" * 78)
print("%d violating case(s) demonstrated (2 distinct defects: V1, V2)" % violations)
sys.exit(1 if violations else 0)
