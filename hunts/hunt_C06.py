#!/usr/bin/env python
"""Hunt for violations of PROPERTY C06 on the unmodified lasio in /tmp/hunt-C06.

C06 (last clause): "On writing, every NaN is emitted as the current NULL value,
so the set of NaN positions is identical after a write->read cycle",
quantified over all NULL values (negative, positive, integer, zero, large) and
all placements of NULL-equal and *near-NULL* samples, all engines,
null_policy in {strict, none}, wrapped/unwrapped.

One in-domain violation was found (V1); it is demonstrated below in several
variants that all share the same root cause (lasio/writer.py, `fmt % n` with
the default fmt="%.5f" rounds a near-NULL sample onto the spelling of NULL).

Exit status: 1 if at least one violation is demonstrated, 0 otherwise.
"""
import io
import logging
import math
import os
import sys

sys.path.insert(0, os.path.dirname(os.path.abspath(__file__)))

import numpy as np  # noqa: E402
import lasio  # noqa: E402

logging.disable(logging.CRITICAL)


def make_las(null, rows, wrap="NO", vers="2.0", ncol=None):
    if ncol is None:
        ncol = len(rows[0].split())
    curves = "\n".join(["DEPT.M : depth"] + ["C%d. : curve" % i for i in range(1, ncol)])
    return (
        "~Version\n"
        "VERS. %s :\n"
        "WRAP. %s :\n"
        "~Well\n"
        "STRT.M 1 :\n"
        "STOP.M %d :\n"
        "STEP.M 1 :\n"
        "NULL. %s : null value\n"
        "~Curve\n"
        "%s\n"
        "~ASCII\n"
        "%s\n" % (vers, wrap, 2, null, curves, "\n".join(rows))
    )


def nan_positions(las):
    pos = set()
    for j, curve in enumerate(las.curves):
        if curve.data.dtype.kind != "f":
            continue
        for i, v in enumerate(curve.data):
            if math.isnan(v):
                pos.add((i, j))
    return pos


def cycle_case(label, null, rows, engine, null_policy="strict", wrap_in="NO", ncol=None,
               **write_kwargs):
    """Return True if the write->read cycle changes the set of NaN positions."""
    text = make_las(null, rows, wrap=wrap_in, ncol=ncol)
    las = lasio.read(text, engine=engine, null_policy=null_policy)
    before = nan_positions(las)
    buf = io.StringIO()
    las.write(buf, **write_kwargs)
    written = buf.getvalue()
    las2 = lasio.read(written, engine=engine, null_policy=null_policy)
    after = nan_positions(las2)
    violated = before != after

    print("-" * 78)
    print("CASE %s" % label)
    print("  NULL = %s, engine=%r, null_policy=%r, input WRAP=%s, write(%s)" % (
        null, engine, null_policy, wrap_in,
        ", ".join("%s=%r" % kv for kv in sorted(write_kwargs.items()))))
    print("  input ~A section:")
    for r in rows:
        print("      " + r)
    print("  data after 1st read  : %s" % [c.data.tolist() for c in las.curves])
    print("  written ~A section:")
    for line in written.split("~ASCII")[1].splitlines()[1:]:
        print("      " + line)
    print("  data after write->read: %s" % [c.data.tolist() for c in las2.curves])
    print("  property requires : NaN positions (row, col) identical: %s" % sorted(before))
    print("  lasio does        : NaN positions after the cycle     : %s" % sorted(after))
    print("  => %s" % ("VIOLATION (samples %s were real numbers, are NaN now)"
                       % sorted(after - before) if violated else "ok"))
    return violated


def main():
    violations = 0

    print("=" * 78)
    print("V1: a near-NULL sample is rounded onto NULL by the default fmt='%.5f' of")
    print("    write(), so it comes back as NaN: the NaN set grows on a write->read cycle")
    print("=" * 78)

    found = False
    # (a) the classic float NULL, both engines
    for engine in ("numpy", "normal"):
        found |= cycle_case(
            "V1a/%s: NULL=-999.25, near-NULL sample -999.250001" % engine,
            "-999.25",
            ["1 -999.250001 5", "2 7 -999.25"],
            engine,
        )
    # (b) NULL = 0 ("zero" is explicitly in the quantifier): every |x| < 5e-6 is lost
    found |= cycle_case(
        "V1b: NULL=0, small samples 1e-06, -4e-06, 1e-09",
        "0",
        ["1 0.000001 5", "2 7 0", "3 -0.000004 1e-9"],
        "numpy",
    )
    # (c) integer NULL
    found |= cycle_case(
        "V1c: integer NULL=-999, near-NULL sample -999.000001",
        "-999",
        ["1 -999.000001 5", "2 7 -999"],
        "normal",
    )
    # (d) wrapped input and wrapped output, version 1.2 output
    found |= cycle_case(
        "V1d: wrapped in and out, written as LAS 1.2",
        "-999.25",
        ["1", "-999.2500000001 5", "2", "7 -999.25"],
        "normal",
        wrap_in="YES",
        ncol=3,
        wrap=True,
        version=1.2,
    )
    # (e) the nearest float64 neighbours of NULL
    nxt = repr(float(np.nextafter(-999.25, 0.0)))
    found |= cycle_case(
        "V1e: the float64 neighbour of NULL (%s)" % nxt,
        "-999.25",
        ["1 %s 5" % nxt, "2 7 -999.25"],
        "numpy",
    )
    if found:
        violations += 1

    # Control: with null_policy='none' nothing is NaN before or after (holds).
    print()
    print("Control (not a violation): null_policy='none' -> no NaN before or after")
    cycle_case("control none", "-999.25", ["1 -999.250001 5", "2 7 -999.25"], "normal",
               null_policy="none")

    print()
    print("=" * 78)
    print("in-domain violations demonstrated: %d" % violations)
    return 1 if violations else 0


if __name__ == "__main__":
    sys.exit(main())
