#!/usr/bin/env python
"""Hunt on property C11 (lasio's own output is a fixed point of read->write).

Every case below
  * reads an input with lasio.read() (default options),
  * writes it with one writer option set,
  * reads the written text back (re-read 1), writes it again with the same
    options and reads once more (re-read 2, 3, ...),
and compares re-read 1 with the later re-reads: header items (numeric values
compared numerically) and curve data.  The property requires them to be equal.

Exit status: 1 if at least one violation is demonstrated, 0 otherwise.

Run with:  /venv/bin/python hunt_C11.py
"""
import io
import logging
import math
import os
import sys
import warnings

sys.path.insert(0, os.path.dirname(os.path.abspath(__file__)))

import numpy as np  # noqa: E402

import lasio  # noqa: E402

logging.disable(logging.CRITICAL)
warnings.filterwarnings("ignore")


# --------------------------------------------------------------------------
# helpers
# --------------------------------------------------------------------------
def write(las, **opts):
    s = io.StringIO()
    las.write(s, **opts)
    return s.getvalue()


def same_value(a, b):
    try:
        fa, fb = float(a), float(b)
    except (TypeError, ValueError):
        return str(a) == str(b)
    if math.isnan(fa) and math.isnan(fb):
        return True
    return fa == fb


class Snapshot(object):
    """What the property compares; taken right after a read, because write()
    itself modifies the LASFile object (STRT/STOP/STEP, empty values -> 0)."""

    def __init__(self, las):
        self.items = []
        for name, section in las.sections.items():
            if isinstance(section, str):
                self.items.append((name, "<text>", "", section, ""))
            else:
                for it in section:
                    self.items.append(
                        (name, it.original_mnemonic, str(it.unit), it.value, str(it.descr))
                    )
        self.curves = [(c.mnemonic, np.array(c.data, copy=True)) for c in las.curves]

    def differences(self, other):
        out = []
        if len(self.items) != len(other.items):
            out.append("number of header items: %d -> %d" % (len(self.items), len(other.items)))
        for a, b in zip(self.items, other.items):
            if a[:3] != b[:3] or a[4] != b[4] or not same_value(a[3], b[3]):
                out.append("header item %r -> %r" % (a, b))
        if len(self.curves) != len(other.curves):
            out.append("number of curves: %d -> %d" % (len(self.curves), len(other.curves)))
        for (m1, d1), (m2, d2) in zip(self.curves, other.curves):
            if d1.shape != d2.shape:
                out.append("curve %s: %d samples -> %d samples" % (m1, len(d1), len(d2)))
            elif not all(same_value(x, y) for x, y in zip(d1, d2)):
                out.append("curve %s: data %s -> %s" % (m1, d1[:6], d2[:6]))
        return out


def run_cycles(text, cycles, **opts):
    """Return (status, details).  status is one of
    'out-of-domain' (lasio cannot read or cannot write the input),
    'violation' or 'holds'."""
    try:
        las = lasio.read(text)
        written = write(las, **opts)
    except Exception as exc:  # not an accepted input: outside the domain
        return "out-of-domain", ["read/write of the input raised %r" % (exc,)]
    details = []
    first = None
    for cycle in range(1, cycles + 1):
        try:
            las = lasio.read(written)
        except Exception as exc:
            details.append(
                "re-read %d FAILS: lasio cannot read its own output: %s"
                % (cycle, str(exc).strip().splitlines()[-1])
            )
            details.append("the ~A section lasio wrote:")
            details += ["    | " + l for l in written[written.index("~ASCII"):].splitlines()[:8]]
            return "violation", details
        snap = Snapshot(las)
        if first is None:
            first = snap
        else:
            diffs = first.differences(snap)
            if diffs:
                details.append("re-read %d differs from re-read 1:" % cycle)
                details += ["    " + d for d in diffs[:6]]
                if len(diffs) > 6:
                    details.append("    ... (%d differences)" % len(diffs))
        try:
            written = write(las, **opts)
        except Exception as exc:
            details.append("write %d raised %r" % (cycle + 1, exc))
            return "violation", details
    return ("violation" if details else "holds"), details


CASES = []


def case(label, clause, text, opts, cycles=4):
    CASES.append((label, clause, text, opts, cycles))


# --------------------------------------------------------------------------
# V1  duplicated WRAP line + write(wrap=True): the table doubles every cycle
# --------------------------------------------------------------------------
DUP_WRAP = """~V
 VERS. 2.0 : v
 WRAP. NO  : w
 WRAP. NO  : w
~W
 STRT.M 1.0 : s
 STOP.M 3.0 : s
 STEP.M 1.0 : s
 NULL. -999.25 : n
~C
 DEPT.M : d
 GR.API : g
~A
 1.0 10.0
 2.0 20.0
 3.0 30.0
"""
case(
    "V1a duplicated WRAP line, write(wrap=True, data_width=5)",
    "same curve data / nothing drifts (here: the number of samples doubles on "
    "every load/save cycle, STOP and STEP follow)",
    DUP_WRAP,
    dict(wrap=True, data_width=5),
)

WIDE = (
    "~V\n VERS. 2.0 : v\n WRAP. NO : w\n WRAP. NO : w\n"
    "~W\n STRT.M 1.0 : s\n STOP.M 2.0 : s\n STEP.M 1.0 : s\n NULL. -999.25 : n\n~C\n"
    + "".join(" C%d. : c\n" % i for i in range(14))
    + "~A\n"
    + " ".join(str(i + 1.0) for i in range(14))
    + "\n"
    + " ".join(str(i + 2.0) for i in range(14))
    + "\n"
)
case(
    "V1b duplicated WRAP line, 14 curves, write(wrap=True) with the default data_width",
    "same curve data (the 14 values of a depth step are wrapped as 7 + 7; the "
    "re-read takes 7 for the number of columns)",
    WIDE,
    dict(wrap=True),
)

# --------------------------------------------------------------------------
# V1c duplicated VERS line + write(version=1.2): value <-> description
# --------------------------------------------------------------------------
DUP_VERS = """~V
 VERS. 2.0 : v
 VERS. 2.0 : v
 WRAP. NO  : w
~W
 STRT.M 1.0 : s
 STOP.M 3.0 : s
 STEP.M 1.0 : s
 NULL. -999.25 : n
 COMP. ACME : COMPANY
~C
 DEPT.M : d
 GR.API : g
~A
"""
case(
    "V1c duplicated VERS line (file without data rows), write(version=1.2)",
    "no fields migrating between value and description (here: they change "
    "places on every cycle)",
    DUP_VERS,
    dict(version=1.2),
    cycles=5,
)

# --------------------------------------------------------------------------
# V2  NULL marker that is not one data token
# --------------------------------------------------------------------------
NULL_TMPL = """~V
 VERS. 2.0 : v
 WRAP. NO  : w
~W
 STRT.M 1.0 : s
 STOP.M 4.0 : s
 STEP.M 1.0 : s
 NULL. %s : null value(s)
~C
 DEPT.M : d
 GR.API : g
 X.     : x
~A
 1.0 10.0 5
 2.0 NaN  6
 3.0 30.0 NaN
 4.0 NaN  NaN
"""
case(
    "V2a NULL marker with a blank ('-999.25 -9999'), NaN samples, default options",
    "lasio can read its own output / same curve data",
    NULL_TMPL % "-999.25 -9999",
    dict(),
)
case(
    "V2b NULL marker 'NOT USED', NaN samples, default options",
    "lasio can read its own output / same curve data",
    NULL_TMPL % "NOT USED",
    dict(),
)
case(
    "V2c NULL marker '#N/A', NaN samples, write(wrap=True, data_width=24)",
    "lasio can read its own output (the marker opens a physical line and is "
    "taken for a comment)",
    NULL_TMPL % "#N/A",
    dict(wrap=True, data_width=24),
)

# Control: the same files are fixed points without the trigger.
case("control: V1a input with write(wrap=False)", "-", DUP_WRAP, dict(wrap=False))
case("control: V2 input with NULL -999.25", "-", NULL_TMPL % "-999.25", dict())
case("control: V2c '#N/A' unwrapped", "-", NULL_TMPL % "#N/A", dict())


def main():
    violations = 0
    for label, clause, text, opts, cycles in CASES:
        print("=" * 78)
        print(label)
        print("-" * 78)
        print("writer options: %r   cycles: %d" % (opts, cycles))
        print("input:")
        for line in text.splitlines()[:22]:
            print("    | " + line[:100])
        if len(text.splitlines()) > 22:
            print("    | ...")
        print("property requires: re-read 2..k equal to re-read 1  [%s]" % clause)
        status, details = run_cycles(text, cycles, **opts)
        if status == "violation":
            if label.startswith("control"):
                print("UNEXPECTED: control case violates the property")
            else:
                print("lasio does: VIOLATION")
            violations += 1
        elif status == "holds":
            print("lasio does: property holds")
        else:
            print("lasio does: input not accepted (outside the domain)")
        for d in details:
            print("    " + d)
    print("=" * 78)
    print(
        "%d violating case(s) demonstrated (two root causes: V1 = duplicated "
        "VERS/WRAP line not found by the reader, V2 = NULL marker that is not "
        "one data token)" % violations
    )
    return 1 if violations else 0


if __name__ == "__main__":
    sys.exit(main())
