#!/usr/bin/env python
"""Hunt for violations of PROPERTY C05 on the unmodified lasio tree.

C05: every line is attributed to the section whose title precedes it, for any
order of the sections after ~Version, any title spelling that begins with the
section letter (either case, trailing text allowed), and any number of custom
sections (titles beginning with a letter other than V/W/C/P/O/A), which are
kept under their own title.  No line is dropped, duplicated, or read as part
of another section.

Run:  /venv/bin/python /tmp/hunt-C05/hunt_C05.py
Exit status 1 if at least one violation is demonstrated, 0 otherwise.
"""
import logging
import os
import sys
import warnings

sys.path.insert(0, os.path.dirname(os.path.abspath(__file__)))

import numpy as np  # noqa: E402
import lasio  # noqa: E402

logging.disable(logging.CRITICAL)
warnings.simplefilter("ignore")

TEMPLATE = """~V
VERS. {vers} : version
WRAP. NO : one line per step
~W
STRT.M 1 : start
STOP.M 2 : stop
STEP.M 1 : step
NULL. -999.25 : null
WELL. {well} : {welld}
{C}
DEPT.M : depth
GR.API : gamma
{P}
BHT.DEGC 35.5 : temperature
{X}
TOPA.M 100 : top a
{X2}~A
1 10
2 -999.25
"""


def build(C="~C", P="~P", X="~Tops", X2="", vers="2.0"):
    if vers == "1.2":
        well, welld = "WELLNAME", "mywell"
    else:
        well, welld = "mywell", "WELLNAME"
    return TEMPLATE.format(C=C, P=P, X=X, X2=X2, vers=vers, well=well, welld=welld)


def dump(las):
    out = {}
    for key, sec in las.sections.items():
        if isinstance(sec, str):
            out[key] = sec
        else:
            out[key] = [(i.mnemonic, i.value, i.descr) for i in sec]
    return out


def describe(las):
    for key, val in dump(las).items():
        print("      sections[%r] = %r" % (key, val))
    print("      curves = %r" % [c.mnemonic for c in las.curves])
    print("      data   = %r" % las.data.tolist())


def mnems(sec):
    return [i.mnemonic for i in sec]


VIOLATIONS = []


def case(label, strength, text, requires, predicate):
    """predicate(las) -> (holds: bool, what_lasio_does: str)"""
    print("=" * 78)
    print("CASE %s  [%s]" % (label, strength))
    print("  input:")
    for line in text.splitlines():
        print("      | " + line)
    print("  property requires: " + requires)
    try:
        las = lasio.read(text)
    except Exception as exc:  # pragma: no cover
        print("  lasio raises %s: %s" % (type(exc).__name__, exc))
        VIOLATIONS.append(label)
        print("  --> VIOLATION")
        return
    holds, what = predicate(las)
    print("  lasio does: " + what)
    describe(las)
    if holds:
        print("  --> property holds")
    else:
        print("  --> VIOLATION")
        VIOLATIONS.append(label)


# --------------------------------------------------------------------------
# Control: the plain file is read as the property says.
# --------------------------------------------------------------------------
def control(las):
    ok = (
        mnems(las.curves) == ["DEPT", "GR"]
        and mnems(las.params) == ["BHT"]
        and mnems(las.sections["Tops"]) == ["TOPA"]
        and np.allclose(las.data, [[1, 10], [2, np.nan]], equal_nan=True)
    )
    return ok, "reads ~C, ~P, ~Tops and ~A as expected" if ok else "control broken"


case(
    "0 (control)",
    "control",
    build(),
    "DEPT/GR in Curves, BHT in Parameter, TOPA in sections['Tops'], 2x2 data",
    control,
)
VIOLATIONS.clear()  # the control is not a finding whatever it does


# --------------------------------------------------------------------------
# V1  "_" anywhere in a ~C / ~P title: section not routed to Curves/Parameter
#     (lasio/las.py:300-307,  `"_" not in section_title`)
# --------------------------------------------------------------------------
def v1_curves(title):
    def pred(las):
        ok = mnems(las.curves) == ["DEPT", "GR"] and title[1:] not in las.sections
        return ok, (
            "Curves=%r; the ~C lines are stored under sections[%r]; the data "
            "columns are named %r"
            % (mnems(las.sections["Curves"]), title[1:], [c.mnemonic for c in las.curves])
        )
    return pred


def v1_params(title):
    def pred(las):
        ok = mnems(las.params) == ["BHT"] and title[1:] not in las.sections
        return ok, "Parameter=%r; BHT is stored under sections[%r]" % (
            mnems(las.params), title[1:])
    return pred


for t in ("~Curve_Information", "~CURVE INFORMATION BLOCK_1", "~c_"):
    case(
        "V1a title %r" % t,
        "in-domain",
        build(C=t),
        "title begins with C -> its items are las.curves (sections['Curves'])",
        v1_curves(t),
    )
for t in ("~PARAMETER_INFORMATION", "~Parameter Information (run_1)"):
    case(
        "V1b title %r" % t,
        "in-domain",
        build(P=t),
        "title begins with P -> its items are las.params (sections['Parameter'])",
        v1_params(t),
    )


# --------------------------------------------------------------------------
# V2  "_Data" anywhere in a title: the whole section is silently dropped
#     (lasio/reader.py:324 `re.search("_Data", stitle)` -> "Las3_Data", which
#      las.py only consults when the file has no ~A section)
# --------------------------------------------------------------------------
def v2_custom(title):
    def pred(las):
        key = title[1:]
        ok = key in las.sections and mnems(las.sections[key]) == ["TOPA"]
        everywhere = repr(dump(las))
        return ok, (
            "sections has no key %r; 'TOPA' appears nowhere in the LASFile: %s"
            % (key, "TOPA" not in everywhere)
            if not ok
            else "kept under %r" % key
        )
    return pred


case(
    "V2a custom title '~Tops_Data' (VERS 2.0)",
    "in-domain (LAS-3 style name, but nothing restricts the rule to VERS 3.0)",
    build(X="~Tops_Data"),
    "custom section kept under its own title: sections['Tops_Data'] holds TOPA",
    v2_custom("~Tops_Data"),
)
case(
    "V2b same section spelled '~Tops_DATA' / '~Tops_data' (case sensitivity)",
    "contrast: holds",
    build(X="~Tops_DATA"),
    "kept under its own title",
    v2_custom("~Tops_DATA"),
)


def v2_std(las):
    ok = mnems(las.params) == ["BHT"]
    return ok, "Parameter=%r; 'BHT' appears nowhere: %s" % (
        mnems(las.params), "BHT" not in repr(dump(las)))


case(
    "V2c standard title with trailing text '~Parameter Information (Core_Data)'",
    "in-domain (trailing text)",
    build(P="~Parameter Information (Core_Data)"),
    "title begins with P -> BHT is in las.params",
    v2_std,
)


def v2_well(las):
    ok = "WELL" in las.well and las.well["WELL"].value == "mywell" and las.well["NULL"].value == -999.25
    return ok, (
        "the ~W lines are dropped: las.well is the built-in default section "
        "(WELL=%r, NULL=%r) and -999.25 in ~A is not replaced: data=%r"
        % (las.well["WELL"].value, las.well["NULL"].value, las.data.tolist())
    )


case(
    "V2d '~Well Information (for Core_Data)'",
    "in-domain (trailing text)",
    build().replace("~W\n", "~Well Information (for Core_Data)\n"),
    "title begins with W -> WELL/NULL are in las.well and NULL steers the data",
    v2_well,
)


# --------------------------------------------------------------------------
# V3  LAS-3 names honoured by substring in any version:
#     '~Log_Data' (begins with L) is read as a *second data section*;
#     '~Log_Parameter' / '~Log_Definition' overwrite Parameter / Curves.
# --------------------------------------------------------------------------
def v3_data(las):
    ok = las.data.shape == (2, 2) and "Log_Data" in las.sections
    return ok, (
        "treats the custom section as ~A data: header line 'TOPA.M 100 : top a' "
        "is tokenised into data values; %d curves, data shape %r"
        % (len(las.curves), las.data.shape)
    )


case(
    "V3a custom title '~Log_Data' (VERS 2.0)",
    "in-domain by the letter (title begins with L); LAS-3 reserved name",
    build(X="~Log_Data"),
    "kept under sections['Log_Data']; ~A data stays 2 rows x 2 columns",
    v3_data,
)


def v3_param(las):
    ok = mnems(las.params) == ["BHT"] and "Log_Parameter" in las.sections
    return ok, "Parameter=%r: the ~P item BHT is overwritten (dropped)" % mnems(las.params)


case(
    "V3b custom title '~Log_Parameter' next to ~P (VERS 2.0)",
    "in-domain by the letter; LAS-3 reserved name",
    build(X="~Log_Parameter"),
    "BHT stays in las.params, TOPA goes to sections['Log_Parameter']",
    v3_param,
)


def v3_def(las):
    ok = mnems(las.curves) == ["DEPT", "GR"]
    return ok, "Curves=%r: ~C's DEPT/GR are dropped, data columns renamed" % mnems(las.curves)


case(
    "V3c custom title '~Log_Definition' next to ~C (VERS 2.0)",
    "in-domain by the letter; LAS-3 reserved name",
    build(X="~Log_Definition"),
    "DEPT/GR stay las.curves, TOPA goes to sections['Log_Definition']",
    v3_def,
)


# --------------------------------------------------------------------------
# V4  two custom sections with the same title: the first one is dropped
#     (lasio/las.py:317  self.sections[section_title[1:]] = sct_items)
# --------------------------------------------------------------------------
def v4(las):
    got = mnems(las.sections["Tops"])
    ok = "TOPA" in got and "TOPB" in got
    return ok, "sections['Tops']=%r: the lines of the first ~Tops are dropped" % got


case(
    "V4 two custom sections both titled '~Tops'",
    "in-domain by the letter ('any number of additional non-standard sections'); "
    "arguable because one dict key cannot name two sections",
    build(X2="~Tops\nTOPB.M 200 : top b\n"),
    "no line is dropped: TOPA and TOPB are both retrievable",
    v4,
)


# --------------------------------------------------------------------------
# V5  custom title beginning with U+1E98 (a letter that is not V/W/C/P/O/A but
#     whose str.upper() is 'W' + combining ring): parsed with ~Well's LAS 1.2
#     field order although it is stored as a custom section
#     (lasio/reader.py:793 title.upper().startswith("~W") vs las.py title[1:2].upper())
# --------------------------------------------------------------------------
def v5(las):
    key = "ẘops"
    item = las.sections[key][0]
    ref = lasio.read(build(X="~Tops", vers="1.2")).sections["Tops"][0]
    ok = (item.value, item.descr) == (ref.value, ref.descr)
    return ok, "custom item read as value=%r descr=%r; the same lines under '~Tops' give value=%r descr=%r" % (
        item.value, item.descr, ref.value, ref.descr)


case(
    "V5 custom title '~\\u1e98ops' in a VERS 1.2 file",
    "in-domain by the letter, contrived",
    build(X="~ẘops", vers="1.2"),
    "custom sections are parsed alike (value : descr) whatever their title",
    v5,
)


print("=" * 78)
if VIOLATIONS:
    print("%d violating case(s) demonstrated:" % len(VIOLATIONS))
    for v in VIOLATIONS:
        print("   - " + v)
    sys.exit(1)
print("no violation demonstrated")
sys.exit(0)
