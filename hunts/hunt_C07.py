#!/venv/bin/python
"""Hunt for violations of PROPERTY C07 (curves are rectangular and bound to
their own column) on the unmodified lasio tree in /tmp/hunt-C07.

Every case builds a LAS text whose cells carry their own coordinates
(cell (i, j) of data row i, column j is 1000*(i+1) + (j+1) unless said
otherwise), reads it with lasio and compares the curves with what C07 requires:

  * max(d, c) curves, all of length r
  * curve j (j < c) holds column j, element i == cell (i, j)
  * curves j >= c (declared, no column) are all-NaN
  * the first d curves keep mnemonic / unit / description of ~Curves

Exit status: 1 if at least one violation is demonstrated, else 0.
"""
import logging
import sys

sys.path.insert(0, "/tmp/hunt-C07")

import numpy as np  # noqa: E402

import lasio  # noqa: E402

logging.disable(logging.CRITICAL)


def default_cell(i, j):
    return "%d" % (1000 * (i + 1) + (j + 1))


def header(d, wrap="NO", dlm=None, version=True):
    lines = []
    if version:
        lines += ["~Version", " VERS. 2.0 :", " WRAP. %s :" % wrap]
        if dlm:
            lines += [" DLM . %s :" % dlm]
    lines += ["~Well", " NULL. -999.25 :", "~Curves"]
    lines += [" C%d .U%d  : descr %d" % (k, k, k) for k in range(d)]
    lines += ["~A"]
    return lines


def flat_file(d, c, r, sep=" ", cell=default_cell, tail="", **hkw):
    lines = header(d, **hkw)
    lines += [sep.join(cell(i, j) for j in range(c)) for i in range(r)]
    return "\n".join(lines) + "\n" + tail


def deviations(las, d, c, r, expected):
    """Return the list of deviations from C07 (empty list: property holds)."""
    errs = []
    if len(las.curves) != max(d, c):
        errs.append("%d curves instead of max(d, c) = %d" % (len(las.curves), max(d, c)))
    lens = sorted(set(len(cu.data) for cu in las.curves))
    if lens != [r]:
        errs.append("curve lengths %s instead of r = %d" % (lens, r))
    for j, cu in enumerate(las.curves):
        if j < d and (
            cu.original_mnemonic != "C%d" % j
            or cu.unit != "U%d" % j
            or cu.descr != "descr %d" % j
        ):
            errs.append("declared curve %d lost its metadata" % j)
        for i, v in enumerate(cu.data):
            if j < c and i < r:
                e = expected(i, j)
                if not (v == e or str(v) == str(e)):
                    errs.append(
                        "curve %d element %d is %r, column %d of data line %d is %r"
                        % (j, i, v, j, i, e)
                    )
                    break
            elif j >= c:
                if not (isinstance(v, float) and np.isnan(v)):
                    errs.append("curve %d (no column) element %d is %r, not NaN" % (j, i, v))
                    break
    return errs


def fmt_curves(las):
    return "\n".join(
        "      %-10s %s" % (cu.mnemonic, [str(v) for v in cu.data]) for cu in las.curves
    )


RESULTS = []


def case(label, kind, text, d, c, r, requires, expected=None, **read_kwargs):
    """kind: 'violation' (counted) or 'statement' (shown, not counted)."""
    if expected is None:
        expected = lambda i, j: float(default_cell(i, j))  # noqa: E731
    print("=" * 78)
    print("%s  [%s]" % (label, kind))
    print("  d=%d declared curves, c=%d data columns, r=%d rows, read kwargs=%r"
          % (d, c, r, read_kwargs))
    print("  input:")
    for line in text.splitlines():
        print("      " + repr(line))
    print("  C07 requires: " + requires)
    try:
        las = lasio.read(text, **read_kwargs)
    except Exception as exc:  # an unsuccessful read is outside the property
        print("  lasio raises %s: %s  -> read not successful, no violation"
              % (type(exc).__name__, str(exc).splitlines()[-1]))
        RESULTS.append((label, kind, False))
        return
    print("  lasio returns (las.version.WRAP.value = %r):"
          % (las.version.WRAP.value if "WRAP" in las.version else None))
    print(fmt_curves(las))
    errs = deviations(las, d, c, r, expected)
    if errs:
        print("  DEVIATION:")
        for e in errs[:4]:
            print("      - " + e)
    else:
        print("  property holds")
    RESULTS.append((label, kind, bool(errs)))


# ---------------------------------------------------------------------------
# V1  no ~Version section: the file is silently treated as WRAPPED
# ---------------------------------------------------------------------------
case(
    "V1a no ~Version section, c > d (default engine)",
    "violation",
    flat_file(2, 4, 2, version=False),
    2, 4, 2,
    "C0, C1 = columns 0, 1 and two unnamed curves = columns 2, 3; all of length 2",
)
case(
    "V1b no ~Version section, c < d (engine='normal')",
    "violation",
    flat_file(4, 2, 2, version=False),
    4, 2, 2,
    "C0, C1 = columns 0, 1; C2, C3 all-NaN; all of length 2",
    engine="normal",
)

# ---------------------------------------------------------------------------
# V2  DOS end-of-file mark (Ctrl-Z) after <= 20 data rows defeats the sniffing
# ---------------------------------------------------------------------------
case(
    "V2a trailing Ctrl-Z line, c > d",
    "violation",
    flat_file(2, 4, 2, tail="\x1a\n"),
    2, 4, 2,
    "C0, C1 = columns 0, 1 and two unnamed curves = columns 2, 3; all of length 2 "
    "(the reader itself discards chr(26))",
)
case(
    "V2b trailing Ctrl-Z without newline, c < d",
    "violation",
    flat_file(4, 2, 2, tail="\x1a"),
    4, 2, 2,
    "C0, C1 = columns 0, 1; C2, C3 all-NaN; all of length 2",
)

# ---------------------------------------------------------------------------
# V3  engine='numpy' (the default) ignores the declared delimiter
# ---------------------------------------------------------------------------
case(
    "V3 DLM TAB, cells 'row col' containing a blank, default numpy engine",
    "violation",
    flat_file(2, 2, 3, sep="\t", dlm="TAB", cell=lambda i, j: "%d %d" % (i + 1, j + 1)),
    2, 2, 3,
    "2 curves, curve j element i == the tab-delimited cell '<i+1> <j+1>' "
    "(this is what engine='normal' returns)",
    expected=lambda i, j: "%d %d" % (i + 1, j + 1),
)

# ---------------------------------------------------------------------------
# V4  null_policy 'numbers-only' / 'all': tab or comma next to a blank -> NaN
# ---------------------------------------------------------------------------
case(
    "V4a columns separated by blank+tab, null_policy='numbers-only'",
    "violation",
    flat_file(2, 2, 2, sep=" \t"),
    2, 2, 2,
    "C0, C1 = columns 0, 1, nothing else",
    null_policy="numbers-only",
)
case(
    "V4b DLM COMMA with ', ' separators, null_policy='all'",
    "violation",
    flat_file(3, 3, 2, sep=", ", dlm="COMMA"),
    3, 3, 2,
    "C0, C1, C2 = columns 0, 1, 2",
    null_policy="all",
)

# ---------------------------------------------------------------------------
# V5  null_policy 'aggressive' / 'all': the '-0.0' pattern cuts -0.00xyz in two
# ---------------------------------------------------------------------------
v5_cell = lambda i, j: "-0.00%d%d" % (i + 1, j + 1) if j == 1 else default_cell(i, j)  # noqa: E731
case(
    "V5 a column of small negative numbers, null_policy='aggressive'",
    "violation",
    flat_file(3, 3, 3, cell=v5_cell),
    3, 3, 3,
    "C0, C1, C2 = columns 0, 1, 2 (C1 may be NaN-ed by the null policy, "
    "but no value may move to another curve)",
    expected=lambda i, j: float(v5_cell(i, j)),
    null_policy="aggressive",
)

# ---------------------------------------------------------------------------
# V6  wrapped file with c != d: reshaped by d, values interleaved (design level)
# ---------------------------------------------------------------------------
v6_lines = header(2, wrap="YES") + ["1001", "1002 1003", "2001", "2002 2003"]
case(
    "V6a WRAP YES, depth on its own line, 3 values per depth step, 2 declared curves",
    "violation",
    "\n".join(v6_lines) + "\n",
    2, 3, 2,
    "C0, C1 = values 0, 1 of each depth step, one unnamed curve = value 2; length 2",
)
v6b_lines = header(4, wrap="YES") + ["1001", "1002", "2001", "2002"]
case(
    "V6b WRAP YES, 2 values per depth step, 4 declared curves",
    "violation",
    "\n".join(v6b_lines) + "\n",
    4, 2, 2,
    "C0, C1 = values 0, 1 of each depth step; C2, C3 all-NaN; length 2",
)

# ---------------------------------------------------------------------------
# S1  statement-level: clause 2 read literally cannot hold for wrapped files
# ---------------------------------------------------------------------------
s1_lines = header(2, wrap="YES") + ["1001", "1002", "2001", "2002"]
case(
    "S1 WRAP YES, 2 curves, one value per line (every line carries 1 value)",
    "statement",
    "\n".join(s1_lines) + "\n",
    2, 1, 4,
    "read literally ('value j of data line i is element i of curve j'): ONE "
    "column of 4 values, C1 all-NaN.  lasio returns 2 curves x 2 samples, which "
    "is the correct LAS meaning -> the statement, not the code, needs the repair",
    expected=lambda i, j: [1001.0, 1002.0, 2001.0, 2002.0][i],
)

# ---------------------------------------------------------------------------
print("=" * 78)
print("SUMMARY")
n_viol = 0
for label, kind, failed in RESULTS:
    tag = "DEVIATES" if failed else "holds"
    print("  %-9s %-10s %s" % (tag, "[" + kind + "]", label))
    if failed and kind == "violation":
        n_viol += 1
print("in-domain violations demonstrated: %d cases" % n_viol)
sys.exit(1 if n_viol else 0)
