#!/venv/bin/python
# -*- coding: utf-8 -*-
"""Hunt for violations of PROPERTY C10 on the unmodified lasio tree.

C10: the same LAS text gives equal results whatever the input channel (path
string, pathlib.Path, open text file, StringIO, multi-line string) and, for
files, whatever the encoding (UTF-8 with BOM autodetected; utf-8, utf-16,
latin-1, cp1252 named with encoding=) and line ending; every non-ASCII
character of the header text is preserved; reading is pure.

Run:  /venv/bin/python /tmp/hunt-C10/hunt_C10.py
Exit status 1 if at least one in-domain violation is demonstrated, else 0.
Nothing outside /tmp/hunt-C10 is written; no network access is made
(urllib.request.urlopen is replaced by a recording stub for case V1).
"""
import io
import logging
import os
import pathlib
import shutil
import sys
import tempfile
import urllib.request

HERE = os.path.dirname(os.path.abspath(__file__))
sys.path.insert(0, HERE)

import numpy as np  # noqa: E402
import lasio  # noqa: E402

logging.disable(logging.CRITICAL)
TMP = tempfile.mkdtemp(prefix="hunt_C10_tmp_", dir=HERE)


# --------------------------------------------------------------------------
# helpers
# --------------------------------------------------------------------------
def snap(las):
    """Everything a reader returns, in a comparable (NaN-safe) form."""
    out = {}
    for name, sec in las.sections.items():
        if isinstance(sec, str):
            out[name] = ("text", sec)
        else:
            out[name] = tuple(
                (type(i).__name__, i.mnemonic, i.original_mnemonic, i.unit,
                 type(i.value).__name__, repr(i.value), i.descr)
                for i in sec
            )
    out["<data>"] = tuple(
        (np.asarray(c.data).dtype.kind, tuple(repr(x) for x in np.asarray(c.data).tolist()))
        for c in las.curves
    )
    out["<index_unit>"] = las.index_unit
    return out


def read_snap(ref, **kw):
    try:
        return snap(lasio.read(ref, **kw))
    except Exception as exc:  # the exception is the "result"
        return {"<exception>": "%s: %s" % (type(exc).__name__, str(exc).split("\n")[0][:90])}


def store(text, encoding, eol="\n", name="f.las"):
    path = os.path.join(TMP, name)
    with open(path, "wb") as f:
        f.write(text.replace("\n", eol).encode(encoding))
    return path


def differences(a, b):
    return [k for k in sorted(set(a) | set(b)) if a.get(k) != b.get(k)]


VIOLATIONS = []


def report(tag, title, violated):
    print()
    print("=" * 78)
    print("%s  %s" % (tag, title))
    print("-" * 78)
    if violated:
        VIOLATIONS.append(tag)


BODY = (
    "~Version\n"
    " VERS. 2.0 : CWLS 2.0\n"
    " WRAP. NO  : one line per step\n"
    "~Well\n"
    " STRT.M 1.0 : start\n"
    " STOP.M 2.0 : stop\n"
    " STEP.M 1.0 : step\n"
    " NULL. -999.25 : null\n"
    " COMP. Åsgård Ølje : første brønn\n"
    "~Curve\n"
    " DEPT.M : depth\n"
    " GR.gAPI : gamma\n"
    "~ASCII\n"
    " 1.0 10.0\n"
    " 2.0 20.0\n"
)


# --------------------------------------------------------------------------
# V1  channel clause: a multi-line string whose first line is a bare URL
# --------------------------------------------------------------------------
def case_v1():
    text = "http://example.com/wells/w1.las\n" + BODY
    path = store(text, "utf-8")

    calls = []
    real_urlopen = urllib.request.urlopen

    def stub(url, *a, **k):           # keeps the demonstration off the network
        calls.append(url)
        raise RuntimeError("lasio called urllib.request.urlopen(<the whole LAS text>)")

    urllib.request.urlopen = stub
    try:
        results = {}
        results["path string"] = read_snap(path, encoding="utf-8")
        results["pathlib.Path"] = read_snap(pathlib.Path(path), encoding="utf-8")
        with open(path, encoding="utf-8") as f:
            results["open text file"] = read_snap(f)
        results["StringIO"] = read_snap(io.StringIO(text))
        results["multi-line string"] = read_snap(text)
    finally:
        urllib.request.urlopen = real_urlopen

    ref = results["path string"]
    bad = [k for k, v in results.items() if v != ref]
    report("V1", "multi-line string whose first line is a URL is fetched, not parsed", bad)
    print("input text (%d lines); first line: %r" % (len(text.splitlines()), text.splitlines()[0]))
    print("required: the five channels give equal results (the line before the")
    print("          first ~ section is ignored by the parser, as in every other channel)")
    for k, v in results.items():
        if "<exception>" in v:
            print("  %-18s -> %s" % (k, v["<exception>"]))
        else:
            print("  %-18s -> read OK, COMP=%s, %d curves" % (k, v["Well"][4][5], len(v["Curves"])))
    print("urlopen was called %d time(s); argument had %d lines"
          % (len(calls), len(calls[0].splitlines()) if calls else 0))
    print("VIOLATION" if bad else "ok")


# --------------------------------------------------------------------------
# V2  encoding clause: encoding= is overridden by the UTF-8-BOM sniffer
# --------------------------------------------------------------------------
def case_v2():
    # U+00EF U+00BB U+00BF are ordinary latin-1 / cp1252 letters; their bytes are
    # EF BB BF.  The text is readable (the first line precedes the first section).
    text = "ï»¿ exporté par Tööl\n" + BODY
    ref = read_snap(text)
    bad = []
    rows = []
    for enc in ("latin-1", "cp1252"):
        path = store(text, enc)
        las_enc = None
        try:
            las = lasio.read(path, encoding=enc)
            las_enc = las.encoding
            got = snap(las)
        except Exception as exc:
            got = {"<exception>": repr(exc)}
        same = got == ref
        if not same:
            bad.append(enc)
        comp = got.get("Well", ((),) * 5)[4]
        rows.append((enc, las_enc, comp[5] if comp else None, comp[6] if comp else None, same))
    report("V2", "explicit encoding= is silently replaced by utf-8-sig when the file starts EF BB BF", bad)
    print("input text first line:", ascii(text.splitlines()[0]))
    print("stored with codec X, read with encoding=X  (X in latin-1, cp1252)")
    print("required: COMP value %s, descr %s" % (ascii(ref["Well"][4][5]), ascii(ref["Well"][4][6])))
    for enc, las_enc, val, descr, same in rows:
        print("  encoding=%-8s -> LASFile.encoding=%r COMP value %s descr %s  %s"
              % (enc, las_enc, ascii(val), ascii(descr), "equal" if same else "DIFFERENT"))
    print("VIOLATION" if bad else "ok")


# --------------------------------------------------------------------------
# V3  preservation clause: non-ASCII decimal digits are turned into numbers
# --------------------------------------------------------------------------
def case_v3():
    text = BODY.replace(
        " COMP. Åsgård Ølje : første brønn\n",
        " WELL. ４２ : fullwidth digits 42\n"
        " FLD . ١٢٣ : arabic-indic digits 123\n"
        " LOC . ３.５ : fullwidth 3.5\n"
        " CNTY. １,５ : fullwidth 1,5\n",
    )
    path = store(text, "utf-16")
    las = lasio.read(path, encoding="utf-16")
    src = {"WELL": "４２", "FLD": "١٢٣", "LOC": "３.５", "CNTY": "１,５"}
    bad = []
    rows = []
    for mnem, s in src.items():
        v = las.well[mnem].value
        lost = [c for c in s if ord(c) > 127 and c not in str(v)]
        if lost:
            bad.append(mnem)
        rows.append((mnem, s, v, lost))
    report("V3", "header values made of non-ASCII digits come back as numbers", bad)
    print("file stored as utf-16, read with encoding='utf-16' (same result in every channel)")
    print("required: every non-ASCII character of the header text is preserved")
    for mnem, s, v, lost in rows:
        print("  %-4s source value %-28s -> %s %r   lost: %s"
              % (mnem, ascii(s), type(v).__name__, v, ascii("".join(lost))))
    print("VIOLATION" if bad else "ok")

    # related, by-design normalisations (informational, not counted)
    t2 = BODY.replace(" GR.gAPI : gamma\n",
                      " größe.m : eszett\n µgr.µs : micro sign\n ÿ.m : y diaeresis\n")
    t2 = t2.replace("første brønn\n", "første brønn \n")
    l2 = lasio.read(t2)
    print("  (info, not counted) default mnemonic_case='upper':",
          ", ".join("%s -> %s" % (ascii(a), ascii(c.original_mnemonic))
                    for a, c in zip(["größe", "µgr", "ÿ"], l2.curves[1:])))
    print("  (info, not counted) descr ending in U+00A0 ->", ascii(l2.well.COMP.descr))


# --------------------------------------------------------------------------
# Informational: things outside the stated domain that a maintainer may
# still want to know about (never counted)
# --------------------------------------------------------------------------
def info_cases():
    print()
    print("=" * 78)
    print("INFO  borderline behaviour, judged OUTSIDE the stated domain (not counted)")
    print("-" * 78)
    ref = read_snap(BODY)
    cr = BODY.replace("\n", "\r")
    r = read_snap(cr)
    print("CR-only text as multi-line string : %s"
          % ("equal" if r == ref else "differs silently: %d curves, sections differing: %s"
             % (len(r.get("Curves", ())), differences(ref, r))))
    r = read_snap(io.StringIO(cr))
    print("CR-only text in StringIO          : %s" % ("equal" if r == ref else "differs (same way)"))
    p = store(BODY, "utf-8", "\r")
    print("CR-only text as file (in domain)  : %s" % ("equal" if read_snap(p, encoding="utf-8") == ref else "DIFFERS"))
    import codecs
    p = store(BODY, "utf-8")
    r = read_snap(codecs.open(p, encoding="utf-8"))
    print("codecs.open() stream object       : %s" % ("equal" if r == ref else "differs (tell() of StreamReader is not a line address)"))
    s = io.StringIO(BODY)
    lasio.read(s)
    print("caller's StringIO after a read    : closed=%s (a second read of the same object raises)" % s.closed)
    p = store(BODY, "utf-8-sig")
    with open(p, encoding="utf-8") as f:
        r = read_snap(f)
    print("BOM file opened by caller as utf-8: %s" % ("equal" if r == ref else "differs: U+FEFF hides the first section title"))


def main():
    try:
        case_v1()
        case_v2()
        case_v3()
        info_cases()
    finally:
        shutil.rmtree(TMP, ignore_errors=True)
    print()
    print("=" * 78)
    print("in-domain violations demonstrated: %d %s" % (len(VIOLATIONS), VIOLATIONS))
    return 1 if VIOLATIONS else 0


if __name__ == "__main__":
    sys.exit(main())
