#!/usr/bin/env python
"""Hunt for violations of property C04 (header line grammar) on the code as it is.

Run:  /venv/bin/python /tmp/hunt-C04/hunt_C04.py
Exit status 1 if at least one in-domain violation is demonstrated, else 0.

Every case builds the line from its fields exactly as the property lays it out
    p0 MNEM p1 . UNIT p2 VALUE p3 : p4 DESCR p5
and compares lasio.reader.read_header_line(line, section_name=...) with
(MNEM, UNIT, VALUE, DESCR).
"""
import os
import sys

HERE = os.path.dirname(os.path.abspath(__file__))
sys.path.insert(0, HERE)

from lasio.reader import read_header_line  # noqa: E402

SECTIONS = ["Version", "Well", "Curves", "Parameter", "~Custom", None]


def layout(fields, pads):
    m, u, v, d = fields
    p = pads
    return p[0] + m + p[1] + "." + u + p[2] + v + p[3] + ":" + p[4] + d + p[5]


def parse(line, section):
    try:
        o = read_header_line(line, section_name=section)
    except Exception as exc:  # pragma: no cover
        return ("EXCEPTION", repr(exc), "", "")
    return (o["name"], o["unit"], o["value"], o["descr"])


N_VIOLATIONS = 0


def case(label, clause, fields, pads, sections, controls=()):
    """One labelled violation; `sections` are the section kinds it is shown in.

    controls: list of (text, fields, pads, section) that must parse correctly;
    they show how narrow the trigger is.
    """
    global N_VIOLATIONS
    print("=" * 78)
    print(label)
    print("clause :", clause)
    line = layout(fields, pads)
    print("input  : %r" % line)
    print("pads   : %r" % (pads,))
    print("require: (mnemonic, unit, value, descr) = %r" % (fields,))
    shown = False
    for sec in sections:
        got = parse(line, sec)
        bad = got != tuple(fields)
        print("  section %-10r lasio -> %r   %s" % (sec, got, "VIOLATION" if bad else "ok"))
        shown = shown or bad
    for text, cfields, cpads, csec in controls:
        cline = layout(cfields, cpads)
        got = parse(cline, csec)
        print("  control (%s) %r in %r -> %r   %s" % (
            text, cline, csec, got, "ok" if got == tuple(cfields) else "ALSO WRONG"))
    if shown:
        N_VIOLATIONS += 1
    else:
        print("  (not reproduced on this tree)")


# --------------------------------------------------------------------------
# V1  ~Curves: unit with two consecutive interior dots
# --------------------------------------------------------------------------
case(
    "V1  ~Curves: a unit with interior dots 'a..b' is torn apart, the mnemonic swallows '.a.'",
    "units containing interior dots ... parse to exactly (MNEM, UNIT, VALUE, DESCR) in every section kind",
    ("DEPT", "a..b", "val", "descr"),
    ("", "", "  ", " ", " ", ""),
    ["Curves"],
    controls=[
        ("same line, ~Well", ("DEPT", "a..b", "val", "descr"), ("", "", "  ", " ", " ", ""), "Well"),
        ("single interior dot", ("DEPT", "a.b", "val", "descr"), ("", "", "  ", " ", " ", ""), "Curves"),
    ],
)

# --------------------------------------------------------------------------
# V2  ~Curves: value containing '..'
# --------------------------------------------------------------------------
case(
    "V2a ~Curves: a value containing '..' ('1..5') moves the name/unit boundary into the value",
    "value over printable text (punctuation) ... in every section kind",
    ("DEPT", "M", "1..5", "descr"),
    ("", "", "  ", " ", " ", ""),
    ["Curves"],
    controls=[
        ("same line, ~Parameter", ("DEPT", "M", "1..5", "descr"), ("", "", "  ", " ", " ", ""), "Parameter"),
        ("'..' only in the description", ("DEPT", "M", "x", "etc..."), ("", " ", "  ", " ", " ", ""), "Curves"),
    ],
)
case(
    "V2b ~Curves: value 'see text...' (ellipsis), tab padding, empty unit",
    "value over printable text, empty unit allowed, tab padding",
    ("GR", "", "see text...", "gamma ray"),
    ("", "\t", "\t", "\t", "\t", ""),
    ["Curves"],
)
case(
    "V2c ~Curves: value '../' after blanks is enough as soon as the description holds 'x..'",
    "value and description over punctuation; the '..' test looks at the whole line",
    ("DEPT", "M", "../", "see x.."),
    ("", "", "   ", " ", " ", ""),
    ["Curves"],
    controls=[
        ("description without '..'", ("DEPT", "M", "../", "see x"), ("", "", "   ", " ", " ", ""), "Curves"),
    ],
)

# --------------------------------------------------------------------------
# V3  numeric unit followed by ONE TAB (not a blank): value is merged into the unit
# --------------------------------------------------------------------------
case(
    "V3  every section: numeric unit + single TAB + value -> unit '1000\\tlbf', value ''",
    "arbitrary blanks or tabs around each field; only 'a numeric unit followed by a single "
    "blank' is the documented exception",
    ("HKLA", "1000", "lbf", "hook load"),
    ("", "", "\t", " ", " ", ""),
    SECTIONS,
    controls=[
        ("two tabs", ("HKLA", "1000", "lbf", "hook load"), ("", "", "\t\t", " ", " ", ""), "Well"),
        ("tab+blank", ("HKLA", "1000", "lbf", "hook load"), ("", "", "\t ", " ", " ", ""), "Well"),
        ("non-numeric unit, one tab", ("HKLA", "lbf", "1000", "hook load"), ("", "", "\t", " ", " ", ""), "Well"),
    ],
)
case(
    "V3b ~Parameter: numeric unit + single TAB + date/time value: the date goes into the unit",
    "time-like values with dates x tab padding x digits unit",
    ("TLOG", "5", "2020-01-31 07:37", "time of log"),
    ("", "", "\t", " ", " ", ""),
    ["Parameter"],
)

# --------------------------------------------------------------------------
# V4  ~Parameter: numeric unit, empty value, one blank before the separating colon,
#     description with a colon: the SEPARATING colon becomes part of the unit
# --------------------------------------------------------------------------
case(
    "V4  ~Parameter: 'BS .1000 : bit size : nominal' -> unit '1000 :', value 'bit size', descr 'nominal'",
    "inside ~Parameter the description may contain colons (separator set off by a blank on both "
    "sides); empty value allowed; padding = 1 blank",
    ("BS", "1000", "", "bit size : nominal"),
    ("", " ", " ", "", " ", ""),
    ["Parameter"],
    controls=[
        ("two blanks before the colon", ("BS", "1000", "", "bit size : nominal"), ("", " ", "  ", "", " ", ""), "Parameter"),
        ("non-numeric unit", ("BS", "mm", "", "bit size : nominal"), ("", " ", " ", "", " ", ""), "Parameter"),
        ("description without colon", ("BS", "1000", "", "bit size"), ("", " ", " ", "", " ", ""), "Parameter"),
    ],
)
case(
    "V4b same with a single TAB before the separating colon",
    "as V4, padding = tab",
    ("BS", "1000", "", "bit size : nominal"),
    ("", " ", "\t", "", " ", ""),
    ["Parameter"],
)

# --------------------------------------------------------------------------
# End to end: the same through lasio.read (all versions), for V1/V2a/V3/V4
# --------------------------------------------------------------------------
print("=" * 78)
print("End-to-end through lasio.read(...) (informative, not counted again)")
import logging  # noqa: E402

import lasio  # noqa: E402

logging.disable(logging.CRITICAL)
for vers in ("1.2", "2.0", "3.0"):
    text = (
        "~Version\nVERS. %s :\nWRAP. NO :\n~Well\nHKLA.1000\tlbf : hook load\n"
        "~Curve\nDEPT.a..b  val : descr\nGR.M  1..5 : gamma\n"
        "~Parameter\nBS .1000 : bit size : nominal\n~A\n" % vers
    )
    las = lasio.read(text, ignore_data=True, mnemonic_case="preserve")
    w = las.well["HKLA"]
    print("  VERS %s well  HKLA: unit=%r value=%r descr=%r" % (vers, w.unit, w.value, w.descr))
    print("  VERS %s curve mnemonics=%r units=%r" % (
        vers, [c.original_mnemonic for c in las.curves], [c.unit for c in las.curves]))
    b = las.params[0]
    print("  VERS %s param %r: unit=%r value=%r descr=%r" % (vers, b.original_mnemonic, b.unit, b.value, b.descr))

print("=" * 78)
print("in-domain violation cases demonstrated: %d" % N_VIOLATIONS)
print("root causes: 3")
print("  R1 the '..' rule of ~Curves fires on any '..' left of the last colon      [V1, V2a-c]")
print("  R2 the numeric-unit exception uses \\s, so one TAB also glues the value on [V3, V3b]")
print("  R3 the numeric-unit exception accepts the separating ':' as the 'suffix'   [V4, V4b]")
sys.exit(1 if N_VIOLATIONS else 0)
