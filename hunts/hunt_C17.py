#!/usr/bin/env python
"""Bug hunt for property C17 (pickle / deepcopy reproduce a LASFile exactly).

Run with:  /venv/bin/python /tmp/hunt-C17/hunt_C17.py

Every case works on the unmodified lasio of this worktree.  Exit status 1 if at
least one in-domain violation is demonstrated, 0 otherwise.  Cases labelled
BORDERLINE are printed for the record but do not count.
"""
import copy
import io
import logging
import os
import pickle
import sys
import warnings

sys.path.insert(0, os.path.dirname(os.path.abspath(__file__)))

import numpy as np  # noqa: E402

import lasio  # noqa: E402
from lasio import HeaderItem, SectionItems  # noqa: E402

logging.disable(logging.CRITICAL)
warnings.simplefilter("ignore")

VIOLATIONS = []
HOWS = [("pickle protocol %d" % p, p) for p in range(6)] + [("copy.deepcopy", None)]


def roundtrip(obj, proto):
    if proto is None:
        return copy.deepcopy(obj)
    return pickle.loads(pickle.dumps(obj, protocol=proto))


def written(las):
    s = io.StringIO()
    copy.deepcopy(las).write(s)  # write() updates the header of its LASFile
    return s.getvalue()


def banner(title):
    print()
    print("=" * 78)
    print(title)
    print("=" * 78)


BASE = (
    "~Version\nVERS. 2.0 :\nWRAP. NO :\n"
    "~Well\nSTRT.M 1 :\nSTOP.M 3 :\nSTEP.M 1 :\nNULL. -999.25 :\n"
    "~Curves\nDEPT.M :\nGR.API :\n"
    "~Params\n%s\n"
    "~ASCII\n1 10\n2 20\n3 30\n"
)


# ---------------------------------------------------------------------------
# V1  a header item whose mnemonic is "__setstate__" makes the section (and the
#     LASFile that holds it) impossible to unpickle
# ---------------------------------------------------------------------------
def case_v1():
    banner("V1  mnemonic '__setstate__' : section / LASFile cannot be unpickled")
    text = BASE % "__setstate__ . 5 : a parameter"
    print("input: LAS text with the ~Params line  '__setstate__ . 5 : a parameter',")
    print("       read with mnemonic_case='preserve' (same with 'lower', or an item")
    print("       appended through the API)")
    las = lasio.read(text, mnemonic_case="preserve")
    print("las.params.keys() =", las.params.keys())
    print("required: pickle round trip of the LASFile and of las.params gives an equal object")
    failed = []
    for label, target in (("LASFile", las), ("section las.params", las.params)):
        for how, proto in HOWS:
            try:
                c = roundtrip(target, proto)
                keys = (c.params if label == "LASFile" else c).keys()
                print("  %-18s %-18s ok, params keys %s" % (label, how, keys))
            except Exception as exc:
                failed.append((label, how))
                print("  %-18s %-18s raises %s: %s" % (label, how, type(exc).__name__, exc))
    # API-built variant
    sec = SectionItems([HeaderItem("__setstate__", value=1)])
    try:
        pickle.loads(pickle.dumps(sec))
        print("  API-built SectionItems([HeaderItem('__setstate__')]): ok")
    except Exception as exc:
        failed.append(("api", "pickle"))
        print("  API-built SectionItems([HeaderItem('__setstate__')]): raises %s: %s"
              % (type(exc).__name__, exc))
    if failed:
        print("lasio: pickle.loads() raises for %d of the combinations above" % len(failed))
        VIOLATIONS.append("V1 mnemonic '__setstate__' breaks unpickling of the section / LASFile")


# ---------------------------------------------------------------------------
# V2  a float curve held in a numpy masked array (an ndarray subclass) comes
#     back as a plain ndarray: the mask is lost
# ---------------------------------------------------------------------------
def case_v2():
    banner("V2  masked float curve: the copy is a plain ndarray, the mask is lost")
    las = lasio.read(BASE % "X . 1 : p")
    masked = np.ma.masked_greater(np.array([10.0, 20.0, 30.0]), 25.0)
    las["GR"] = masked          # documented: las[mnemonic] = 1-D ndarray (update_curve)
    print("input: las = lasio.read(<3-row file>);  las['GR'] = np.ma.masked_greater([10,20,30], 25)")
    print("original curve:", type(las.curves.GR.data).__name__, las.curves.GR.data,
          " mean =", las["GR"].mean())
    print("required: same curve array in the copy (type, mask, mean 15.0)")
    bad = []
    for label, getter in (
        ("LASFile", lambda c: c.curves.GR.data),
        ("section las.curves", lambda c: c.GR.data),
        ("item las.curves.GR", lambda c: c.data),
    ):
        target = {"LASFile": las, "section las.curves": las.curves,
                  "item las.curves.GR": las.curves.GR}[label]
        for how, proto in HOWS:
            d = getter(roundtrip(target, proto))
            same = isinstance(d, np.ma.MaskedArray) and np.array_equal(
                np.ma.getmaskarray(d), np.ma.getmaskarray(masked))
            if not same:
                bad.append((label, how))
            print("  %-18s %-18s -> %s %s mean=%s%s" % (
                label, how, type(d).__name__, d, d.mean(), "" if same else "   <-- differs"))
    c = roundtrip(las, 2)
    print("write() output identical:", written(las) == written(c),
          "(np.vstack in LASFile.data drops the mask on both sides)")
    if bad:
        VIOLATIONS.append("V2 masked-array (ndarray subclass) curve data becomes a plain "
                          "ndarray in the copy; mask lost")


# ---------------------------------------------------------------------------
# Borderline, not counted
# ---------------------------------------------------------------------------
def borderline():
    banner("BORDERLINE (not counted) B1: curve data stored as list / tuple / Series")
    las = lasio.read(BASE % "X . 1 : p")
    las["GR"] = [10.0, 20.0, 30.0]
    c = roundtrip(las, 2)
    print("las['GR'] = [10.0, 20.0, 30.0]  (existing curve -> update_curve keeps the list)")
    print("  original data type:", type(las.curves.GR.data).__name__,
          "| copy:", type(c.curves.GR.data).__name__,
          "| deepcopy:", type(copy.deepcopy(las).curves.GR.data).__name__)
    print("  las['GR'] * 2 ->", las["GR"] * 2, "| copy ->", c["GR"] * 2)

    banner("BORDERLINE (not counted) B2: pure-Python unpickler, section of 1001 items")
    sec = SectionItems()
    for i in range(999):
        sec.append(HeaderItem("M%d" % i))
    for _ in range(3):
        sec.append(HeaderItem("X"))
    del sec["X:1"]
    print("section of 1001 items ending in", sec.keys()[-2:])
    for proto in (0, 2, 5):
        data = pickle.dumps(sec, proto)
        print("  protocol %d: pickle.loads -> %s ; pickle._loads (pure Python) -> %s" % (
            proto, pickle.loads(data).keys()[-2:], pickle._loads(data).keys()[-2:]))

    banner("BORDERLINE (not counted) B3: attributes / mapping content outside the five fields")
    h = HeaderItem("A", value=1)
    h.comment = "note"
    h["value"] = 3      # OrderedDict.__setitem__: stored as mapping content, not as .value
    c = roundtrip(h, 2)
    print("  h.comment kept:", hasattr(c, "comment"), "| dict(h) =", dict(h), "dict(copy) =", dict(c))


def main():
    case_v1()
    case_v2()
    borderline()
    banner("SUMMARY")
    if VIOLATIONS:
        for v in VIOLATIONS:
            print("VIOLATION:", v)
        return 1
    print("no in-domain violation demonstrated")
    return 0


if __name__ == "__main__":
    sys.exit(main())
