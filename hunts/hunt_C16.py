#!/venv/bin/python
"""Hunt for violations of PROPERTY C16 on the unmodified lasio tree.

C16: write() is deterministic, leaves data alone, states STRT/STOP/STEP
truthfully.

Run:  /venv/bin/python /tmp/hunt-C16/hunt_C16.py
Exit status 1 if at least one in-domain violation is demonstrated, else 0.
"""
import io
import logging
import os
import re
import sys
import warnings

sys.path.insert(0, os.path.dirname(os.path.abspath(__file__)))

import numpy as np  # noqa: E402

import lasio  # noqa: E402
from lasio import LASFile  # noqa: E402

logging.disable(logging.CRITICAL)
warnings.simplefilter("ignore")

TOL = 0.6e-5  # "%.5f" header precision


def write(las, **kw):
    s = io.StringIO()
    las.write(s, **kw)
    return s.getvalue()


def header(out):
    """STRT/STOP/STEP (unit, value-text) of the ~Well section of *out*."""
    well = out.split("~Well")[1].split("~Curve")[0]
    r = {}
    for line in well.splitlines():
        m = re.match(r"^(STRT|STOP|STEP)\s*\.(\S*)\s+(.*?)\s*:", line)
        if m:
            r[m.group(1)] = (m.group(2), m.group(3))
    return r


def first_column(out):
    lines = out.split("~ASCII")[1].splitlines()[1:]
    return [float(l.split()[0]) for l in lines if l.strip()]


def truthful(out):
    """List of (item, header value, value required by C16)."""
    h = header(out)
    col = first_column(out)
    want = {"STRT": col[0], "STOP": col[-1]}
    if len(col) > 1:
        want["STEP"] = col[1] - col[0]
    wrong = []
    for k, v in want.items():
        got = float(h[k][1])
        if not abs(got - v) <= 2 * TOL:
            wrong.append((k, h[k][1], v))
    return wrong


FILE = """~Version
VERS. 2.0 : CWLS log ASCII Standard -VERSION 2.0
WRAP.  NO : One line per depth step
~Well
STRT.M {strt} : START
STOP.M {stop} : STOP
STEP.M {step} : STEP
NULL. -999.25 : NULL
~Curves
DEPT.M : depth
GR.GAPI : gamma
~ASCII
{rows}
"""


def las_text(index, strt=None, stop=None, step=None):
    rows = "\n".join("%s %s" % (x, 10 * i) for i, x in enumerate(index))
    return FILE.format(
        strt=index[0] if strt is None else strt,
        stop=index[-1] if stop is None else stop,
        step=(index[1] - index[0]) if step is None else step,
        rows=rows,
    )


violations = []


def case(label):
    def deco(func):
        print("=" * 78)
        print(label)
        print("-" * 78)
        found = func()
        print("RESULT:", "VIOLATION" if found else "property holds here")
        if found:
            violations.append(label)
        return func

    return deco


# ---------------------------------------------------------------------------
# V1  STEP is computed in the index curve's own integer dtype and wraps round
# ---------------------------------------------------------------------------
@case(
    "V1a  built from scratch, decreasing index held as unsigned integers "
    "(uint16): STEP is not the first increment"
)
def v1a():
    las = LASFile()
    las.append_curve("DEPT", np.array([3000, 2000, 1000], dtype=np.uint16), unit="m")
    las.append_curve("GR", np.array([1.0, 2.0, 3.0]), unit="gAPI")
    print("input : LASFile(); DEPT = uint16 [3000 2000 1000], GR = [1. 2. 3.]")
    out = write(las)
    print("header:", header(out))
    print("index written:", first_column(out))
    wrong = truthful(out)
    for k, got, want in wrong:
        print("C16 requires %s = %.5f (first increment), lasio writes %s" % (k, want, got))
    return bool(wrong)


@case(
    "V1b  read, then index replaced in memory by a decreasing uint8 array: "
    "STEP is not the first increment"
)
def v1b():
    las = lasio.read(las_text([1, 2, 3]))
    las.curves[0].data = np.array([9, 6, 3], dtype=np.uint8)
    print("input : read file with index 1,2,3; las.curves[0].data = uint8 [9 6 3]")
    out = write(las)
    print("header:", header(out))
    print("index written:", first_column(out))
    wrong = truthful(out)
    for k, got, want in wrong:
        print("C16 requires %s = %.5f, lasio writes %s" % (k, want, got))
    return bool(wrong)


@case(
    "V1c  set_data(DataFrame) whose index and columns are all unsigned "
    "(the stacked array stays uint16), decreasing index"
)
def v1c():
    import pandas as pd

    df = pd.DataFrame(
        {"GR": np.array([1, 2, 3], dtype=np.uint8)},
        index=pd.Index(np.array([30, 20, 10], dtype=np.uint16), name="DEPT"),
    )
    las = LASFile()
    las.set_data(df)
    print("input : LASFile().set_data(DataFrame(uint8 column, uint16 index [30 20 10]))")
    print("index dtype in memory:", las.index.dtype)
    out = write(las)
    print("header:", header(out))
    print("index written:", first_column(out))
    wrong = truthful(out)
    for k, got, want in wrong:
        print("C16 requires %s = %.5f, lasio writes %s" % (k, want, got))
    return bool(wrong)


@case(
    "V1d  the same wrap-round with a small signed dtype (int8 index 100, -100)"
)
def v1d():
    las = LASFile()
    las.append_curve("DEPT", np.array([100, -100], dtype=np.int8), unit="m")
    las.append_curve("GR", np.array([1.0, 2.0]))
    print("input : LASFile(); DEPT = int8 [100 -100]")
    out = write(las)
    print("header:", header(out))
    print("index written:", first_column(out))
    wrong = truthful(out)
    for k, got, want in wrong:
        print("C16 requires %s = %.5f, lasio writes %s" % (k, want, got))
    return bool(wrong)


# ---------------------------------------------------------------------------
# V2  the file's STOP disagreed with its data, the user repaired STOP only
# ---------------------------------------------------------------------------
@case(
    "V2   file whose STRT and STOP both disagree with its data; read, then "
    "edited in header (STOP set to the true last depth): STRT stays false"
)
def v2():
    text = las_text([1, 2, 3], strt=0, stop=5)
    las = lasio.read(text)
    print("input : file with STRT 0, STOP 5, STEP 1 and index 1,2,3")
    control = write(lasio.read(text))
    print("written untouched   :", header(control), "-> refreshed, truthful")
    las.well.STOP.value = 3.0
    print("edit  : las.well.STOP.value = 3.0   (nothing else)")
    out = write(las)
    print("written after edit  :", header(out))
    print("index written:", first_column(out))
    wrong = truthful(out)
    for k, got, want in wrong:
        print(
            "C16 requires %s = %.5f (the file's STOP disagreed with its data), "
            "lasio writes %s" % (k, want, got)
        )
    return bool(wrong)


# ---------------------------------------------------------------------------
# Controls: things that were tried and do hold (kept short; see HUNT_C16.md)
# ---------------------------------------------------------------------------
@case("control  int64 / float64 decreasing index built from scratch")
def control1():
    bad = False
    for dt in ("i8", "f8", "f4"):
        las = LASFile()
        las.append_curve("DEPT", np.array([3, 2, 1], dtype=dt), unit="m")
        las.append_curve("GR", np.array([1.0, 2.0, 3.0]))
        out = write(las)
        print(dt, header(out))
        bad = bad or bool(truthful(out))
    return bad


@case("control  three writes give identical text and no further in-memory change")
def control2():
    las = lasio.read(las_text([1, 2, 3], stop=7))
    las.curves[0].data = np.array([5.0, 4.5, 4.0])
    outs = [write(las, wrap=True, version=1.2, fmt="%.3f") for _ in range(3)]
    vers = las.version.VERS.value
    print("identical:", outs[0] == outs[1] == outs[2], " in-memory VERS:", vers)
    return not (outs[0] == outs[1] == outs[2]) or vers != 2.0


print("=" * 78)
distinct = sorted({v.split()[0][:2] for v in violations})
print(
    "in-domain violations demonstrated: %d distinct (%s), %d demonstrations"
    % (len(distinct), ", ".join(distinct), len(violations))
)
for v in violations:
    print("  -", v)
sys.exit(1 if violations else 0)
