#!/usr/bin/env python
"""Hunt for violations of property C10 (channel / encoding independence, purity).

Run with:  /venv/bin/python /tmp/hunt2-C10/hunt_C10.py

Every case prints the input, what C10 requires and what lasio does.
Exit status 1 if at least one violation is demonstrated, 0 otherwise.
"""
import codecs
import io
import logging
import math
import os
import pathlib
import shutil
import sys
import tempfile
import warnings

sys.path.insert(0, os.path.dirname(os.path.abspath(__file__)))

import numpy as np  # noqa: E402
import lasio  # noqa: E402

logging.disable(logging.CRITICAL)
warnings.simplefilter("ignore")


def canon(las):
    """Everything a read produces, in a comparable form."""
    out = {}
    for name, sec in las.sections.items():
        if isinstance(sec, str):
            out[name] = ("text", sec)
        else:
            items = []
            for it in sec:
                v = it.value
                if isinstance(v, float) and math.isnan(v):
                    v = "NaN"
                items.append(
                    (it.mnemonic, it.original_mnemonic, it.unit,
                     type(it.value).__name__, repr(v), it.descr)
                )
            out[name] = ("items", tuple(items))
    data = []
    for c in las.curves:
        d = np.asarray(c.data)
        if d.dtype.kind == "f":
            data.append(tuple("nan" if math.isnan(x) else repr(float(x)) for x in d))
        else:
            data.append(tuple(str(x) for x in d))
    out["__data__"] = tuple(data)
    out["__index_unit__"] = las.index_unit
    return out


def read_canon(ref, **kw):
    try:
        return canon(lasio.read(ref, **kw))
    except Exception as e:  # noqa
        return ("EXCEPTION", type(e).__name__, str(e)[:160])


def brief(c):
    if isinstance(c, tuple):
        return repr(c)
    well = [i[0] + "=" + i[4] for i in c["Well"][1]]
    curves = [i[0] for i in c["Curves"][1]]
    return "Well: %s | Curves: %s | data: %s" % (well, curves, c["__data__"])


TEXT = (
    "~Version\n"
    " VERS. 2.0 : CWLS log ASCII Standard\n"
    " WRAP. NO  : One line per depth step\n"
    "~Well\n"
    " STRT.M 1.0 : START\n"
    " STOP.M 2.0 : STOP\n"
    " STEP.M 1.0 : STEP\n"
    " NULL. -999.25 : NULL\n"
    " COMP. Société Générale : COMPANY\n"
    "~Curve\n"
    " DEPT.M : depth\n"
    " GR.gAPI : gamma\n"
    "~ASCII\n"
    "1.0 10.0\n"
    "2.0 20.0\n"
)

violations = []
tmpdir = tempfile.mkdtemp(prefix="hunt_C10_")


def case_1():
    """A text stream from codecs.open() / codecs.getreader() is a file object
    that returns str, but its tell() is the position of the underlying byte
    stream after read-ahead, not the position of the line just read.  lasio
    uses tell()/seek() as section addresses, so it jumps into the middle of
    later lines."""
    print("=" * 78)
    print("CASE 1: open text file object made by codecs.open()")
    print("-" * 78)
    print("input text (stored with encoding latin-1 / cp1252 / utf-8):")
    print(TEXT)
    ref = read_canon(io.StringIO(TEXT))
    print("C10 requires (StringIO, str path, Path, open() all give this):")
    print("   ", brief(ref))
    found = False
    for enc in ("latin-1", "cp1252", "utf-8"):
        p = os.path.join(tmpdir, "case1_%s.las" % enc)
        with open(p, "w", encoding=enc) as f:
            f.write(TEXT)
        by_path = read_canon(p, encoding=enc)
        with open(p, "r", encoding=enc) as fo:
            by_open = read_canon(fo)
        got = read_canon(codecs.open(p, "r", encoding=enc))
        with open(p, "rb") as raw:
            got2 = read_canon(codecs.getreader(enc)(raw))
        assert by_path == ref and by_open == ref
        print("lasio.read(codecs.open(path, 'r', encoding=%r)):" % enc)
        print("   ", brief(got))
        print("lasio.read(codecs.getreader(%r)(open(path, 'rb'))):" % enc)
        print("   ", brief(got2))
        if got != ref or got2 != ref:
            found = True
    if found:
        print("=> VIOLATION: STRT/STOP/STEP and both curve definitions are silently lost")
        violations.append("case 1: codecs.open()/StreamReader file object")
    else:
        print("=> holds")


def case_2():
    """A pathlib.Path is unambiguously a path, but lasio turns it into a str
    and then applies the 'more than one line => LAS content' heuristic with
    str.splitlines(), which also splits at the non-ASCII line separators
    U+0085, U+2028 and U+2029 (and at VT, FF, FS, GS, RS)."""
    print("=" * 78)
    print("CASE 2: pathlib.Path whose name contains a Unicode line separator")
    print("-" * 78)
    ref = read_canon(io.StringIO(TEXT))
    print("C10 requires:", brief(ref))
    found = False
    for sep, label in (("\u2028", "U+2028"), ("\u0085", "U+0085"), ("\u2029", "U+2029"), ("\x0c", "U+000C")):
        name = "well%s34.las" % sep
        p = pathlib.Path(tmpdir) / name
        try:
            with open(p, "w", encoding="utf-8") as f:
                f.write(TEXT)
        except OSError as e:
            print("cannot create", repr(name), e)
            continue
        with open(p, "r", encoding="utf-8") as fo:
            by_open = read_canon(fo)
        assert by_open == ref
        got = read_canon(p, encoding="utf-8")
        print("file name %r (%s): lasio.read(pathlib.Path(...), encoding='utf-8') ->" % (name, label))
        print("   ", brief(got))
        if got != ref:
            found = True
    if found:
        print("=> VIOLATION: the Path is read as if it were LAS text ('No ~ sections found')")
        violations.append("case 2: Path with U+2028/U+0085/U+2029 in the file name")
    else:
        print("=> holds")


if __name__ == "__main__":
    try:
        case_1()
        case_2()
    finally:
        shutil.rmtree(tmpdir, ignore_errors=True)
    print("=" * 78)
    if violations:
        print("%d violation(s) demonstrated:" % len(violations))
        for v in violations:
            print("  -", v)
        sys.exit(1)
    print("no violation demonstrated")
    sys.exit(0)
