#!/venv/bin/python
"""hunt_C20.py - attempt to refute property C20 on the unmodified lasio tree.

C20: every file handle lasio opens itself for a path given to read(), write()
or to_csv() is closed by the time the call returns or raises, wherever the
failure occurs; caller-supplied file objects given to write()/to_csv() are
left open; a failed call never leaves the LASFile holding an open handle.

The script runs every attack that was tried during the hunt (compact form)
and prints one line per attack family.  Exit status: 1 if at least one
in-domain violation is demonstrated, 0 if none was found.

Result of the hunt on this tree: NO in-domain violation found (exit 0).
"""
import sys

sys.path.insert(0, "/tmp/hunt-C20")

import builtins
import errno
import gc
import glob
import io
import logging
import os
import pathlib
import tempfile
import warnings

import numpy as np

import lasio

logging.disable(logging.CRITICAL)
warnings.simplefilter("ignore")

EX = "/tmp/hunt-C20/tests/examples/"
TMP = tempfile.mkdtemp(prefix="huntC20_")
VIOLATIONS = []


def report(family, n_trials, viols):
    status = "HOLDS" if not viols else "VIOLATED (%d)" % len(viols)
    print("%-72s trials=%-7d %s" % (family, n_trials, status))
    for v in viols[:5]:
        print("     VIOLATION:", v)
    VIOLATIONS.extend((family, v) for v in viols)


# --------------------------------------------------------------------------
# helpers
# --------------------------------------------------------------------------
def fd_table():
    d = {}
    for f in os.listdir("/proc/self/fd"):
        try:
            d[f] = os.readlink("/proc/self/fd/" + f)
        except OSError:
            pass
    return d


def find_open_handles(obj, maxdepth=7):
    """Open io objects reachable from obj through attributes/containers."""
    seen, found = set(), []

    def walk(o, d):
        if id(o) in seen or d > maxdepth:
            return
        seen.add(id(o))
        if isinstance(o, io.IOBase):
            if not o.closed:
                found.append(o)
            return
        if isinstance(o, (str, bytes, int, float, type(None), np.ndarray)):
            return
        if isinstance(o, dict):
            for k, v in o.items():
                walk(k, d + 1)
                walk(v, d + 1)
        elif isinstance(o, (list, tuple, set, frozenset)):
            for v in o:
                walk(v, d + 1)
        if hasattr(o, "__dict__"):
            walk(vars(o), d + 1)

    walk(obj, 0)
    return found


class Ctl:
    """Counts low-level operations; raises OSError(EIO) at the k-th one."""

    def __init__(self, fail_at=None, persistent=False):
        self.fail_at, self.persistent = fail_at, persistent
        self.n = 0
        self.files = []
        self.armed = True

    def tick(self, kind, name=""):
        if not self.armed:
            return
        self.n += 1
        if self.fail_at is not None and (
            self.n == self.fail_at or (self.persistent and self.n >= self.fail_at)
        ):
            raise OSError(errno.EIO, "injected failure at op %d (%s %s)" % (self.n, kind, name))


class FaultyRaw(io.RawIOBase):
    """A raw file whose readinto/write/seek/tell can be made to fail; the
    genuine io.BufferedReader/Writer + io.TextIOWrapper are stacked on top,
    so lasio sees real text-file objects with a faulty device underneath."""

    def __init__(self, raw, ctl, name):
        self._raw, self._ctl, self._name = raw, ctl, name

    def readinto(self, b):
        self._ctl.tick("read", self._name)
        return self._raw.readinto(b)

    def write(self, b):
        self._ctl.tick("write", self._name)
        return self._raw.write(b)

    def seek(self, pos, whence=0):
        self._ctl.tick("seek", self._name)
        return self._raw.seek(pos, whence)

    def tell(self):
        self._ctl.tick("tell", self._name)
        return self._raw.tell()

    def truncate(self, size=None):
        return self._raw.truncate(size)

    def readable(self):
        return self._raw.readable()

    def writable(self):
        return self._raw.writable()

    def seekable(self):
        return self._raw.seekable()

    def fileno(self):
        return self._raw.fileno()

    def close(self):
        try:
            self._raw.close()
        finally:
            super().close()


def make_fake_open(ctl, buffer_size=None):
    def fake_open(file, mode="r", buffering=-1, encoding=None, errors=None,
                  newline=None, closefd=True, opener=None):
        ctl.tick("open", str(file))  # the open itself is a failure point
        rawmode = mode.replace("t", "").replace("b", "")
        real = io.FileIO(file, rawmode)
        raw = FaultyRaw(real, ctl, os.path.basename(os.fsdecode(file)) + ":" + mode)
        ctl.files.append((file, mode, real))
        was, ctl.armed = ctl.armed, False  # construction is part of open()
        try:
            try:
                bs = buffer_size or io.DEFAULT_BUFFER_SIZE
                if rawmode == "r":
                    buf = io.BufferedReader(raw, bs)
                else:
                    buf = io.BufferedWriter(raw, bs)
                if "b" in mode:
                    return buf
                return io.TextIOWrapper(buf, encoding=encoding, errors=errors, newline=newline)
            except BaseException:
                real.close()  # what the real open() does too
                raise
        finally:
            ctl.armed = was

    return fake_open


class ProxyFile:
    """Object-level injection: wraps the file object lasio gets from open()."""

    def __init__(self, f, ctl):
        self.f, self.ctl = f, ctl

    def read(self, *a):
        self.ctl.tick("read")
        return self.f.read(*a)

    def readline(self, *a):
        self.ctl.tick("readline")
        return self.f.readline(*a)

    def __iter__(self):
        return self

    def __next__(self):
        self.ctl.tick("next")
        return next(self.f)

    def seek(self, *a):
        self.ctl.tick("seek")
        return self.f.seek(*a)

    def tell(self):
        self.ctl.tick("tell")
        return self.f.tell()

    def write(self, d):
        self.ctl.tick("write")
        return self.f.write(d)

    def flush(self):
        return self.f.flush()

    def close(self):
        return self.f.close()

    @property
    def closed(self):
        return self.f.closed

    def __enter__(self):
        return self

    def __exit__(self, *a):
        self.close()


REAL_OPEN = io.open


def make_proxy_open(ctl):
    def fake(*a, **k):
        ctl.tick("open")
        f = REAL_OPEN(*a, **k)
        ctl.files.append((a[0], k.get("mode", a[1] if len(a) > 1 else "r"), f))
        return ProxyFile(f, ctl)

    return fake


def run(call, fail_at=None, persistent=False, level="raw", buffer_size=None, las_holder=None):
    """Run call() with open() replaced; return (nops, exc, problems)."""
    ctl = Ctl(fail_at, persistent)
    fake = make_fake_open(ctl, buffer_size) if level == "raw" else make_proxy_open(ctl)
    fd0 = fd_table()
    saved = (builtins.open, io.open)
    builtins.open = io.open = fake
    exc = None
    try:
        try:
            call()
        except BaseException as e:  # noqa - the exception stays referenced: worst case
            exc = e
    finally:
        builtins.open, io.open = saved
    problems = []
    unclosed = [(f, m) for (f, m, real) in ctl.files if not real.closed]
    if unclosed:
        problems.append("handles still open: %r" % unclosed)
    fd1 = fd_table()
    new = {k: v for k, v in fd1.items() if k not in fd0}
    if new:
        problems.append("new fds: %r" % new)
    if las_holder is not None and las_holder.get("las") is not None:
        held = find_open_handles(las_holder["las"])
        if held:
            problems.append("LASFile holds open handle(s): %r" % held)
    for f, m, real in ctl.files:
        if not real.closed:
            real.close()
    return ctl.n, exc, problems


def ks_for(n, dense=40, samples=15):
    if n <= dense:
        return list(range(1, n + 2))
    return sorted(set(list(range(1, 25)) + list(range(25, n + 2, max(1, n // samples))) + [n - 1, n, n + 1]))


def sweep(call, level="raw", buffer_size=None, las_holder=None, label=""):
    """clean run + injected OSError at every (sampled) k, one-shot and persistent."""
    trials, viols = 0, []
    n, exc, problems = run(call, level=level, buffer_size=buffer_size, las_holder=las_holder)
    trials += 1
    if problems:
        viols.append((label, "clean run", repr(exc), problems))
    for persistent in (False, True):
        for k in ks_for(n):
            _, e2, problems = run(call, k, persistent, level, buffer_size, las_holder)
            trials += 1
            if problems:
                viols.append((label, "k=%d persistent=%s" % (k, persistent), repr(e2), problems))
    return trials, viols


def mk(name, data):
    p = os.path.join(TMP, name)
    with REAL_OPEN(p, "wb") as f:
        f.write(data)
    return p


HDR = b"~V\nVERS. 2.0:\nWRAP. NO:\n~W\nNULL. -999.25:\n~C\nDEPT.M:\nA.:\nB.:\n"
with REAL_OPEN(EX + "sample.las", "rb") as _f:
    SAMPLE_BYTES = _f.read()
INPUTS = {
    "ok sample": SAMPLE_BYTES,
    "empty file": b"",
    "no sections": b"hello world\nno sections here\n",
    "LiDAR magic": b"LASF\x00\x00binary",
    "header error": b"~V\nVERS. 2.0:\nWRAP. NO:\n~W\nthis line has no period or colon\n~C\nDEPT.M:\n~A\n1\n",
    "reshape error": HDR + b"~A\n1 2 3\n4 5\n6 7 8\n",
    "decode error (header)": b"~V\nVERS. 2.0:\nWRAP. NO:\n~W\nCOMP. caf\xe9 \xff\xfe:\n~C\nDEPT.M:\n~A\n1\n",
    "decode error (late, past first buffer)": HDR + b"~A\n" + b"1 2 3\n" * 4000 + b"\xff\xfe 2 3\n",
    "BOM + bad byte": b"\xef\xbb\xbf~V\nVERS. 2.0:\nWRAP. NO:\n~W\nCOMP. \xff:\n~C\nDEPT.M:\n~A\n1\n",
    "wrapped": None,  # filled from examples below
}
with REAL_OPEN(EX + "1.2/sample_wrapped.las", "rb") as _f:
    INPUTS["wrapped"] = _f.read()
READ_KWS = [
    {},
    {"engine": "normal"},
    {"ignore_data": True},
    {"encoding": "utf-8", "encoding_errors": "strict"},
    {"autodetect_encoding": False, "encoding_errors": "strict"},
    {"autodetect_encoding": "chardet"},
    {"autodetect_encoding": "cchardet"},      # UnboundLocalError in get_encoding
    {"autodetect_encoding_chars": None},
    {"encoding": "bogus-codec"},              # LookupError raised by open()
    {"encoding_errors": "bogus-handler"},     # LookupError at the first decode
    {"encoding": "utf-16", "encoding_errors": "strict"},
    {"null_policy": "all"},
    {"dtypes": {"DEPT": str}},
    {"mnemonic_case": "bogus"},
    {"bogus_kw": 1},                          # TypeError before anything is opened
]


# --------------------------------------------------------------------------
# 1. read(path)/read(Path): every input-induced exception class, real files,
#    checked against the process fd table (no patching at all)
# --------------------------------------------------------------------------
def attack_read_real():
    trials, viols = 0, []
    for nm, data in INPUTS.items():
        p = mk("real_%s.las" % nm.split()[0], data)
        for kw in READ_KWS:
            for ref in (p, pathlib.Path(p)):
                las = lasio.LASFile()
                before = fd_table()
                exc = None
                try:
                    las.read(ref, **kw)
                except BaseException as e:  # noqa
                    exc = e
                after = fd_table()
                new = {k: v for k, v in after.items() if k not in before}
                trials += 1
                held = find_open_handles(las)
                if new or held:
                    viols.append((nm, type(ref).__name__, kw, repr(exc), new, held))
    report("1. read(str)/read(Path) x input-induced exception classes, real fds", trials, viols)


# --------------------------------------------------------------------------
# 2. read(): injected OSError at the k-th low-level op (raw device level)
# --------------------------------------------------------------------------
def attack_read_raw_injection():
    trials, viols = 0, []
    for nm, data in INPUTS.items():
        p = mk("raw_%s.las" % nm.split()[0], data)
        for kw in READ_KWS[:6] + READ_KWS[7:8]:
            for ref in (p, pathlib.Path(p)):
                if isinstance(ref, pathlib.Path) and kw:
                    continue
                holder = {}

                def call():
                    holder["las"] = lasio.LASFile()
                    holder["las"].read(ref, **kw)

                t, v = sweep(call, "raw", las_holder=holder, label=(nm, type(ref).__name__, kw))
                trials += t
                viols += v
    # every shipped example once, default options, small buffer to get more failure points
    for f in sorted(glob.glob(EX + "**/*.las", recursive=True)):
        if os.path.getsize(f) > 60000:
            continue
        holder = {}

        def call():
            holder["las"] = lasio.LASFile()
            holder["las"].read(f)

        t, v = sweep(call, "raw", buffer_size=512, las_holder=holder, label=(os.path.basename(f),))
        trials += t
        viols += v
    report("2. read(): OSError at k-th raw readinto/seek/tell/open, one-shot + persistent", trials, viols)


# --------------------------------------------------------------------------
# 3. read(): injection on the file object's methods (read/readline/next/seek/tell)
# --------------------------------------------------------------------------
def attack_read_proxy_injection():
    trials, viols = 0, []
    for nm in ("ok sample", "wrapped", "reshape error", "header error"):
        p = mk("proxy_%s.las" % nm.split()[0], INPUTS[nm])
        for kw in ({}, {"engine": "normal"}, {"autodetect_encoding": False}):
            holder = {}

            def call():
                holder["las"] = lasio.LASFile()
                holder["las"].read(p, **kw)

            t, v = sweep(call, "proxy", las_holder=holder, label=(nm, kw))
            trials += t
            viols += v
    report("3. read(): OSError at k-th file-object method call (proxy level)", trials, viols)


# --------------------------------------------------------------------------
# 4/5. write(path) and to_csv(path)
# --------------------------------------------------------------------------
def big_las():
    las = lasio.LASFile()
    d = np.arange(0, 3000) * 0.5
    las.append_curve("DEPT", d, unit="m")
    for i in range(4):
        las.append_curve("C%d" % i, d * (i + 1))
    return las


def ragged_las():
    las = lasio.read(EX + "sample.las")
    las.curves[1].data = las.curves[1].data[:1]
    return las


MAKERS = {
    "sample": lambda: lasio.read(EX + "sample.las"),
    "big (output > buffer, raw writes before close)": big_las,
    "no curves": lasio.LASFile,
    "ragged curves": ragged_las,
    "text column": lambda: lasio.read(EX + "sample_str_in_data.las"),
}
WRITE_KWS = [{}, {"version": 1.2}, {"version": 2.0, "wrap": True}, {"fmt": "%d%d"}, {"fmt": "%s"},
             {"bogus": 1}, {"STRT": "x"}, {"mnemonics_header": True}, {"len_numeric_field": 3},
             {"file_object": None}]
CSV_KWS = [{}, {"units_loc": "[]"}, {"units_loc": "()"}, {"mnemonics": False, "units": False},
           {"mnemonics": ["a"]}, {"units": [1, 2]}, {"units_loc": "[]", "units": [1] * 8},
           {"delimiter": "ab"}, {"quoting": 99}, {"lineterminator": "\r\n"}, {"units_loc": None},
           {"bogus": 3}, {"mnemonics": 5}]


def attack_write_tocsv():
    for kind, kws in (("write", WRITE_KWS), ("to_csv", CSV_KWS)):
        trials, viols = 0, []
        for name, mk_las in MAKERS.items():
            for kw in kws:
                for pathform in ("str", "bytes", "missing dir", "is a dir"):
                    las = mk_las()
                    p = os.path.join(TMP, "out.%s" % kind)
                    if pathform == "bytes":
                        p = p.encode()
                    elif pathform == "missing dir":
                        p = os.path.join(TMP, "nonexistent", "x")
                    elif pathform == "is a dir":
                        p = TMP
                    holder = {"las": las}

                    def call():
                        getattr(las, kind)(p, **dict(kw))

                    if pathform != "str":
                        _, exc, problems = run(call, las_holder=holder)
                        trials += 1
                        if problems:
                            viols.append((name, kw, pathform, repr(exc), problems))
                        continue
                    for level, bs in (("raw", None), ("raw", 64), ("proxy", None)):
                        t, v = sweep(call, level, buffer_size=bs, las_holder=holder,
                                     label=(name, kw, level, bs))
                        trials += t
                        viols += v
        report("%d. %s(path): clean + OSError at k-th open/write (incl. flush at close)"
               % (4 if kind == "write" else 5, kind), trials, viols)


# --------------------------------------------------------------------------
# 6. genuine device errors, no patching: /dev/full (ENOSPC at flush) and
#    /proc/self/mem (EIO at first read)
# --------------------------------------------------------------------------
def attack_real_devices():
    trials, viols = 0, []
    las, big = lasio.read(EX + "sample.las"), big_las()
    cases = [
        ("write /dev/full", lambda: las.write("/dev/full")),
        ("to_csv /dev/full", lambda: las.to_csv("/dev/full")),
        ("write big /dev/full", lambda: big.write("/dev/full")),
        ("to_csv big /dev/full", lambda: big.to_csv("/dev/full")),
        ("read /proc/self/mem", lambda: lasio.read("/proc/self/mem")),
        ("read /proc/self/mem adhoc", lambda: lasio.read("/proc/self/mem", autodetect_encoding=False)),
        ("read /proc/self/mem enc", lambda: lasio.read("/proc/self/mem", encoding="ascii")),
        ("read directory", lambda: lasio.read(TMP)),
        ("read Path(directory)", lambda: lasio.read(pathlib.Path(TMP))),
        ("read missing", lambda: lasio.read(TMP + "/nope.las")),
    ]
    if not (os.path.exists("/dev/full") and os.path.exists("/proc/self/mem")):
        cases = cases[-3:]
    for label, fn in cases:
        before = fd_table()
        exc = None
        try:
            fn()
        except BaseException as e:  # noqa
            exc = e
        after = fd_table()
        new = {k: v for k, v in after.items() if k not in before}
        trials += 1
        if exc is None:
            viols.append((label, "expected an OSError, call succeeded (harness problem)"))
        if new or find_open_handles(las) or find_open_handles(big):
            viols.append((label, repr(exc), new))
    report("6. real device errors: /dev/full, /proc/self/mem, directory, missing file", trials, viols)


# --------------------------------------------------------------------------
# 7. caller-supplied file objects are left open (success and failure)
# --------------------------------------------------------------------------
def attack_caller_objects():
    trials, viols = 0, []
    for name, mk_las in MAKERS.items():
        for kind, kws in (("write", WRITE_KWS), ("to_csv", CSV_KWS)):
            for kw in kws:
                for objkind in ("StringIO", "text file", "binary file (write fails: TypeError)"):
                    las = mk_las()
                    if objkind == "StringIO":
                        fo = io.StringIO()
                    elif objkind == "text file":
                        fo = REAL_OPEN(os.path.join(TMP, "caller.txt"), "w")
                    else:
                        fo = REAL_OPEN(os.path.join(TMP, "caller.bin"), "wb")
                    exc = None
                    try:
                        getattr(las, kind)(fo, **dict(kw))
                    except Exception as e:
                        exc = e
                    trials += 1
                    if fo.closed:
                        viols.append((name, kind, kw, objkind, repr(exc), "caller's object was closed"))
                    fo.close()
    report("7. caller-supplied objects to write()/to_csv() are left open", trials, viols)


# --------------------------------------------------------------------------
# 8. odd path spellings (line separators inside the name, trailing blank)
# --------------------------------------------------------------------------
def attack_odd_paths():
    trials, viols = 0, []
    las = lasio.read(EX + "sample.las")
    for ch in ["\n", "\x0c", "\u2028", "\x85", "\r", " ", "~", "#"]:
        p = mk("we" + ch + "ird.las", SAMPLE_BYTES)
        for label, fn in (
            ("read(str)", lambda: lasio.read(p)),
            ("read(Path)", lambda: lasio.read(pathlib.Path(p))),
            ("write", lambda: las.write(os.path.join(TMP, "o" + ch + "ut.las"))),
            ("to_csv", lambda: las.to_csv(os.path.join(TMP, "o" + ch + "ut.csv"))),
        ):
            before = fd_table()
            exc = None
            try:
                fn()
            except BaseException as e:  # noqa
                exc = e
            after = fd_table()
            new = {k: v for k, v in after.items() if k not in before}
            trials += 1
            if new:
                viols.append((label, repr(ch), repr(exc), new))
    report("8. paths containing line separators / blanks / '~' / '#'", trials, viols)


# --------------------------------------------------------------------------
# 9. nothing is left for the garbage collector either (ResourceWarning)
# --------------------------------------------------------------------------
def attack_resource_warnings():
    caught = []
    old_hook = sys.unraisablehook
    sys.unraisablehook = lambda u: caught.append(u)
    trials = 0
    with warnings.catch_warnings(record=True) as w:
        warnings.simplefilter("always", ResourceWarning)
        las = lasio.read(EX + "sample.las")
        for nm, data in INPUTS.items():
            p = mk("rw_%s.las" % nm.split()[0], data)
            for kw in READ_KWS:
                try:
                    lasio.read(p, **kw)
                except Exception:
                    pass
                trials += 1
        for kw in WRITE_KWS:
            try:
                las.write(os.path.join(TMP, "rw.las"), **dict(kw))
            except Exception:
                pass
            trials += 1
        for kw in CSV_KWS:
            try:
                las.to_csv(os.path.join(TMP, "rw.csv"), **dict(kw))
            except Exception:
                pass
            trials += 1
        gc.collect()
    sys.unraisablehook = old_hook
    viols = [str(x.message) for x in w if issubclass(x.category, ResourceWarning)]
    viols += [repr(u.exc_value) for u in caught if isinstance(u.exc_value, ResourceWarning)]
    report("9. no ResourceWarning (unclosed file) after gc over all the above inputs", trials, viols)


if __name__ == "__main__":
    print("lasio from", os.path.dirname(lasio.__file__), "- python", sys.version.split()[0])
    print("property C20: handles lasio opens for a path are closed on return/raise;")
    print("              caller's objects stay open; LASFile never keeps a handle\n")
    attack_read_real()
    attack_read_raw_injection()
    attack_read_proxy_injection()
    attack_write_tocsv()
    attack_real_devices()
    attack_caller_objects()
    attack_odd_paths()
    attack_resource_warnings()
    print()
    if VIOLATIONS:
        print("RESULT: %d in-domain violation(s) of C20 demonstrated" % len(VIOLATIONS))
        sys.exit(1)
    print("RESULT: no in-domain violation of C20 found")
    sys.exit(0)
