#!/usr/bin/env python
"""Hunt for violations of property C18 on the unmodified lasio code.

C18: JSON, CSV, Excel, DataFrame and depth views carry the same values as the
curves (see HUNT_C18.md for the clause-by-clause reading).

Run with:  /venv/bin/python /tmp/hunt2-C18/hunt_C18.py
Exit status 1 if at least one violation is demonstrated, 0 otherwise.
"""
import os
import sys

sys.path.insert(0, os.path.dirname(os.path.abspath(__file__)))

import csv
import io
import json
import logging
import tempfile

import numpy as np

import lasio
from lasio import LASFile

logging.disable(logging.CRITICAL)

VIOLATIONS = []


def strict_json(text):
    def refuse(constant):
        raise ValueError("not strict JSON: literal %s" % constant)

    return json.loads(text, parse_constant=refuse)


def case(label, title):
    print("=" * 78)
    print("%s  %s" % (label, title))
    print("-" * 78)


def verdict(label, violated, summary):
    print("  -> %s" % ("VIOLATION: " + summary if violated else "holds here"))
    if violated:
        VIOLATIONS.append((label, summary))


def depth_views(las):
    out = {}
    for name in ("depth_m", "depth_ft"):
        try:
            out[name] = list(getattr(las, name))
        except Exception as exc:  # noqa
            out[name] = "raises %s" % type(exc).__name__
    return out


# ---------------------------------------------------------------------------
# V1  index unit of a file without a ~Well section
# ---------------------------------------------------------------------------
NO_WELL = """~Version
VERS. 2.0 :
WRAP. NO :
~Curve
DEPT.{unit} :
GR.GAPI :
~A
120.0 5.0
240.0 6.0
"""


def v1():
    case("V1", "file without ~Well: the index unit is taken from lasio's "
               "default STRT/STOP/STEP items (unit 'm'), which are not in the file")
    text = NO_WELL.format(unit="FT")
    print("input (read from a string):")
    print(text)
    las = lasio.read(text)
    print("  first curve unit       :", repr(las.curves[0].unit))
    print("  las.well.STRT.unit     :", repr(las.well.STRT.unit),
          "(default item, no STRT line in the file)")
    print("  required: index unit FT (the only unit in the file, recognised set),"
          " depth_ft == index, depth_m == index*0.3048")
    print("  lasio   : index_unit =", repr(las.index_unit), depth_views(las))
    bad_a = las.index_unit != "FT"
    verdict("V1a", bad_a,
            "DEPT.FT without ~Well: unit left undefined (conflict with the "
            "default STRT.m that is not in the file)")

    text = NO_WELL.format(unit="S")
    las = lasio.read(text)
    print("  same file with DEPT.S (seconds, outside the recognised sets):")
    print("  required: index unit undefined (no recognised unit anywhere in the file)")
    print("  lasio   : index_unit =", repr(las.index_unit), depth_views(las))
    bad_b = las.index_unit is not None
    verdict("V1b", bad_b,
            "DEPT.S without ~Well: index recognised as metres, a unit that "
            "appears nowhere in the file")

    fn = os.path.join(os.path.dirname(os.path.abspath(__file__)),
                      "tests", "examples", "barebones.las")
    if os.path.exists(fn):
        las = lasio.read(fn)
        print("  tests/examples/barebones.las (DEPT .F, no ~Well): index_unit =",
              repr(las.index_unit), depth_views(las))


# ---------------------------------------------------------------------------
# V2  set_data_from_df(df()) renames duplicated / blank curves
# ---------------------------------------------------------------------------
DUP = """~Version
VERS. 2.0 :
WRAP. NO :
~Well
STRT.M 1.0 :
STOP.M 2.0 :
STEP.M 1.0 :
NULL. -999.25 :
~Curve
DEPT.M :
RES.OHMM :
RES.OHMM :
.V :
~A
1.0 5.0 6.0 7.0
2.0 5.5 6.5 7.5
"""


def v2():
    case("V2", "set_data_from_df(df()) does not restore the curve names of "
               "duplicated or unnamed curves")
    print("input: curves DEPT, RES, RES and one curve without mnemonic")
    las = lasio.read(DUP)
    before_session = las.keys()
    before_orig = [c.original_mnemonic for c in las.curves]
    s = io.StringIO()
    las.to_csv(s)
    before_csv = s.getvalue().splitlines()[0]
    s = io.StringIO()
    las.write(s)
    before_las = [l for l in s.getvalue().splitlines() if "OHMM" in l or l.strip().startswith(".V") or "UNKNOWN" in l]

    las.set_data_from_df(las.df())

    after_session = las.keys()
    after_orig = [c.original_mnemonic for c in las.curves]
    s = io.StringIO()
    las.to_csv(s)
    after_csv = s.getvalue().splitlines()[0]
    s = io.StringIO()
    las.write(s)
    after_las = [l for l in s.getvalue().splitlines() if "OHMM" in l or l.strip().startswith(".V") or "UNKNOWN" in l]
    print("  required: same curve names before and after las.set_data_from_df(las.df())")
    print("  session mnemonics before:", before_session)
    print("  session mnemonics after :", after_session)
    print("  curve names (original_mnemonic) before:", before_orig)
    print("  curve names (original_mnemonic) after :", after_orig)
    print("  to_csv() mnemonic row before:", before_csv)
    print("  to_csv() mnemonic row after :", after_csv)
    print("  ~Curve lines written before:", before_las)
    print("  ~Curve lines written after :", after_las)
    verdict("V2", before_orig != after_orig,
            "the names RES, RES, '' become RES:1, RES:2, UNKNOWN (CSV header "
            "row and written ~Curve section change)")


# ---------------------------------------------------------------------------
# V3  index unit is only recognised inside read()
# ---------------------------------------------------------------------------
METRIC = """~Version
VERS. 2.0 :
WRAP. NO :
~Well
STRT.M 100.0 :
STOP.M 200.0 :
STEP.M 100.0 :
NULL. -999.25 :
~Curve
DEPT.M :
GR.GAPI :
~A
100.0 5.0
200.0 6.0
"""


def v3():
    case("V3", "the index unit is recognised only while read() runs: a LASFile "
               "built or edited in memory is not looked at")
    las = LASFile()
    las.append_curve("DEPT", np.array([100.0, 200.0]), unit="m")
    las.append_curve("GR", np.array([5.0, 6.0]), unit="gAPI")
    print("input a: LASFile(); append_curve('DEPT', [100, 200], unit='m'); "
          "STRT/STOP/STEP units:",
          [las.well[m].unit for m in ("STRT", "STOP", "STEP")])
    print("  required: index recognised as metres (STRT, STOP, STEP and the first"
          " curve all say 'm'), depth_m == [100, 200]")
    print("  lasio   : index_unit =", repr(las.index_unit), depth_views(las))
    verdict("V3a", las.index_unit is None,
            "in-memory LASFile with unit 'm' everywhere: depth_m/depth_ft raise "
            "LASUnknownUnitError")

    las = lasio.read(METRIC)
    for m in ("STRT", "STOP", "STEP"):
        las.well[m].unit = "FT"
    las.curves[0].unit = "FT"
    print("input b: file in metres is read, then STRT/STOP/STEP and the first "
          "curve are all given the unit 'FT' (index [100, 200])")
    print("  required: depth_ft == [100, 200], depth_m == [30.48, 60.96] "
          "(or undefined) - never a value computed for the old unit")
    views = depth_views(las)
    print("  lasio   : index_unit =", repr(las.index_unit), views)
    bad = views["depth_ft"] != "raises LASUnknownUnitError" and not np.allclose(
        views["depth_ft"], [100.0, 200.0])
    verdict("V3b", bad,
            "after the units are changed to FT the depth views still treat the "
            "index as metres")


# ---------------------------------------------------------------------------
# V4  item-level .json properties
# ---------------------------------------------------------------------------
def v4():
    case("V4", "CurveItem.json / HeaderItem.json / SectionItems.json write NaN "
               "as the bare literal NaN")
    las = lasio.read(METRIC.replace("200.0 6.0", "200.0 -999.25"))
    print("input: file whose GR curve has one NULL sample; ~Well STRT set to NaN")
    las.well.STRT.value = np.nan
    bad = []
    for label, get in [
        ("las.curves['GR'].json", lambda: las.curves["GR"].json),
        ("las.well['STRT'].json", lambda: las.well["STRT"].json),
        ("las.to_json()", lambda: las.to_json()),
    ]:
        text = get()
        try:
            strict_json(text)
            state = "accepted by a strict parser"
        except ValueError as exc:
            state = "REFUSED by a strict parser (%s)" % exc
            bad.append(label)
        print("  %-24s %s\n      %s" % (label, state, text[:110]))
    # the section level json nests the item texts as strings
    inner = json.loads(las.curves.json)
    try:
        [strict_json(t) for t in inner]
        print("  las.curves.json: inner item texts accepted")
    except ValueError as exc:
        print("  las.curves.json: inner item text REFUSED (%s)" % exc)
        bad.append("las.curves.json")
    print("  required: strict JSON with NaN as null (statement: 'to_json()/json "
          "always produce text a strict JSON parser accepts')")
    verdict("V4", bool(bad), "non-strict JSON from " + ", ".join(bad))


# ---------------------------------------------------------------------------
# V5  renaming a curve to an existing name
# ---------------------------------------------------------------------------
def v5():
    case("V5", "a curve renamed to the name of another curve: both keep the same "
               "session mnemonic, JSON drops one curve and df() raises")
    las = lasio.read(METRIC.replace("GR.GAPI :", "GR.GAPI :\nRHOB.G/CC :").replace(
        "100.0 5.0", "100.0 5.0 2.1").replace("200.0 6.0", "200.0 6.0 2.2"))
    las.curves["RHOB"].mnemonic = "GR"
    print("input: curves DEPT, GR, RHOB; then las.curves['RHOB'].mnemonic = 'GR'")
    print("  session mnemonics:", las.keys(), "(duplicates: no :1/:2 suffix assigned)")
    data = strict_json(las.to_json())["data"]
    print("  required: JSON carries every curve sample (3 curves)")
    print("  lasio   : JSON data keys =", list(data), "->",
          {k: v for k, v in data.items()})
    try:
        frame = las.df()
        df_state = "columns %s" % list(frame.columns)
        df_bad = False
    except Exception as exc:  # noqa
        df_state = "raises %s: %s" % (type(exc).__name__, exc)
        df_bad = True
    print("  df()    :", df_state)
    verdict("V5", len(data) != len(las.curves) or df_bad,
            "duplicate mnemonic created by renaming: to_json() loses the samples "
            "of one curve, df() raises AttributeError")


# ---------------------------------------------------------------------------
# V6  control characters in header text and Excel
# ---------------------------------------------------------------------------
def v6():
    case("V6", "a text header value with a control character (vertical tab, form "
               "feed, ESC ...) makes to_excel() fail")
    text = METRIC.replace("NULL. -999.25 :", "NULL. -999.25 :\nCOMP. ACME\x0bOIL : COMPANY")
    las = lasio.read(text)
    print("input: ~Well line 'COMP. ACME<VT>OIL : COMPANY' ->",
          repr(las.well.COMP.value))
    strict_json(las.to_json())
    print("  to_json(): fine (\\u000b)")
    fn = os.path.join(tempfile.mkdtemp(), "c18.xlsx")
    try:
        las.to_excel(fn)
        state, bad = "workbook written", False
    except Exception as exc:  # noqa
        state, bad = "raises %s: %r" % (type(exc).__name__, str(exc)), True
    print("  required: a workbook whose Header sheet lists every item")
    print("  lasio   : to_excel()", state)
    verdict("V6", bad, "to_excel() raises IllegalCharacterError, no workbook")


# ---------------------------------------------------------------------------
# V7  carriage return in a text sample and to_csv
# ---------------------------------------------------------------------------
def v7():
    case("V7", "a text sample containing a carriage return is written unquoted by "
               "to_csv() (lineterminator forced to '\\n'; Python < 3.13)")
    las = LASFile()
    las.append_curve("DEPT", np.array([1.0, 2.0]), unit="m")
    las.append_curve("NOTE", np.array(["ok", "a\rb"]))
    s = io.StringIO()
    las.to_csv(s)
    text = s.getvalue()
    rows = list(csv.reader(io.StringIO(text, newline="")))
    print("input: text curve NOTE = ['ok', 'a\\rb'], default options")
    print("  required: 2 header rows + 2 records, last record ['2.0', 'a\\rb']")
    print("  lasio   : %r" % text)
    print("  csv.reader gives %d rows: %r" % (len(rows), rows))
    verdict("V7", len(rows) != 4 or rows[-1] != ["2.0", "a\rb"],
            "record with a '\\r' in a text field is split in two by a CSV parser")


def main():
    print("python %s, numpy %s" % (sys.version.split()[0], np.__version__))
    for fn in (v1, v2, v3, v4, v5, v6, v7):
        try:
            fn()
        except Exception as exc:  # noqa
            import traceback
            traceback.print_exc()
            print("  (case %s could not be run: %s)" % (fn.__name__, exc))
    print("=" * 78)
    print("%d violation(s) demonstrated" % len(VIOLATIONS))
    for label, summary in VIOLATIONS:
        print("  %-4s %s" % (label, summary))
    return 1 if VIOLATIONS else 0


if __name__ == "__main__":
    sys.exit(main())
