#!/usr/bin/env python
"""Hunt on property C01 (numeric curve data survives write->read).

Every case below runs on the unmodified lasio of this worktree, prints the
input, what the property requires and what lasio does.  Exit status 1 if at
least one violation is demonstrated, 0 otherwise.

Run:  /venv/bin/python hunt_C01.py
"""
import io
import logging
import os
import sys
import warnings

sys.path.insert(0, os.path.dirname(os.path.abspath(__file__)))

import numpy as np

import lasio

logging.disable(logging.CRITICAL)
warnings.filterwarnings("ignore")

ENGINES = ("numpy", "normal")
violations = []
not_reproduced = []


def banner(title):
    print()
    print("=" * 78)
    print(title)
    print("=" * 78)


def record(name, demonstrated):
    if demonstrated:
        violations.append(name)
        print("--> VIOLATION DEMONSTRATED:", name)
    else:
        not_reproduced.append(name)
        print("--> not reproduced:", name)


def two_curves(values, null=None):
    las = lasio.LASFile()
    las.append_curve("DEPT", np.arange(len(values), dtype=float), unit="m")
    las.append_curve("A", np.array(values, dtype=float))
    if null is not None:
        las.well["NULL"].value = null
    return las


def write_text(las, **kw):
    s = io.StringIO()
    las.write(s, **kw)
    return s.getvalue()


def data_lines(text):
    lines = text.splitlines()
    start = max(i for i, l in enumerate(lines) if l.startswith("~A"))
    return lines[start + 1 :]


# ---------------------------------------------------------------------------
# V1  a finite sample that is NOT the NULL value comes back as NaN
#     (repair 023d1a5 only looks 1 + 0.1 % of |NULL| around the NULL value,
#      low-precision %g / %e formats round from much further away)
# ---------------------------------------------------------------------------
banner(
    "V1  finite sample != NULL is printed as the NULL marker by a low-precision\n"
    "    %g/%e format and is read back as NaN"
)
demonstrated = False
for null, sample, fmt in (
    (-1000, -1004.0, "%.3g"),
    (1e30, 1.004e30, "%.2e"),
    (-1e30, -1.004e30, "%.3g"),
    (-10000, -10400.0, "%.2g"),
):
    las = two_curves([1.0, sample, 3.0], null=null)
    text = write_text(las, fmt=fmt)
    print("NULL = %r, fmt = %r, curve A = [1.0, %r, 3.0]" % (null, fmt, sample))
    print("  data section written:", [l.strip() for l in data_lines(text)])
    for engine in ENGINES:
        back = lasio.read(text, engine=engine)["A"]
        print("  read back (engine=%s): %s" % (engine, back))
        if np.isnan(back[1]):
            demonstrated = True
print(
    "required: the finite sample is recovered to within half a unit of the last\n"
    "          digit printed (it differs from NULL, so it is not the recorded\n"
    "          'sample exactly equal to NULL' deviation)\n"
    "lasio:    prints it with the very text of the NULL marker -> NaN"
)
record("V1 low-precision %g/%e rounds a real reading onto NULL (threshold of fix 023d1a5)", demonstrated)

# V1b: same guard, other facet: it compares with float(NULL), the reader with
# the number that str(NULL) spells.
banner(
    "V1b same guard, NULL held as numpy.float32: the guard compares with\n"
    "    float(NULL) = -999.0999755859375, the file says NULL = -999.1"
)
null32 = np.float32(-999.1)
sample = -999.1  # float64, differs from float(null32)
las = two_curves([1.0, sample, 3.0], null=null32)
text = write_text(las, fmt="%.1f")
print("NULL = %r (float(NULL) = %r), fmt='%%.1f', sample = %r" % (null32, float(null32), sample))
print("  sample == float(NULL)?", sample == float(null32))
print("  NULL line written:", [l for l in text.splitlines() if l.startswith("NULL")])
print("  data section written:", [l.strip() for l in data_lines(text)])
demonstrated = False
for engine in ENGINES:
    back = lasio.read(text, engine=engine)["A"]
    print("  read back (engine=%s): %s" % (engine, back))
    demonstrated = demonstrated or bool(np.isnan(back[1]))
print(
    "required: -999.1 (which is not the float32 NULL held by the object) comes back\n"
    "          as a number\n"
    "lasio:    NaN  (borderline: one may call -999.1 'equal to the NULL the file states')"
)
record("V1b guard compares with float(NULL) instead of the number str(NULL) spells (float32 NULL)", demonstrated)

# ---------------------------------------------------------------------------
# V2  NaN sample + no item that answers to well['NULL']  -> write() raises
# ---------------------------------------------------------------------------
banner("V2  NaN sample in a LASFile whose ~Well section has no item reachable as well['NULL']")
demonstrated = False

src_no_null = """~Version
VERS. 2.0 : CWLS log ASCII Standard -VERSION 2.0
WRAP.  NO : One line per depth step
~Well
STRT.m 0.0 : START
STOP.m 2.0 : STOP
STEP.m 1.0 : STEP
WELL.  X-1 : WELL
~Curve
DEPT.m : depth
A.     : a curve
~ASCII
0.0 1.5
1.0 2.5
2.0 3.5
"""
las = lasio.read(src_no_null)
las["A"][1] = np.nan  # a processing step leaves a gap
print("(a) LASFile read from a file without a NULL line, then A[1] = NaN")
print("    well items:", las.well.keys(), " A =", las["A"])
try:
    text = write_text(las)
    print("    write() succeeded; data:", data_lines(text))
except Exception as exc:  # noqa
    print("    write() raised %s: %s" % (type(exc).__name__, str(exc)[:70]))
    demonstrated = True

las = two_curves([1.5, np.nan, 3.5])
las.well.append(lasio.HeaderItem("NULL", "", -9999.25, "stated twice"))
print("(b) default LASFile + a second NULL item (as read from a file that has the line twice)")
print("    well items:", las.well.keys()[:4], "...", las.well.keys()[-1])
try:
    text = write_text(las)
    print("    write() succeeded")
except Exception as exc:  # noqa
    print("    write() raised %s: %s" % (type(exc).__name__, str(exc)[:70]))
    demonstrated = True

src_mixed_case = src_no_null.replace("WELL.  X-1 : WELL", "Null. -999.25 : NULL VALUE")
las = lasio.read(src_mixed_case, mnemonic_case="preserve")
las["A"][1] = np.nan
print("(c) file with 'Null. -999.25' read with mnemonic_case='preserve', then A[1] = NaN")
try:
    text = write_text(las)
    print("    write() succeeded")
except Exception as exc:  # noqa
    print("    write() raised %s: %s" % (type(exc).__name__, str(exc)[:70]))
    demonstrated = True
print(
    "required: the file is written (NaN through a marker that both engines read as\n"
    "          NaN, as fix 064ed4a does for a NULL line without value)\n"
    "lasio:    KeyError from las.well['NULL'] inside format_data_section_line\n"
    "          (the same look-up is guarded with except KeyError two lines above\n"
    "           for null_number, and in update_start_stop_step)"
)
record("V2 NaN sample and no well['NULL'] item: write() raises KeyError", demonstrated)

# ---------------------------------------------------------------------------
# V3  WRAP line present twice + wrapped output + curve count multiple of the
#     fields per line -> wrong number of rows, data in the wrong curves
# ---------------------------------------------------------------------------
banner(
    "V3  LASFile whose ~Version section has the WRAP line twice, written wrapped,\n"
    "    14 curves (2 x the 7 fields that fit on a 79-character line)"
)
ncurves, nrows = 14, 3
src = (
    "~Version\nVERS. 2.0 : CWLS\nWRAP. NO : one line\nWRAP. NO : said twice\n"
    "~Well\nSTRT.m 0 :\nSTOP.m 2 :\nSTEP.m 1 :\nNULL. -9999.25 :\n~Curve\n"
    + "".join("C%d. :\n" % j for j in range(ncurves))
    + "~A\n"
    + "\n".join(" ".join("%.1f" % (100 * i + j) for j in range(ncurves)) for i in range(nrows))
    + "\n"
)
las = lasio.read(src)
print("version items:", las.version.keys(), " data shape:", las.data.shape)
text = write_text(las, wrap=True)
print("WRAP lines written:", [l for l in text.splitlines() if l.startswith("WRAP")])
print("first depth step as written:")
for l in data_lines(text)[:2]:
    print("   ", l)
demonstrated = False
for engine in ENGINES:
    try:
        back = lasio.read(text, engine=engine)
        shape = back.data.shape
        same = shape == las.data.shape and np.allclose(back.data, las.data)
        print("  read back (engine=%s): %d curves, data shape %s, equal to original: %s"
              % (engine, len(back.curves), shape, same))
        print("     C0 =", back.curves[0].data, " C7 =", back.curves[7].data)
        demonstrated = demonstrated or not same
    except Exception as exc:  # noqa
        print("  read back (engine=%s) raised %s" % (engine, str(exc).splitlines()[-1]))
        demonstrated = True
print(
    "required: 14 curves x 3 rows, same values (curve counts that are a multiple of\n"
    "          the fields per wrapped line are named in the quantifier)\n"
    "lasio:    6 rows; curves 0-6 hold two half-steps each, curves 7-13 are all NaN\n"
    "          ('WRAP' in self.version is False when the items are WRAP:1, WRAP:2, so\n"
    "           the sniffed 7 columns are used: the defect fixed by 84f08b8 is back)"
)
record("V3 WRAP line twice: wrapped file reshaped to the values-per-line count", demonstrated)

# ---------------------------------------------------------------------------
# V4  NULL description containing a colon -> NULL is read back as text, the
#     NaN samples come back as the number -9999.25
# ---------------------------------------------------------------------------
banner("V4  NULL item whose description contains a colon")
las = two_curves([1.5, np.nan, 3.5])
las.well["NULL"].descr = "NULL VALUE (note: absent reading)"
demonstrated = False
for version in (1.2, 2):
    text = write_text(las, version=version)
    print("version=%s NULL line written: %r" % (version, [l for l in text.splitlines() if l.startswith("NULL")][0]))
    for engine in ENGINES:
        back = lasio.read(text, engine=engine)
        print("  read back (engine=%s): A = %s   NULL value read = %r"
              % (engine, back["A"], back.well["NULL"].value))
        demonstrated = demonstrated or not np.isnan(back["A"][1])
print(
    "required: A[1] comes back as NaN through the NULL marker\n"
    "lasio:    the header line is split at its LAST colon, NULL becomes the text\n"
    "          '-9999.25 : NULL VALUE (note', nothing is replaced, A[1] = -9999.25\n"
    "          (root cause shared with the known 'colon in a header field' findings;\n"
    "           the loss of every NaN of the file is the C01 consequence)"
)
record("V4 colon in the NULL description: NaN samples come back as -9999.25", demonstrated)

# ---------------------------------------------------------------------------
# V5  largest finite doubles: the printed text rounds up beyond DBL_MAX
# ---------------------------------------------------------------------------
banner("V5  finite samples at the top of the float64 range come back as inf")
big = np.finfo(float).max
demonstrated = False
for sample, fmt in ((big, "%.3e"), (big, "%.10g"), (1.6e308, "%.0e"), (-big, "%.4g")):
    las = two_curves([1.0, sample, 3.0])
    text = write_text(las, fmt=fmt)
    for engine in ENGINES:
        back = lasio.read(text, engine=engine)["A"]
        print("  sample %r fmt %r written %r -> read back (engine=%s) %r"
              % (sample, fmt, data_lines(text)[1].split()[1], engine, back[1]))
        demonstrated = demonstrated or not np.isfinite(back[1])
print(
    "required: a finite sample is recovered to within half a unit of the last digit\n"
    "          printed ('float64 samples over the whole magnitude range')\n"
    "lasio:    inf (the text is correct to half a unit, but it names a number above\n"
    "          the largest double; inherent to decimal rounding - probably a limit\n"
    "          the statement should carry rather than a lasio defect)"
)
record("V5 samples within a rounding step of DBL_MAX are read back as inf", demonstrated)

# ---------------------------------------------------------------------------
# Not counted: header-deficient LASFiles for which write() raises before any
# data are written (shown for the record, see HUNT_C01.md 'borderline')
# ---------------------------------------------------------------------------
banner("INFO (not counted)  LASFiles read from lasio's own example files that write() refuses")
examples = os.path.join(os.path.dirname(os.path.abspath(__file__)), "tests", "examples")
for name in ("missing_wrap.las", "missing_vers.las", "duplicate_step.las", "sample_TVD.las"):
    path = os.path.join(examples, name)
    if not os.path.exists(path):
        continue
    las = lasio.read(path)
    try:
        write_text(las)
        print("  %-20s write() ok" % name)
    except Exception as exc:  # noqa
        print("  %-20s write() raised %s: %s" % (name, type(exc).__name__, str(exc)[:60]))

banner("SUMMARY")
for v in violations:
    print("  violation:", v)
for v in not_reproduced:
    print("  not reproduced:", v)
print("%d violation(s) demonstrated" % len(violations))
sys.exit(1 if violations else 0)
