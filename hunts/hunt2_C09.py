#!/usr/bin/env python
"""Hunt on property C09 (reading is invariant under presentation-only changes).

Run with:  /venv/bin/python /tmp/hunt2-C09/hunt_C09.py

Each case reads a base text and a variant that differs from it only in the
presentation (amount of blanks/tabs between the fields of a header line) and
compares the header items and the curve data.  Exit status 1 if at least one
violation is demonstrated, 0 otherwise.
"""
import logging
import math
import os
import sys

sys.path.insert(0, os.path.dirname(os.path.abspath(__file__)))

import numpy as np  # noqa: E402

import lasio  # noqa: E402
from lasio.las_items import SectionItems  # noqa: E402

logging.disable(logging.CRITICAL)


def _value(v):
    if isinstance(v, (float, np.floating)):
        return ("f", "nan") if math.isnan(v) else ("f", float(v))
    if isinstance(v, (int, np.integer)):
        return ("i", int(v))
    return (type(v).__name__, v)


def signature(las):
    """Header items of every section + curve data, in a comparable form."""
    sig = {}
    for name, section in las.sections.items():
        if isinstance(section, SectionItems):
            sig[name] = [
                (i.mnemonic, i.original_mnemonic, i.unit, _value(i.value), i.descr)
                for i in section
            ]
    data = []
    for curve in las.curves:
        if curve.data.dtype.kind == "f":
            data.append(
                ["nan" if math.isnan(x) else float(x) for x in curve.data.tolist()]
            )
        else:
            data.append([str(x) for x in curve.data.tolist()])
    sig["~A"] = data
    return sig


def differences(sig_a, sig_b):
    out = []
    for key in sig_a:
        a, b = sig_a[key], sig_b.get(key)
        if a == b:
            continue
        if b is None or len(a) != len(b):
            out.append("%s: %r  !=  %r" % (key, a, b))
            continue
        for x, y in zip(a, b):
            if x != y:
                out.append("%s: %r  !=  %r" % (key, x, y))
    return out


def show(text):
    for line in text.split("\n"):
        print("      | " + line.replace("\t", "<TAB>").replace("\r", "<CR>"))


def case(label, clause, base, variant, changed_line_marker):
    print("=" * 78)
    print(label)
    print("  clause: " + clause)
    print("  base text (only the line(s) that differ are shown):")
    pairs = [(a, b) for a, b in zip(base.split("\n"), variant.split("\n")) if a != b]
    show("\n".join(a for a, b in pairs))
    print("  variant text:")
    show("\n".join(b for a, b in pairs))
    try:
        sig_a = signature(lasio.read(base))
        sig_b = signature(lasio.read(variant))
        diffs = differences(sig_a, sig_b)
    except Exception as exc:  # a variant that cannot be read is a violation too
        diffs = ["reading raised %r" % (exc,)]
    print("  property requires: equal header items and equal curve data")
    if diffs:
        print("  lasio: DIFFERENT")
        for d in diffs:
            print("      " + d)
        print("  -> VIOLATION")
    else:
        print("  lasio: equal")
        print("  -> holds")
    return bool(diffs)


TEMPLATE = """~Version
VERS.   2.0 : CWLS LOG ASCII STANDARD - VERSION 2.0
WRAP.   NO  : ONE LINE PER DEPTH STEP
~Well
STRT    ..1IN   120.0 : START INDEX
STOP    ..1IN    96.0 : STOP INDEX
STEP    ..1IN   -12.0 : STEP
NULL.         -999.25 : NULL VALUE
~Curve
%(curve)s
GR    .GAPI       : gamma ray
~Parameter
%(param)s
~ASCII
120.0 55.1
108.0 56.2
 96.0 -999.25
"""

CURVE = " DEPT  ..1IN                                  : depth"
PARAM = "CSGD .M     1500.0 : 20 inch casing shoe: driller depth"

violations = 0

# --------------------------------------------------------------------------
# Case 1a - a tab (instead of / in addition to blanks) between the mnemonic and
# the period that delimits it, in a ~Curve line whose unit starts with a
# period (".1IN", the tenth-of-an-inch depth unit lasio itself knows about).
# --------------------------------------------------------------------------
base = TEMPLATE % {"curve": CURVE, "param": PARAM}
variant = TEMPLATE % {"curve": CURVE.replace("DEPT  ..1IN", "DEPT \t..1IN"), "param": PARAM}
violations += case(
    "CASE 1a: ~Curve line 'DEPT  ..1IN', blanks before the delimiting period -> blank+TAB",
    "changing the amount of blanks/tabs between fields",
    base,
    variant,
    "DEPT",
)

# control: more blanks are fine, so it is really the tab that matters
variant_blanks = TEMPLATE % {"curve": CURVE.replace("DEPT  ..1IN", "DEPT        ..1IN"), "param": PARAM}
assert not differences(signature(lasio.read(base)), signature(lasio.read(variant_blanks)))

# --------------------------------------------------------------------------
# Case 1b - the same on a file of the example corpus.
# --------------------------------------------------------------------------
corpus = os.path.join(
    os.path.dirname(os.path.abspath(__file__)),
    "tests", "examples", "autodepthindex_point_one_inch.las",
)
if os.path.exists(corpus):
    with open(corpus) as f:
        text = f.read()
    assert " DEPT  ..1IN" in text
    violations += case(
        "CASE 1b: tests/examples/autodepthindex_point_one_inch.las, same change (corpus file)",
        "changing the amount of blanks/tabs between fields",
        text,
        text.replace(" DEPT  ..1IN", " DEPT\t..1IN"),
        "DEPT",
    )

# --------------------------------------------------------------------------
# Case 2 - ~Parameter line: the blank between the separating colon and a
# description that starts with two digits 00-59 (or mm/MM) and holds a further
# colon.
# --------------------------------------------------------------------------
variant = TEMPLATE % {
    "curve": CURVE,
    "param": PARAM.replace(": 20 inch", ":20 inch"),
}
violations += case(
    "CASE 2: ~Parameter line, blank after the separating colon removed "
    "(description starts with '20', holds a further colon)",
    "changing the amount of blanks/tabs between fields",
    base,
    variant,
    "CSGD",
)

print("=" * 78)
print("violation cases demonstrated: %d" % violations)
sys.exit(1 if violations else 0)
