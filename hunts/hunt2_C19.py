#!/venv/bin/python
"""Hunt on property C19 (ignore_header_errors makes header parsing tolerant and
non-interfering).

Run with:  /venv/bin/python /tmp/hunt2-C19/hunt_C19.py
Exit status 1 if at least one in-domain violation is demonstrated, else 0.

Both violations live in the layer between the junk and the header parser that
only exists when the file is READ BY PATH: lasio.reader.open_with_codecs()
decides the encoding from a byte sample, and printable-ASCII junk lines in a
header section change what that sample is / what the detector says about it.
The same junk, read from a string (no encoding decision), is harmless: each
case prints that control.
"""
import logging
import os
import shutil
import sys
import tempfile

HERE = os.path.dirname(os.path.abspath(__file__))
sys.path.insert(0, HERE)

import lasio  # noqa: E402
from lasio.exceptions import LASHeaderError  # noqa: E402

logging.disable(logging.CRITICAL)
EX = os.path.join(HERE, "tests", "examples")
TMP = tempfile.mkdtemp(prefix="hunt_C19_", dir=HERE)

violations = []


def items(las):
    out = {}
    for name, sect in las.sections.items():
        if isinstance(sect, str):
            continue
        out[name] = [
            (i.original_mnemonic, i.unit, repr(i.value), i.descr) for i in sect
        ]
    return out


def is_subsequence(small, big):
    it = iter(big)
    return all(any(x == y for y in it) for x in small)


def insert_after_title(text, title_prefix, junk_lines):
    """Put junk_lines right after the first section title that starts with
    title_prefix (case-insensitive)."""
    lines = text.split("\n")
    for n, line in enumerate(lines):
        if line.strip().upper().startswith(title_prefix.upper()):
            return "\n".join(lines[: n + 1] + list(junk_lines) + lines[n + 1:])
    raise ValueError(title_prefix)


def write(name, text, encoding):
    path = os.path.join(TMP, name)
    with open(path, "wb") as f:
        f.write(text.encode(encoding))
    return path


def attempt(ref, **kw):
    try:
        return lasio.read(ref, **kw), None
    except BaseException as exc:  # noqa: BLE001
        return None, exc


def run_case(label, base_text, file_encoding, site, junk_lines, shown_junk):
    print("=" * 78)
    print(label)
    print("-" * 78)
    print("base file encoding on disk :", file_encoding)
    print("insertion site             :", site)
    print("junk                       :", shown_junk)
    assert all(j.isascii() and j.isprintable() for j in junk_lines)
    assert not any(j.strip().startswith("~") for j in junk_lines)
    assert not any(
        k in j.upper() for j in junk_lines for k in ("VERS", "WRAP", "DLM", "NULL")
    )

    base_path = write("base.las", base_text, file_encoding)
    base, exc = attempt(base_path)
    if exc is not None:
        print("SKIPPED: the base file is not readable here (%r): outside the domain"
              % (exc,))
        return
    print("base read by path          : OK, opened as %r, %d curves"
          % (base.encoding, len(base.curves)))

    junked_text = insert_after_title(base_text, site, junk_lines)

    # control: the very same text from a string
    ctrl, exc = attempt(junked_text, ignore_header_errors=True)
    if exc is None:
        same = all(is_subsequence(v, items(ctrl)[k]) for k, v in items(base).items())
        print("control, junked text read from a str, flag on : OK, genuine items kept: %s"
              % same)
    else:
        print("control, junked text read from a str, flag on : raised %r" % (exc,))

    junk_path = write("junked.las", junked_text, file_encoding)
    print("property requires          : read(path, ignore_header_errors=True) does not raise,")
    print("                             genuine items and curve data unchanged;")
    print("                             read(path) raises nothing but LASHeaderError naming the line")
    bad = False
    las, exc = attempt(junk_path, ignore_header_errors=True)
    if exc is not None:
        print("lasio, flag on             : RAISES %r" % (exc,))
        bad = True
    else:
        kept = all(is_subsequence(v, items(las).get(k, [])) for k, v in items(base).items())
        data_same = len(las.curves) == len(base.curves) and all(
            a.data.tobytes() == b.data.tobytes() for a, b in zip(las.curves, base.curves)
        )
        print("lasio, flag on             : no exception, opened as %r, genuine items kept: %s, data same: %s"
              % (las.encoding, kept, data_same))
        if not (kept and data_same):
            bad = True
    las, exc = attempt(junk_path)
    if exc is None:
        print("lasio, flag off            : no exception")
    elif isinstance(exc, LASHeaderError):
        print("lasio, flag off            : LASHeaderError %s" % (exc,))
    else:
        print("lasio, flag off            : RAISES %r (not a LASHeaderError)" % (exc,))
        bad = True
    if bad:
        print("==> VIOLATION")
        violations.append(label)
    else:
        print("==> property holds for this case")


def main():
    # ------------------------------------------------------------------ V1
    # UTF-16 without BOM (lasio's own tests/examples/encodings_utf16be.las,
    # which lasio reads by path). First non-ASCII character: U+00BA.
    with open(os.path.join(EX, "encodings_utf16be.las"), "rb") as f:
        be_text = f.read().decode("utf-16-be").replace("\r\n", "\n")

    run_case(
        "V1a  UTF-16-BE base without BOM + 30 junk lines of 79 'x' in ~V "
        "(junk pushes the first non-ASCII byte past the 4000-byte sample)",
        be_text, "utf-16-be", "~V", ["x" * 79] * 30, "30 x " + repr("x" * 79),
    )
    run_case(
        "V1b  same base, ONE very long junk line (2100 characters) in ~V",
        be_text, "utf-16-be", "~V", ["junk " * 420], "1 x " + repr("junk " * 3) + "... (2100 chars)",
    )
    # a more ordinary layout: the only non-ASCII text is the unit of a ~P item
    # and a curve name; junk goes into ~W
    plain = be_text.replace("~WELL ºᶟᵌᴬń BLOCK", "~WELL INFORMATION BLOCK")
    plain = plain.replace("#MNEM.ºᶟᵌᴬń", "#MNEM.UNIT")
    run_case(
        "V1c  UTF-16-BE base whose first non-ASCII text is in ~C/~P + 30 junk lines in ~W",
        plain, "utf-16-be", "~W", ["? junk ? " * 8] * 30, "30 x " + repr("? junk ? " * 8),
    )

    # ------------------------------------------------------------------ V2
    # 8-bit base (lasio's own tests/examples/encodings_cp1252.las, which lasio
    # reads by path). Not valid UTF-8, so the detector is asked - and believes
    # what one ASCII junk line says.
    with open(os.path.join(EX, "encodings_cp1252.las"), "rb") as f:
        cp_text = f.read().decode("cp1252").replace("\r\n", "\n")

    run_case(
        "V2a  cp1252 base + ONE junk line 'abc ~{AB~} ghi' in ~W "
        "(detector answers HZ-GB-2312 although the file has bytes > 0x7F)",
        cp_text, "cp1252", "~W", ["abc ~{AB~} ghi"], repr("abc ~{AB~} ghi"),
    )
    run_case(
        "V2b  cp1252 base + ONE junk line '<meta charset=cp500>' in ~P "
        "(detector honours the 'declaration': EBCDIC)",
        cp_text, "cp1252", "~P", ["<meta charset=cp500>"], repr("<meta charset=cp500>"),
    )
    run_case(
        "V2c  cp1252 base + ONE junk line 'x <meta charset=\"utf-16le\"> y' in ~V",
        cp_text, "cp1252", "~V", ['x <meta charset="utf-16le"> y'], repr('x <meta charset="utf-16le"> y'),
    )

    print("=" * 78)
    print("cases demonstrating a violation: %d" % len(violations))
    for v in violations:
        print("  -", v.split("  ")[0], v.split("  ", 1)[1][:90])
    # V1a-c are one defect, V2a-c another
    kinds = sorted({v[:2] for v in violations})
    print("distinct violations: %d %s" % (len(kinds), kinds))
    return 1 if violations else 0


if __name__ == "__main__":
    try:
        status = main()
    finally:
        shutil.rmtree(TMP, ignore_errors=True)
    sys.exit(status)
