#!/venv/bin/python
"""hunt_C11.py - demonstrations that PROPERTY C11 ("lasio's own output is a
fixed point of read->write") does not hold on the unmodified code.

Every case prints: the input, what C11 requires, and what lasio does.
Exit status 1 when at least one violation is demonstrated, 0 otherwise.

Run:  /venv/bin/python /tmp/hunt-C11/hunt_C11.py
"""
import sys

sys.path.insert(0, "/tmp/hunt-C11")

import io
import logging
import math
import os
import shutil
import tempfile
import warnings

import numpy as np

import lasio

logging.disable(logging.CRITICAL)
warnings.simplefilter("ignore")

HERE = "/tmp/hunt-C11"


# --------------------------------------------------------------------------
# the property, as an executable check
# --------------------------------------------------------------------------
def write_text(las, **opts):
    s = io.StringIO()
    las.write(s, **opts)
    return s.getvalue()


def _num(x):
    return isinstance(x, (int, float, np.integer, np.floating)) and not isinstance(
        x, bool
    )


def _valeq(a, b):
    """header values: numbers are compared numerically"""
    if _num(a) and _num(b):
        a, b = float(a), float(b)
        return (math.isnan(a) and math.isnan(b)) or a == b
    if _num(a) != _num(b):
        return False
    return a == b


def snapshot(las):
    items = []
    for secname, sec in las.sections.items():
        if isinstance(sec, str):
            items.append((secname, "<text>", sec))
        else:
            for it in sec:
                items.append(
                    (secname, it.mnemonic, it.original_mnemonic, it.unit, it.value, it.descr)
                )
    return items, [np.asarray(c.data) for c in las.curves]


def differences(s1, s2):
    out = []
    (i1, d1), (i2, d2) = s1, s2
    if len(i1) != len(i2):
        out.append("number of header items: %d -> %d" % (len(i1), len(i2)))
    for a, b in zip(i1, i2):
        if a[1] == "<text>" or b[1] == "<text>":
            if a != b:
                out.append("%r -> %r" % (a, b))
        elif a[:4] != b[:4] or a[5] != b[5] or not _valeq(a[4], b[4]):
            out.append("%r -> %r" % (a, b))
    if len(d1) != len(d2):
        out.append("number of curves: %d -> %d" % (len(d1), len(d2)))
    for k, (a, b) in enumerate(zip(d1, d2)):
        if a.shape != b.shape:
            out.append("curve %d shape %s -> %s" % (k, a.shape, b.shape))
        elif a.dtype.kind != b.dtype.kind:
            out.append("curve %d dtype %s -> %s" % (k, a.dtype, b.dtype))
        elif a.dtype.kind == "f":
            if not np.array_equal(a, b, equal_nan=True):
                out.append("curve %d data differ" % k)
        elif not np.array_equal(a, b):
            out.append("curve %d data differ" % k)
    return out


def check_c11(src, wopts=None, cycles=3):
    """Returns (in_domain, violated, message, texts).

    in_domain is False when lasio cannot read *src* or cannot write it.
    The first written text is texts[0]; re-read n is read(texts[n-1]).
    """
    wopts = wopts or {}
    try:
        las0 = lasio.read(src)
        texts = [write_text(las0, **wopts)]
    except Exception as e:  # not readable / not writable: outside the domain
        return False, False, "outside the domain: %r" % e, []
    snaps = []
    for n in range(1, cycles + 1):
        try:
            las = lasio.read(texts[-1])
        except Exception as e:
            return True, True, "re-read %d of lasio's own output FAILS: %s" % (
                n, str(e).strip().splitlines()[-1]), texts
        snaps.append(snapshot(las))
        if n > 1:
            d = differences(snaps[0], snaps[-1])
            if d:
                return True, True, "re-read 1 != re-read %d: %s" % (n, "; ".join(d[:3])), texts
        try:
            texts.append(write_text(las, **wopts))
        except Exception as e:
            return True, True, "write %d of a re-read file FAILS: %r" % (n + 1, e), texts
    return True, False, "fixed point reached at re-read 1", texts


# --------------------------------------------------------------------------
# helpers to build inputs
# --------------------------------------------------------------------------
BASE = """~Version
VERS. 2.0 : CWLS LOG ASCII STANDARD - VERSION 2.0
WRAP. NO  : ONE LINE PER DEPTH STEP
~Well
STRT.M   1.0 : START
STOP.M   3.0 : STOP
STEP.M   1.0 : STEP
NULL. -999.25 : NULL VALUE
~Curves
{c0}
{c1}
{c2}
~Params
~Other
~ASCII
{data}
"""


def mk(c0="DEPT.M : depth", c1="GR.API : gamma ray", c2="TXT. : remark",
       data="1.0 2.0 abc\n2.0 3.0 def\n3.0 4.0 ghi"):
    return BASE.format(c0=c0, c1=c1, c2=c2, data=data)


RESULTS = []


def report(label, title, src_show, requires, wopts, in_domain, violated, msg, extra=None):
    print("=" * 78)
    print("CASE %s: %s" % (label, title))
    print("-" * 78)
    print("input (relevant part):")
    for line in src_show.rstrip("\n").split("\n"):
        print("    | " + line)
    print("writer options: %r" % (wopts or {}))
    print("C11 requires : " + requires)
    print("lasio does   : " + msg)
    if extra:
        for line in extra:
            print("               " + line)
    verdict = "VIOLATION DEMONSTRATED" if (in_domain and violated) else (
        "not reproduced" if in_domain else "OUTSIDE DOMAIN")
    print("verdict      : " + verdict)
    RESULTS.append((label, title, in_domain and violated))


def run_text_case(label, title, src, wopts, requires, show=None, extra_fn=None):
    in_domain, violated, msg, texts = check_c11(src, wopts)
    extra = extra_fn(texts) if (extra_fn and texts) else None
    report(label, title, show if show is not None else src, requires, wopts,
           in_domain, violated, msg, extra)


def grep_lines(text, *needles):
    return [l for l in text.split("\n") if any(n in l for n in needles)]


# ==========================================================================
# A. NEW mechanisms
# ==========================================================================

# A1 ------------------------------------------------------------------------
def case_A1():
    """files on disk: a non-ASCII character after the first 4000 bytes"""
    tmp = tempfile.mkdtemp(prefix="hunt_c11_", dir=HERE)
    try:
        src = open(os.path.join(HERE, "tests", "examples", "sample.las")).read()
        filler = "".join(
            "P%03d .        %d : filler parameter number %d\n" % (i, i, i) for i in range(120)
        )
        src = src.replace("~Other", filler + "BHT2 .degC   35.5 : temp 35°C\n~Other")
        p = os.path.join(tmp, "in.las")
        with open(p, "w", encoding="utf-8") as f:
            f.write(src)
        pos = open(p, "rb").read().index("°".encode("utf-8"))
        try:
            las = lasio.read(p)
            seq = [(las.encoding, las.params.BHT2.descr)]
            for n in range(1, 5):
                q = os.path.join(tmp, "cycle%d.las" % n)
                las.write(q)  # file name: lasio opens it itself
                las = lasio.read(q)
                seq.append((las.encoding, las.params.BHT2.descr))
            in_domain = True
        except Exception as e:
            in_domain, seq = False, [("error", repr(e))]
        violated = in_domain and not (seq[1][1] == seq[2][1] == seq[3][1] == seq[4][1])
        msg = "description of BHT2 after re-read 1..4 has %s characters" % (
            ", ".join(str(len(s[1])) for s in seq[1:]))
        extra = ["read %d: encoding=%s descr=%r" % (i, e, d[:40] + ("..." if len(d) > 40 else ""))
                 for i, (e, d) in enumerate(seq)]
        report(
            "A1", "on disk, a non-ASCII character beyond the 4000-byte detection "
            "window is replaced by U+FFFD, and the U+FFFDs triple on every cycle",
            "tests/examples/sample.las + 120 filler parameters +\n"
            "BHT2 .degC   35.5 : temp 35°C      (UTF-8 file; the degree sign is at byte %d)" % pos,
            "the description read back after cycle 1 is also read back after cycles 2, 3, 4 "
            "(no growing fields)",
            {"file_ref": "<file name>"}, in_domain, violated, msg, extra)
    finally:
        shutil.rmtree(tmp, ignore_errors=True)


# A2 ------------------------------------------------------------------------
def case_A2():
    src = mk().replace("WRAP. NO  : ONE LINE PER DEPTH STEP",
                       "WRAP. NO  : ONE LINE PER DEPTH STEP\nWRAP. NO  : ONE LINE PER DEPTH STEP")

    def extra(texts):
        out = []
        for n, t in enumerate(texts[:4], 1):
            out.append("written text %d has %d WRAP lines" % (n, len(grep_lines(t, "WRAP"))))
        return out

    run_text_case(
        "A2", "duplicated WRAP line in ~Version + write(wrap=False): one more WRAP item per cycle",
        src, {"wrap": False},
        "the ~Version items of re-read 2 are those of re-read 1",
        show="\n".join(src.split("\n")[:5]), extra_fn=extra)


# A3 ------------------------------------------------------------------------
def case_A3():
    curves = "\n".join("C%d. : c%d" % (i, i) for i in range(1, 6))
    rows = "\n".join("%d.0 1 2 3 4 5 run #%d" % (i, i) for i in (1, 2, 3))
    src = BASE.format(c0="DEPT.M : depth", c1=curves, c2="WHAT. : text\nTAG . : tag", data=rows)

    def extra(texts):
        body = texts[0][texts[0].index("~ASCII"):].split("\n")
        return ["written ~A: " + l for l in body[1:3]]

    run_text_case(
        "A3a", "wrap=True puts a text sample that starts with '#' at the start of a "
        "physical line, where the reader takes it for a comment",
        src, {"wrap": True}, "lasio re-reads its own output (same 3 x 8 table)",
        show=src[src.index("~ASCII"):], extra_fn=extra)
    src2 = src.replace("#", "~")
    run_text_case(
        "A3b", "same with a text sample that starts with '~': it becomes a section title",
        src2, {"wrap": True}, "lasio re-reads its own output (same 3 x 8 table)",
        show=src2[src2.index("~ASCII"):], extra_fn=extra)
    # control: without wrapping both are fixed points
    for s in (src, src2):
        ind, viol, msg, _ = check_c11(s, {})
        print("   control (same input, wrap not requested): %s" % msg)


# A4 ------------------------------------------------------------------------
def case_A4():
    long_tok = "http://example.org/" + "x" * 70
    src = mk(data="1.0 2.0 %s\n2.0 3.0 def\n3.0 4.0 ghi" % long_tok)

    def extra(texts):
        body = texts[0][texts[0].index("~ASCII"):].split("\n")
        return ["written ~A: " + l for l in body[1:4]]

    run_text_case(
        "A4a", "wrap=True: a text sample longer than data_width (79) is cut in two by textwrap",
        src, {"wrap": True}, "lasio re-reads its own output",
        show=src[src.index("~ASCII"):], extra_fn=extra)
    src2 = mk(data="1.0 1e80 5\n2.0 3.0 6\n3.0 4.0 7")
    run_text_case(
        "A4b", "wrap=True: a number whose '%.5f' text is longer than data_width is cut as well",
        src2, {"wrap": True}, "lasio re-reads its own output",
        show=src2[src2.index("~ASCII"):], extra_fn=extra)


# A5 ------------------------------------------------------------------------
def case_A5():
    src = mk(c0="ELEV..M : elevation (mnemonic 'ELEV.', unit M)", c1="GAMMARAY.API : gamma ray")

    def extra(texts):
        return ["written text %d: %s" % (n + 1, grep_lines(t, "ELEV")[0]) for n, t in enumerate(texts[:3])]

    run_text_case(
        "A5", "index-curve mnemonic that ends with a period (read by the double-dot rule) "
        "is padded before the delimiter: mnemonic, unit and value migrate over two cycles",
        src, {}, "curve item 0 of re-read 2 equals curve item 0 of re-read 1",
        show=src[src.index("~Curves"):src.index("~Params")], extra_fn=extra)


# A6 ------------------------------------------------------------------------
def case_A6():
    src = mk(data="1.0 2.0 5\n2.0 NaN 6\n3.0 4.0 7").replace("NULL. -999.25 : NULL VALUE", "NULL.  : NULL VALUE")

    def extra(texts):
        body = texts[0][texts[0].index("~ASCII"):].split("\n")
        return ["written ~A: %r" % l for l in body[1:4]]

    run_text_case(
        "A6", "empty NULL value: a NaN sample is written as nothing at all",
        src, {}, "lasio re-reads its own output",
        show="NULL.  : NULL VALUE\n" + src[src.index("~ASCII"):], extra_fn=extra)


# B3 (quote character) ------------------------------------------------------------------------
def case_B3():
    src = mk(data="1.0 2.0 \"O'Brien\"\n2.0 3.0 Smith\n3.0 4.0 Jones")

    def extra(texts):
        body = texts[0][texts[0].index("~ASCII"):].split("\n")
        return ["written ~A: %r" % l for l in body[1:3]]

    run_text_case(
        "B3", "(same root cause as the recorded 'text samples with blanks are written without "
        "quotes', other trigger) text sample that contains a quote character and no blank",
        src, {}, "lasio re-reads its own output",
        show=src[src.index("~ASCII"):], extra_fn=extra)


# A7 ------------------------------------------------------------------------
def case_A7():
    src = mk(data="1.0 2.0 5\n2.0 3.0 6\nNaN 4.0 7")

    def extra(texts):
        return ["written text %d: %s" % (n + 1, grep_lines(t, "STOP")[0]) for n, t in enumerate(texts[:3])]

    run_text_case(
        "A7", "index whose last sample is NaN: STOP is written as 'nan' next to -999.25 in "
        "the data, and restated as -999.25 one cycle later",
        src, {}, "STOP of re-read 2 equals STOP of re-read 1",
        show=src[src.index("~ASCII"):], extra_fn=extra)


# A8 ------------------------------------------------------------------------
def case_A8():
    src = mk().replace("NULL. -999.25 : NULL VALUE", "NULL. -999.25 : NULL VALUE\nFOO.(((m).).) 5 : odd unit")

    def extra(texts):
        return ["written text %d: %s" % (n + 1, grep_lines(t, "FOO")[0]) for n, t in enumerate(texts[:3])]

    run_text_case(
        "A8", "(contrived) unit with nested brackets and periods: one layer is removed per cycle",
        src, {}, "unit of re-read 2 equals unit of re-read 1",
        show="FOO.(((m).).) 5 : odd unit", extra_fn=extra)


# A9 ------------------------------------------------------------------------
def case_A9():
    src = mk().replace("NULL. -999.25 : NULL VALUE", "NULL. -999.25 : NULL VALUE\nRMK .M see note: : remark")

    def extra(texts):
        return ["written text %d: %s" % (n + 1, grep_lines(t, "RMK")[0]) for n, t in enumerate(texts[:3])]

    run_text_case(
        "A9", "(contrived) ~Well value that ends with a colon, written as version 1.2: "
        "value -> '' -> 0 over two cycles",
        src, {"version": 1.2}, "value of re-read 2 equals value of re-read 1",
        show="RMK .M see note: : remark", extra_fn=extra)


# ==========================================================================
# B. new triggers of root causes that are already recorded
# ==========================================================================
def case_B1():
    src = mk(data="0.1234567 2.0 5\n0.2234567 3.0 6\n0.3234567 4.0 7")
    src = src.replace("STRT.M   1.0", "STRT.M   0.1234567").replace("STOP.M   3.0", "STOP.M   0.3234567")
    src = src.replace("STEP.M   1.0", "STEP.M   0.1")

    def extra(texts):
        return ["written text %d: %s" % (n + 1, " / ".join(x.split(":")[0].strip() for x in grep_lines(t, "STRT", "STOP")))
                for n, t in enumerate(texts[:3])]

    run_text_case(
        "B1", "(same root cause as the recorded 'STOP restated after lossy fmt', but with "
        "DEFAULT options) index with more than 5 decimals, header consistent with it",
        src, {}, "STRT/STOP of re-read 2 equal those of re-read 1",
        show=src[src.index("~Well"):src.index("~Curves")] + src[src.index("~ASCII"):], extra_fn=extra)


def case_B2():
    src = mk(data="1.0 2.5E-3 abc\n2.0 3.5E-3 1-5\n3.0 4.5E-3 ghi")

    def extra(texts):
        body = texts[0][texts[0].index("~ASCII"):].split("\n")
        return ["written ~A: %r" % l for l in body[1:4]]

    run_text_case(
        "B2", "(same heuristic as the recorded 'dates in wrapped output', but unwrapped and "
        "with DEFAULT options) the hyphen on every input line comes from 'E-3'; the "
        "rewritten numbers have none, so the run-on repair comes back and splits '1-5'",
        src, {}, "lasio re-reads its own output",
        show=src[src.index("~ASCII"):], extra_fn=extra)


if __name__ == "__main__":
    for case in (case_A1, case_A2, case_A3, case_A4, case_A5, case_A6, case_A7, case_A8,
                 case_A9, case_B1, case_B2, case_B3):
        try:
            case()
        except Exception as e:  # a demonstration must never hide the others
            print("CASE %s raised %r" % (case.__name__, e))
    print("=" * 78)
    print("SUMMARY")
    n = 0
    for label, title, demonstrated in RESULTS:
        print("  %-4s %-22s %s" % (label, "VIOLATION" if demonstrated else "not reproduced", title[:95]))
        n += bool(demonstrated)
    print("%d violation(s) demonstrated" % n)
    sys.exit(1 if n else 0)
