#!/venv/bin/python
"""Hunt on property C13 (duplicate and blank mnemonics).

Demonstrates, on the unmodified code of /tmp/hunt2-C13, the in-domain
violations found, plus (not counted) a few borderline cases.
Exit status: 1 if at least one violation is demonstrated, 0 otherwise.
"""
import io
import logging
import sys

sys.path.insert(0, "/tmp/hunt2-C13")

import numpy as np  # noqa: E402

import lasio  # noqa: E402
from lasio import HeaderItem, SectionItems  # noqa: E402

assert lasio.__file__.startswith("/tmp/hunt2-C13"), lasio.__file__
logging.disable(logging.CRITICAL)

violations = []


def las_text(version_extra="", well_extra="", curves_extra="", rows=("1 4", "2 5")):
    return (
        "~Version\n"
        " VERS. 2.0 : v\n"
        " WRAP. NO  : w\n" + version_extra + "~Well\n"
        " STRT.M 1 : start\n"
        " STOP.M 2 : stop\n"
        " STEP.M 1 : step\n"
        " NULL. -999.25 : null\n" + well_extra + "~Curve\n"
        " DEPT.M : depth\n"
        " A.u    : a\n" + curves_extra + "~A\n" + "\n".join(rows) + "\n"
    )


def try_write(las, **kwargs):
    buf = io.StringIO()
    try:
        las.write(buf, **kwargs)
    except Exception as exc:  # noqa: BLE001
        return None, exc
    return buf.getvalue(), None


def names(las):
    return {
        title: [(i.mnemonic, i.original_mnemonic) for i in section]
        for title, section in las.sections.items()
        if not isinstance(section, str)
    }


def header(label, title):
    print("=" * 78)
    print("%s: %s" % (label, title))
    print("-" * 78)


# ---------------------------------------------------------------------------
# V1  a duplicated NULL line is NOT "written fine" once a sample is NaN
# ---------------------------------------------------------------------------
header("V1", "duplicated NULL in ~Well + one NaN sample: write() raises KeyError")
text = las_text(well_extra=" NULL. -999.25 : null again\n", curves_extra=" B.u    : b\n")
print("input file (curve B is declared but has no column, so lasio fills it with NaN):")
print(text)
for case in ("upper", "preserve", "lower"):
    las = lasio.read(text, mnemonic_case=case)
    out, exc = try_write(las)
    print("mnemonic_case=%-8s ~Well names %s" % (case, las.well.keys()))
    print("   B data:", las.curves[2].data, "->", "write() OK" if exc is None else "write() raises %r" % exc)
    if exc is not None:
        violations.append("V1 read->write (%s)" % case)
# same thing with a NaN token in the data section, and through the API
las = lasio.read(
    las_text(well_extra=" NULL. -999.25 : null again\n", rows=("1 NaN", "2 5"))
)
out, exc = try_write(las)
print("NaN token in ~A:        ", "write() OK" if exc is None else "write() raises %r" % exc)
las = lasio.LASFile()
las.append_curve("DEPT", [1.0, 2.0])
las.append_curve("A", [np.nan, 3.0])
las.well.append(HeaderItem("NULL", value=-999.25))
out, exc = try_write(las)
print("LASFile() + well.append(NULL):", "write() OK" if exc is None else "write() raises KeyError")
# control: without NaN the same file is written
las = lasio.read(las_text(well_extra=" NULL. -999.25 : null again\n"))
out, exc = try_write(las)
print("control (no NaN sample):", "write() OK" if exc is None else "write() raises %r" % exc)
print(
    "required: originals are what write() emits, duplicates survive the round trip\n"
    "          (the record says 'a duplicated NULL or DLM is written fine');\n"
    "actual  : KeyError from writer.format_data_section_line -> las.well['NULL']"
)

# ---------------------------------------------------------------------------
# V2  the only remaining STRT/STOP/STEP/NULL/VERS/WRAP keeps a stale suffix
#     after its duplicate is deleted; write() cannot find it any more
# ---------------------------------------------------------------------------
header(
    "V2",
    "delete the duplicate of STRT/VERS/WRAP/NULL: the survivor is unique, "
    "but write() still raises",
)
cases = [
    ("WRAP", "Version", dict(version_extra=" WRAP. NO  : w\n"), {}),
    ("VERS", "Version", dict(version_extra=" VERS. 2.0 : v\n"), {}),
    ("VERS", "Version", dict(version_extra=" VERS. 2.0 : v\n"), {"version": 2}),
    ("STRT", "Well", dict(well_extra=" STRT.M 1 : start\n"), {}),
    ("STOP", "Well", dict(well_extra=" STOP.M 2 : stop\n"), {}),
    ("STEP", "Well", dict(well_extra=" STEP.M 1 : step\n"), {}),
    ("NULL", "Well", dict(well_extra=" NULL. -999.25 : n\n", rows=("1 NaN", "2 5")), {}),
]
for name, title, extra, kwargs in cases:
    las = lasio.read(las_text(**extra))
    section = las.sections[title]
    before = section.keys()
    del section[name + ":1"]  # the user repairs the duplicated line
    originals = [i.original_mnemonic for i in section]
    out, exc = try_write(las, **kwargs)
    print(
        "%s: %s -> del '%s:1' -> sessions %s originals %s ; write(%s): %s"
        % (
            title,
            before,
            name,
            section.keys(),
            originals,
            ", ".join("%s=%r" % kv for kv in kwargs.items()),
            "OK" if exc is None else "raises %r" % exc,
        )
    )
    if exc is not None:
        violations.append("V2 %s %s" % (name, kwargs))
print(
    "required: after any sequence of append/insert/delete/replace the originals are\n"
    "          what write() emits (no duplicate is left here, so deviation 2 - 'a\n"
    "          SECOND STRT ...' - does not describe it);\n"
    "actual  : the stale session name 'XXXX:2' (allowed) hides the one and only item\n"
    "          from the writer's plain-name lookups -> KeyError / AttributeError"
)

# ---------------------------------------------------------------------------
# V3  same state, write(wrap=...) : repair f1cb401 is incomplete, a second
#     WRAP item is appended to las.version and written
# ---------------------------------------------------------------------------
header("V3", "sole WRAP with stale suffix: write(wrap=...) appends another WRAP item")
for wrap in (True, False):
    las = lasio.read(las_text(version_extra=" WRAP. NO  : w\n"))
    del las.version["WRAP:1"]
    before = names(las)["Version"]
    out, exc = try_write(las, wrap=wrap)
    after = names(las)["Version"]
    print("before write(wrap=%s): %s" % (wrap, before))
    print("after               : %s" % after)
    if out is not None:
        print("written ~Version:")
        for line in out.split("~Well")[0].splitlines()[1:]:
            print("    " + line)
        again = names(lasio.read(out))["Version"]
        print("read again          : %s" % again)
        if [o for _, o in again] != [o for _, o in before]:
            violations.append("V3 wrap=%s" % wrap)
print(
    "required: the round trip returns the same items (originals VERS, WRAP) with the\n"
    "          same session names;\n"
    "actual  : write() appends a WRAP item to las.version (and to the file), with\n"
    "          wrap=True the file states both 'WRAP NO' and 'WRAP YES'; reading it\n"
    "          back gives WRAP:1, WRAP:2, which write() then refuses (deviation 2)"
)

# ---------------------------------------------------------------------------
# Borderline cases (printed for the record, NOT counted as violations)
# ---------------------------------------------------------------------------
header("B1 (borderline)", "mnemonic_case='lower' groups names that differ after lower()")
for pair in (["ı", "i"], ["ß", "ss"], ["ſ", "s"], ["ς", "σ"]):
    text = las_text(curves_extra="".join(" %s.u : x\n" % n for n in pair), rows=("1 4 5 6", "2 5 6 7"))
    las = lasio.read(text, mnemonic_case="lower")
    print(
        "  names %s -> lower() %s -> sessions %s"
        % (
            [ascii(n) for n in pair],
            [ascii(n.lower()) for n in pair],
            [ascii(k) for k in las.curves.keys()[2:]],
        )
    )
print(
    "  the reader normalises with str.lower() but SectionItems.mnemonic_compare\n"
    "  compares with str.upper(): two names that are different after the\n"
    "  normalisation are numbered as if they shared a name (non-ASCII only)."
)

header("B2 (borderline)", "one item object used twice")
section = SectionItems()
item = HeaderItem("A")
section.append(item)
section.append(item)
print("  append(x); append(x)            ->", section.keys())
one = SectionItems()
one.append(HeaderItem("X"))
one.append(HeaderItem("X"))
two = SectionItems()
two.append(one[1])
two.append(HeaderItem("X"))
print("  item shared by two sections     -> first section", one.keys(), "second", two.keys())

header("B3 (borderline)", "ways into a section that do not renumber")
print("  SectionItems([A, A])            ->", SectionItems([HeaderItem("A"), HeaderItem("A")]).keys())
section = SectionItems([HeaderItem("A"), HeaderItem("B")])
section[0] = HeaderItem("C")
print("  section[0] = HeaderItem('C')    ->", section.keys(), "(appended, position 0 not replaced)")

print("=" * 78)
if violations:
    print("%d demonstrations of 3 in-domain violations (V1, V2, V3):" % len(violations))
    for v in violations:
        print("   ", v)
    sys.exit(1)
print("no violation demonstrated")
sys.exit(0)
