"""Hunt for violations of PROPERTY C01 (numeric curve data survives
write -> read within the printed precision) on the unmodified lasio tree.

Run with:  /venv/bin/python /tmp/hunt-C01/hunt_C01.py

Exit status 1 if at least one in-domain violation is demonstrated, else 0.
Cases labelled BORDERLINE are printed for the record but never counted.
"""
import io
import logging
import os
import re
import sys

sys.path.insert(0, os.path.dirname(os.path.abspath(__file__)))

import numpy as np  # noqa: E402

import lasio  # noqa: E402

logging.disable(logging.CRITICAL)

ENGINES = ("numpy", "normal")


def make_las(columns, names=None, units=None):
    las = lasio.LASFile()
    for j, col in enumerate(columns):
        name = names[j] if names else ("DEPT" if j == 0 else "C%d" % j)
        unit = units[j] if units else ""
        las.append_curve(name, np.array(col, dtype=float), unit=unit)
    return las


def half_unit(fmt, x):
    """Half a unit of the last digit that *fmt* prints for *x*."""
    s = (fmt % x).strip()
    m = re.match(r"^[+-]?(\d+)(?:\.(\d*))?(?:[eE]([+-]\d+))?$", s)
    if not m:
        return None
    return 0.5 * 10.0 ** (int(m.group(3) or 0) - len(m.group(2) or ""))


def roundtrip(las, engine, **write_kwargs):
    buf = io.StringIO()
    las.write(buf, **write_kwargs)
    text = buf.getvalue()
    return text, lasio.read(text, engine=engine)


def compare(las, las2, write_kwargs):
    """Return None if property C01 holds for this round trip, else a message."""
    fmt = write_kwargs.get("fmt", "%.5f")
    column_fmt = write_kwargs.get("column_fmt") or {}
    if len(las2.curves) != len(las.curves):
        return "number of curves %d, expected %d" % (len(las2.curves), len(las.curves))
    got = [c.mnemonic for c in las2.curves]
    want = [c.mnemonic for c in las.curves]
    if got != want:
        return "mnemonics %r, expected %r" % (got, want)
    for j, (a, b) in enumerate(zip(las.curves, las2.curves)):
        if len(a.data) != len(b.data):
            return "column %d has %d rows, expected %d" % (j, len(b.data), len(a.data))
        if b.data.dtype.kind != "f":
            return "column %d came back with dtype %s" % (j, b.data.dtype)
        f = column_fmt.get(j, fmt)
        for i, (x, y) in enumerate(zip(a.data, b.data)):
            if np.isnan(x):
                if not np.isnan(y):
                    return "NaN at [%d,%d] came back as %r" % (i, j, y)
            elif np.isnan(y):
                return "finite %r at [%d,%d] came back as NaN" % (float(x), i, j)
            else:
                t = half_unit(f, x)
                if t is not None and abs(x - y) > t * (1 + 1e-9) + abs(x) * 1e-15:
                    return "%r at [%d,%d] came back as %r; |error| %g > half unit %g of %r" % (
                        float(x), i, j, float(y), abs(x - y), t, f)
    return None


def data_section(text):
    return text[text.rfind("~A"):]


def run_case(label, counted, requirement, las, **write_kwargs):
    print("=" * 78)
    print(("VIOLATION " if counted else "BORDERLINE ") + label)
    print("  input columns  :", [list(map(float, c.data)) for c in las.curves])
    print("  mnemonics/units:", [(c.mnemonic, c.unit) for c in las.curves])
    print("  write options  :", write_kwargs or "(defaults)")
    print("  C01 requires   :", requirement)
    broken = False
    shown = False
    for engine in ENGINES:
        try:
            text, las2 = roundtrip(las, engine, **write_kwargs)
        except Exception as exc:  # noqa: BLE001
            msg = "%s: %s" % (type(exc).__name__, str(exc).strip().splitlines()[-1][:110])
            try:
                buf = io.StringIO()
                las.write(buf, **write_kwargs)
                text = buf.getvalue()
            except Exception:  # noqa: BLE001
                text = ""
            problem = "read raises " + msg
        else:
            problem = compare(las, las2, write_kwargs)
        if not shown and text:
            print("  written ~A section:")
            for line in data_section(text).splitlines()[:8]:
                print("     |" + line[:100] + ("..." if len(line) > 100 else ""))
            shown = True
        print("  lasio does [engine=%-6s]: %s" % (engine, problem or "property holds"))
        broken = broken or bool(problem)
    return broken and counted


def main():
    found = []

    # ----------------------------------------------------------------------
    # V1: wrap=True breaks a number that is wider than data_width in pieces.
    # ----------------------------------------------------------------------
    if run_case(
        "V1a  wrap=True, default fmt '%.5f', default data_width: one sample of 1e80",
        True,
        "2 curves x 1 row, C1[0] == 1e80 within 0.5e-5",
        make_las([[1.0], [1e80]]),
        wrap=True,
    ):
        found.append("V1a")

    if run_case(
        "V1b  same cause, SILENT: pieces of the broken numbers add up to whole rows",
        True,
        "2 curves x 2 rows: [[1, 1e80], [2, -1e80]]",
        make_las([[1.0, 2.0], [1e80, -1e80]]),
        wrap=True,
    ):
        found.append("V1b")

    if run_case(
        "V1c  same cause with everyday values and a narrow data_width=10",
        True,
        "2 curves x 2 rows: [[1, 12345.678], [2, 2.5]]",
        make_las([[1.0, 2.0], [12345.678, 2.5]]),
        wrap=True,
        data_width=10,
    ):
        found.append("V1c")

    # ----------------------------------------------------------------------
    # V2: a finite sample that prints like the NULL marker is read as NaN.
    # ----------------------------------------------------------------------
    if run_case(
        "V2a  finite sample equal to the (default) NULL value -9999.25",
        True,
        "C1[0] == -9999.25 (finite) within 0.5e-5",
        make_las([[1.0, 2.0, 3.0], [-9999.25, 2.5, np.nan]]),
    ):
        found.append("V2a")

    if run_case(
        "V2b  finite sample that only ROUNDS to the NULL text at the printed precision",
        True,
        "C1[0] == -9999.2549 within 0.005 (fmt '%.2f')",
        make_las([[1.0, 2.0, 3.0], [-9999.2549, 2.5, 3.5]]),
        fmt="%.2f",
    ):
        found.append("V2b")

    # ----------------------------------------------------------------------
    # V3: integer conversions truncate, error up to one full unit.
    # ----------------------------------------------------------------------
    if run_case(
        "V3   column_fmt={1: '%d'}: Python's %d truncates a float (1.7 -> '1')",
        True,
        "C1[0] == 1.7 within half a unit (0.5) of the last digit '%d' prints",
        make_las([[1.0, 2.0, 3.0], [1.7, -2.9, 3.2]]),
        column_fmt={1: "%d"},
    ):
        found.append("V3")

    # ----------------------------------------------------------------------
    # Borderline cases: shown, never counted.
    # ----------------------------------------------------------------------
    run_case(
        "B1   spacer='' with len_numeric_field=None: the 'automatic' width is taken from "
        "fmt % pi, not from the data, so a wide value runs into its neighbour",
        False,
        "3 curves x 2 rows",
        make_las([[1.0, 2.0], [123456.5, 2.5], [1.0, 2.0]]),
        spacer="",
    )
    run_case(
        "B2   lower-case mnemonics: lasio.read() upper-cases mnemonics by default",
        False,
        "mnemonics ['DEPT', 'gr']",
        make_las([[1.0, 2.0], [3.0, 4.0]], names=["DEPT", "gr"]),
    )
    run_case(
        "B3   index unit '.1IN' (a depth unit lasio knows): 'DEPT..1IN' is read back as "
        "mnemonic 'DEPT.' with unit '1IN'",
        False,
        "mnemonics ['DEPT', 'A']",
        make_las([[1.0, 2.0], [3.0, 4.0]], names=["DEPT", "A"], units=[".1IN", ""]),
    )
    run_case(
        "B4   a curve mnemonic starting with '#' is read as a comment line; with wrap=True "
        "the reader then reshapes the data into one column too few",
        False,
        "3 curves ['DEPT', '#A', 'B'] x 3 rows",
        make_las([[1.0, 2.0, 3.0], [1.5, 2.5, 3.5], [4.0, 5.0, 6.0]], names=["DEPT", "#A", "B"]),
        wrap=True,
    )

    print("=" * 78)
    if found:
        print("in-domain violations demonstrated: %s" % ", ".join(found))
        return 1
    print("no in-domain violation demonstrated")
    return 0


if __name__ == "__main__":
    sys.exit(main())
