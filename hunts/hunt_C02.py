#!/venv/bin/python
"""Hunt for violations of PROPERTY C02 (fast numpy engine == reference normal engine).

Run:  /venv/bin/python /tmp/hunt-C02/hunt_C02.py            (violation cases + probes)
      /venv/bin/python /tmp/hunt-C02/hunt_C02.py --fuzz 2000  (adds a randomized sweep)

Exit status: 1 if at least one violation is demonstrated, 0 otherwise.
lasio's source is not modified; the script only reads.
"""
import io
import logging
import os
import random
import sys
import tempfile
import warnings

HERE = os.path.dirname(os.path.abspath(__file__))
sys.path.insert(0, HERE)

import numpy as np  # noqa: E402
import lasio  # noqa: E402

assert os.path.abspath(lasio.__file__).startswith(HERE), lasio.__file__
logging.disable(logging.CRITICAL)
warnings.simplefilter("ignore")


# --------------------------------------------------------------------------
# comparison helpers
# --------------------------------------------------------------------------
def snapshot(las):
    curves = []
    for c in las.curves:
        d = np.asarray(c.data)
        payload = d.tobytes() if d.dtype.kind == "f" else repr(d.tolist())
        curves.append((c.mnemonic, c.unit, str(c.value), c.descr, d.dtype.str, d.shape, payload))
    sections = {}
    for k, v in las.sections.items():
        if isinstance(v, str):
            sections[k] = v
        else:
            sections[k] = [(i.mnemonic, i.unit, repr(i.value), i.descr) for i in v]
    return {"curves": curves, "sections": sections}


def read(src, engine):
    try:
        return ("ok", snapshot(lasio.read(src, engine=engine)))
    except Exception as e:  # both engines failing alike is not a differential violation
        return ("exc", type(e).__name__)


def brief(res):
    if res[0] == "exc":
        return "raises " + res[1]
    out = []
    for (mn, _u, _v, _d, dt, shape, payload) in res[1]["curves"]:
        if dt[1] == "f":
            vals = np.frombuffer(payload, dtype=dt).tolist()
        else:
            vals = payload
        out.append("%s %s%s=%s" % (mn, dt, shape, vals))
    return "; ".join(out)


VIOLATIONS = []


def case(label, text, requirement, expect_violation):
    a = read(text, "numpy")
    b = read(text, "normal")
    same = a == b
    print("=" * 78)
    print(label)
    print("input:")
    for line in text.splitlines(True):
        print("    " + repr(line))
    print("property requires :", requirement)
    print("engine='numpy'    :", brief(a))
    print("engine='normal'   :", brief(b))
    if same:
        print("-> engines agree (property holds here)")
    else:
        print("-> ENGINES DISAGREE: VIOLATION of C02")
        VIOLATIONS.append(label)
    if same == expect_violation:
        print("   (note: outcome differs from what this script was written to expect)")


HEAD = (
    "~Version\n"
    " VERS. 3.0 : CWLS LOG ASCII STANDARD\n"
    " WRAP.  NO : ONE LINE PER DEPTH STEP\n"
    "%s"
    "~Well\n"
    " NULL. -999.25 : NULL\n"
    "~Curve\n"
    " DEPT.M : depth\n"
    " GR.GAPI : gamma\n"
    " RHOB.G/C3 : density\n"
    "~ASCII\n"
)

# --------------------------------------------------------------------------
# VIOLATION V1: the header item ~V DLM steers only the reference engine
# --------------------------------------------------------------------------
case(
    "V1a  ~V declares DLM COMMA, data section is blank-separated plain decimals",
    HEAD % " DLM. COMMA : DELIMITER\n" + "1.0 2.0 3.0\n4.0 5.0 6.0\n",
    "identical curves from both engines (3 float curves of 2 values)",
    expect_violation=True,
)
case(
    "V1b  ~V declares DLM TAB, data section is blank-separated plain decimals",
    HEAD % " DLM. TAB : DELIMITER\n" + "1.0 2.0 3.0\n4.0 5.0 6.0\n",
    "identical curves from both engines (3 float curves of 2 values)",
    expect_violation=True,
)
case(
    "V1c  ~V declares DLM COMMA, data section is tab-separated plain decimals, single row",
    HEAD % " DLM. COMMA : DELIMITER\n" + "1.0\t2.0\t3.0",
    "identical curves from both engines (3 float curves of 1 value)",
    expect_violation=True,
)

# --------------------------------------------------------------------------
# Probes that did NOT break the property (kept so the search is reproducible)
# --------------------------------------------------------------------------
print()
print("#" * 78)
print("# probes that are expected to hold")
print("#" * 78)
case("P1  DLM TAB declared truthfully, tabs with blank padding",
     HEAD % " DLM. TAB : DELIMITER\n" + "1.0 \t 2.0\t\t3.0\n 4.0\t5.0\t6.0 \n",
     "identical curves", expect_violation=False)
case("P2  single row, blank + comment as last lines, ~A followed by ~P, CRLF, no final newline",
     (HEAD % "" + "  1 2. .5\n\n# c\n~Parameter\n X.U 1 : x").replace("\n", "\r\n"),
     "identical curves", expect_violation=False)
case("P3  single column, 25 leading blank/comment lines, ~A first in file",
     "~A\n" + "#c\n\n" * 12 + "#\n" + "1\n-2e-3\n+3.E+2\n" + "~V\n VERS. 2.0:\n WRAP. NO:\n~C\n D.M:\n",
     "identical curves", expect_violation=False)
case("P4  NULL equal to data values incl. index column, -0.0, over/underflow",
     HEAD % "" + "-999.25 -999.25 -0.0\n1e400 1e-400 -999.2500\n",
     "identical curves", expect_violation=False)
case("P5  more data columns than curves / fewer data columns than curves",
     HEAD % "" + "1 2 3 4 5\n6 7 8 9 10\n",
     "identical curves", expect_violation=False)


# --------------------------------------------------------------------------
# optional randomized sweep over the quantifier of the property
# --------------------------------------------------------------------------
def rnd_number(r):
    sign = r.choice(["", "", "-", "+"])
    nd = r.choice([1, 3, 17, 25, 60])
    ip = "".join(r.choice("0123456789") for _ in range(r.randint(0, nd)))
    fp = "".join(r.choice("0123456789") for _ in range(r.randint(0, nd)))
    if not ip and not fp:
        ip = "0"
    m = ip if (ip and r.random() < 0.3) else ip + "." + fp
    e = ""
    if r.random() < 0.4:
        e = r.choice("eE") + r.choice(["", "+", "-"]) + "0" * r.choice([0, 0, 3]) + str(r.randint(0, 330))
    if r.random() < 0.1:
        return r.choice(["-999.25", "-999.2500", "-9999.25", "-999", "0", "-0.0"])
    return sign + m + e


def gen(r):
    nrows = r.choice([1, 1, 2, 3, 5, 20, 21, 22, 23, 30])
    ncols = r.choice([1, 1, 2, 3, 4, 7, 40])
    eol = r.choice(["\n", "\r\n"])
    V = [r.choice(["~Version", "~V"]), " VERS. %s : v" % r.choice(["2.0", "1.2", "3.0"]), " WRAP. NO : w"]
    if r.random() < 0.3:
        V.append(" DLM. SPACE : d")
    W = ["~Well", " STRT.M 1 : s", " NULL. %s : n" % r.choice(["-999.25", "-9999.25", "-999", "0"])]
    ncurves = r.choice([ncols, ncols, ncols, max(0, ncols - 1), ncols + 1, 0])
    C = ["~Curves"] + [" C%d.U : d%d" % (i, i) for i in range(ncurves)]
    P = ["~Params", " PA.U 1 : p"]
    O = ["~Other", "some text", "1 2 3"]
    X = ["~Xcustom", " XA.U 1 : p"]
    data = [r.choice(["~A", "~ASCII", "~A  DEPT  GR", "~Ascii log data", "~a", "  ~A"])]

    def junk():
        if r.random() < 0.3:
            return r.choice(["", " ", "\t", "   \t "])
        return r.choice(["#", "# comment", "  # 1 2 3", "#1 2 3", "\t#x", "# ~A", "#~P"])

    dens = r.choice([0, 0, 0.2, 0.5, 2])
    if r.random() < 0.3:
        data += [junk() for _ in range(r.choice([1, 2, 21, 25]))]
    for _ in range(nrows):
        while r.random() < dens / (1 + dens):
            data.append(junk())
        row = r.choice(["", "", " ", "    ", "\t"])
        row += "".join((r.choice([" ", "  ", "\t", " \t", "\t\t", "     "]) if j else "") + rnd_number(r)
                       for j in range(ncols))
        data.append(row + r.choice(["", "", " ", "   ", "\t"]))
    while r.random() < dens / (1 + dens):
        data.append(junk())
    if r.random() < 0.3:
        data.append(junk())
    headers = [V, W, C]
    extra = [s for s in (P, O, X) if r.random() < 0.5]
    layout = r.choice(["last", "followed", "first", "middle"])
    if layout == "last":
        secs = headers + extra + [data]
    elif layout == "followed":
        k = r.randint(0, len(extra))
        secs = headers + extra[:k] + [data] + (extra[k:] or [r.choice([P, O, X])])
    elif layout == "first":
        secs = [data] + headers + extra
    else:
        allh = headers + extra
        k = r.randint(1, len(allh) - 1)
        secs = allh[:k] + [data] + allh[k:]
    pre = r.choice([[], [], [], [""], ["# top comment"]])
    lines = pre + [l for s in secs for l in s]
    return eol.join(lines) + (eol if r.random() < 0.6 else "")


def fuzz(n):
    d = tempfile.mkdtemp(prefix="hunt_C02_")
    p = os.path.join(d, "t.las")
    bad = 0
    for seed in range(n):
        r = random.Random(seed)
        text = gen(r)
        with open(p, "w", newline="") as f:
            f.write(text)
        forms = [("path", lambda: p), ("str", lambda: text), ("fh", lambda: open(p)),
                 ("fh newline=''", lambda: open(p, newline="")), ("StringIO", lambda: io.StringIO(text))]
        for name, mk in forms:
            a = read(mk(), "numpy")
            b = read(mk(), "normal")
            if a != b:
                bad += 1
                print("FUZZ MISMATCH seed=%d form=%s\n%r\n numpy : %s\n normal: %s" % (seed, name, text, brief(a), brief(b)))
                break
    os.remove(p)
    os.rmdir(d)
    print("randomized sweep: %d files x 5 input forms, %d mismatches" % (n, bad))
    if bad:
        VIOLATIONS.append("randomized sweep (%d mismatches)" % bad)


if "--fuzz" in sys.argv:
    print()
    fuzz(int(sys.argv[sys.argv.index("--fuzz") + 1]))

print()
print("#" * 78)
ids = sorted(set(v.split()[0].rstrip("abcdefgh") for v in VIOLATIONS))
print("distinct violations demonstrated: %d %s (%d demonstrating cases)" % (len(ids), ids, len(VIOLATIONS)))
for v in VIOLATIONS:
    print("  - " + v)
sys.exit(1 if VIOLATIONS else 0)
