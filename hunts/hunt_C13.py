#!/usr/bin/env python
"""Hunt for violations of property C13 (duplicate and blank mnemonics: unique
session names, originals preserved) on the unmodified lasio tree.

Run with:  /venv/bin/python /tmp/hunt-C13/hunt_C13.py
Exit status 1 if at least one violation is demonstrated, 0 otherwise.

Every case decides programmatically whether the violation is present, so the
script turns quiet (exit 0) once the code is repaired.
"""
import io
import logging
import os
import sys

sys.path.insert(0, os.path.dirname(os.path.abspath(__file__)))

import lasio  # noqa: E402
from lasio import CurveItem, HeaderItem, LASFile, SectionItems  # noqa: E402

logging.disable(logging.CRITICAL)

VIOLATIONS = []


def report(label, confidence, inp, required, actual, violated):
    print("=" * 78)
    print("CASE %s   [%s]" % (label, confidence))
    print("  input    : %s" % inp)
    print("  required : %s" % required)
    print("  lasio    : %s" % actual)
    print("  -> %s" % ("VIOLATION" if violated else "ok (not reproduced)"))
    if violated:
        VIOLATIONS.append(label)


BASE = """~Version
VERS. 2.0 : v
WRAP. NO  : w
{V}~Well
STRT.M 1 : s
STOP.M 2 : s
STEP.M 1 : s
NULL. -999.25 : n
{W}~Curve
DEPT.M : d
{C}~Parameter
{P}~A
{A}
"""


def make(V="", W="", C="", P="", ncurves=1):
    rows = "\n".join(" ".join(str(10 * r + c) for c in range(ncurves)) for r in (1, 2))
    return BASE.format(V=V, W=W, C=C, P=P, A=rows)


def roundtrip(las, case="preserve", **write_kwargs):
    s = io.StringIO()
    las.write(s, **write_kwargs)
    return s.getvalue(), lasio.read(s.getvalue(), mnemonic_case=case)


# ---------------------------------------------------------------------------
# V1  names that end in ':<digits>' do not survive the file round trip
# ---------------------------------------------------------------------------
def case_v1():
    las = LASFile()
    las.append_curve("DEPT", [1, 2], unit="M")
    las.append_curve("A:2", [5, 6], unit="M", descr="first")
    las.append_curve("A:2", [7, 8], unit="M", descr="second")
    las.params.append(HeaderItem("P:1", "M", 3, "a unique name"))
    before_c = [c.original_mnemonic for c in las.curves]
    before_p = [p.original_mnemonic for p in las.params]
    before_sess = las.curves.keys() + las.params.keys()
    text, l2 = roundtrip(las)
    after_c = [c.original_mnemonic for c in l2.curves]
    after_p = [p.original_mnemonic for p in l2.params]
    after_sess = l2.curves.keys() + l2.params.keys()
    lines = [ln for ln in text.splitlines() if ln.startswith(("A:2", "P:1"))]
    report(
        "V1 colon-names-lost-on-round-trip",
        "in domain: the quantifier names mnemonics ending in ':<digits>', any section",
        "curves originals %r, params originals %r; write() emits %r"
        % (before_c, before_p, lines),
        "write() emits the originals and re-reading gives the same originals and "
        "session names %r" % (before_sess,),
        "after re-read: curve originals %r, param originals %r, sessions %r, "
        "param value %r" % (after_c, after_p, after_sess, l2.params[0].value),
        (before_c, before_p, before_sess) != (after_c, after_p, after_sess),
    )


# ---------------------------------------------------------------------------
# V2  duplicates of the mnemonics the writer looks up by name make write() raise
# ---------------------------------------------------------------------------
def case_v2():
    trials = [
        ("~Well, second STRT line", dict(W="STRT.M 5 : again\n"), "preserve", {}),
        ("~Well, second STOP line", dict(W="STOP.M 5 : again\n"), "preserve", {}),
        ("~Well, second STEP line", dict(W="STEP.M 5 : again\n"), "preserve", {}),
        ("~Version, second VERS line", dict(V="VERS. 2.0 : again\n"), "preserve", {}),
        ("~Version, second WRAP line", dict(V="WRAP. NO : again\n"), "preserve", {}),
        (
            "~Well, 'strt' next to 'STRT' read with mnemonic_case='upper' (the default)",
            dict(W="strt.M 5 : case variant\n"),
            "upper",
            {},
        ),
        (
            "~Well, 'STRT' next to 'strt' read with mnemonic_case='lower'",
            dict(W="strt.M 5 : case variant\n"),
            "lower",
            {},
        ),
    ]
    for what, kw, case, wkw in trials:
        las = lasio.read(make(**kw), mnemonic_case=case)
        sect = las.version if "V" in kw else las.well
        keys = sect.keys()
        try:
            _, l2 = roundtrip(las, case, **wkw)
            sect2 = l2.version if "V" in kw else l2.well
            actual = "round trip ok, sessions %r" % (sect2.keys(),)
            bad = False
        except Exception as exc:  # noqa: BLE001
            actual = "read gives sessions %r; write() raises %s: %s" % (
                keys,
                type(exc).__name__,
                str(exc)[:70],
            )
            bad = True
        report(
            "V2 write-raises-on-duplicate: " + what,
            "in domain: any multiset of mnemonics in any section, file round trip",
            what,
            "duplicates survive a round trip and receive the same session names again",
            actual,
            bad,
        )
    # the same from the object side: one append, no file involved at first
    las = LASFile()
    las.append_curve("DEPT", [1, 2], unit="M")
    las.well.append(HeaderItem("STRT", "M", 5, "appended duplicate"))
    try:
        roundtrip(las)
        actual, bad = "round trip ok", False
    except Exception as exc:  # noqa: BLE001
        actual = "sessions %r; write() raises %s: %s" % (
            las.well.keys()[:4] + ["..."] + las.well.keys()[-1:],
            type(exc).__name__,
            str(exc)[:60],
        )
        bad = True
    report(
        "V2 write-raises-on-duplicate: LASFile().well.append(HeaderItem('STRT'))",
        "in domain: a single append in the ~Well section",
        "default LASFile, append a second STRT to ~Well, then write()",
        "write() emits both STRT lines",
        actual,
        bad,
    )


# ---------------------------------------------------------------------------
# V3  write(wrap=...) with a duplicated WRAP adds a third WRAP item
# ---------------------------------------------------------------------------
def case_v3():
    las = lasio.read(make(V="WRAP. NO : again\n"), mnemonic_case="preserve")
    before = las.version.keys()
    before_orig = [i.original_mnemonic for i in las.version]
    try:
        text, l2 = roundtrip(las, wrap=False)
        after_mem = las.version.keys()
        after_file = [i.original_mnemonic for i in l2.version]
        _, l3 = roundtrip(l2, wrap=False)
        after_file2 = [i.original_mnemonic for i in l3.version]
        bad = after_file != before_orig
        actual = (
            "write(wrap=False) changes the object to %r; the file has originals %r; "
            "one more cycle: %r" % (after_mem, after_file, after_file2)
        )
    except Exception as exc:  # noqa: BLE001
        bad, actual = True, "raises %r" % (exc,)
    report(
        "V3 duplicate WRAP grows on every write(wrap=...)",
        "in domain: duplicates in ~Version, file round trip; wrap is an ordinary write option",
        "~Version with two WRAP lines (sessions %r), las.write(f, wrap=False)" % (before,),
        "the two WRAP items are written, nothing else: originals stay %r" % (before_orig,),
        actual,
        bad,
    )


# ---------------------------------------------------------------------------
# V4  attribute access does not resolve to the item for names of list methods
# ---------------------------------------------------------------------------
def case_v4():
    text = make(C="COUNT.CPS : count rate\nINDEX. : an index\nVALUES. : v\n", ncurves=4)
    for case in ("lower", "upper", "preserve"):
        las = lasio.read(text, mnemonic_case=case)
        wrong = []
        for item in las.curves:
            try:
                got = getattr(las.curves, item.mnemonic)
            except AttributeError as exc:
                got = exc
            if got is not item:
                wrong.append((item.mnemonic, type(got).__name__))
        if case == "lower":
            report(
                "V4 attribute access shadowed by list/SectionItems attributes (read, mnemonic_case='lower')",
                "in domain if ordinary words such as COUNT/INDEX/VALUES/KEYS/ITEMS belong to "
                "the name alphabet; mnemonic_case='lower' is quantified over",
                "curves COUNT, INDEX, VALUES read with mnemonic_case='lower' -> sessions %r"
                % (las.curves.keys(),),
                "section.<session mnemonic> is the item itself, as section['<session mnemonic>'] is",
                "getattr(las.curves, name) is not the item for %r" % (wrong,),
                bool(wrong),
            )
        else:
            print("   (mnemonic_case=%r: wrong attribute results: %r)" % (case, wrong))
    # object side, preserve: a lower-case mnemonic appended by the user
    sec = SectionItems()
    it = HeaderItem("count", value=1)
    sec.append(it)
    got = getattr(sec, "count")
    report(
        "V4 attribute access shadowed (SectionItems().append(HeaderItem('count')))",
        "same condition as above",
        "one append of a lower-case name that is a list method",
        "sec.count is the item (sec['count'] is)",
        "sec.count -> %r; sec['count'] is item: %r" % (got, sec["count"] is it),
        got is not it,
    )


# ---------------------------------------------------------------------------
# V5  after a deletion the stale numbers do not come back from a round trip
# ---------------------------------------------------------------------------
def case_v5():
    text = make(C="A.M : first\nA.M : second\nA.M : third\n", ncurves=4)
    las = lasio.read(text, mnemonic_case="preserve")
    start = las.curves.keys()
    las.delete_curve("A:1")
    before = las.curves.keys()
    before_descr = las.curves["A:2"].descr
    _, l2 = roundtrip(las)
    after = l2.curves.keys()
    after_descr = l2.curves["A:2"].descr if "A:2" in l2.curves else None
    report(
        "V5 session names after delete are not reproduced by a round trip",
        "INTERPRETATION-DEPENDENT: in domain if the last sentence of the statement is read "
        "for every state reachable by append/insert/delete/replace; out of it if renumbering "
        "is only promised 'after each insertion'",
        "read curves %r, delete_curve('A:1') -> %r (A:2 is the curve %r), write, read"
        % (start, before, before_descr),
        "the duplicates receive the same session names again: %r" % (before,),
        "%r; las['A:2'] now is the curve %r" % (after, after_descr),
        before != after,
    )
    # a single survivor keeps a number although its name is unique
    sec = SectionItems()
    sec.append(HeaderItem("A", value=1))
    sec.append(HeaderItem("A", value=2))
    del sec["A:1"]
    sec.append(HeaderItem("B", value=3))
    print(
        "   (related, not counted: append A, append A, del 'A:1', append B -> %r; "
        "the unique A is still called 'A:2')" % (sec.keys(),)
    )


# ---------------------------------------------------------------------------
# Things that hold (sanity, printed only when they fail)
# ---------------------------------------------------------------------------
def sanity():
    import random

    random.seed(13)
    alphabet = ["", " ", "A", "a", "B", "UNKNOWN", "unknown"]
    problems = 0
    for transforms in (False, True):
        for _ in range(1500):
            sec = SectionItems()
            if transforms:
                sec.mnemonic_transforms = True
            for step in range(random.randint(1, 8)):
                op = random.choice(["append", "insert", "delete", "replace"])
                name = random.choice(alphabet)
                if op == "append":
                    sec.append(HeaderItem(name, value=step))
                elif op == "insert":
                    sec.insert(random.randint(0, len(sec)), HeaderItem(name, value=step))
                elif op == "delete" and len(sec):
                    del sec[random.choice(sec.keys())]
                elif op == "replace" and len(sec):
                    sec[random.choice(sec.keys())] = HeaderItem(name, value=step)
                keys = [k.upper() for k in sec.keys()] if transforms else sec.keys()
                if len(set(keys)) != len(keys):
                    problems += 1
                for it in sec:
                    if sec[it.mnemonic] is not it or getattr(sec, it.mnemonic) is not it:
                        problems += 1
    print("=" * 78)
    print(
        "sanity: 3000 random append/insert/delete/replace sequences over %r: "
        "%d distinctness/resolution problems" % (alphabet, problems)
    )
    if problems:
        VIOLATIONS.append("sanity")


if __name__ == "__main__":
    case_v1()
    case_v2()
    case_v3()
    case_v4()
    case_v5()
    sanity()
    print("=" * 78)
    print("%d violating case(s) demonstrated:" % len(VIOLATIONS))
    for v in VIOLATIONS:
        print("  - " + v)
    sys.exit(1 if VIOLATIONS else 0)
