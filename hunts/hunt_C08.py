#!/venv/bin/python
"""Hunt for in-domain violations of property C08 on the unmodified lasio code.

C08: a ~Version/~Well/~Parameter/custom header value becomes a number exactly
when its text is a plain decimal literal (optional sign, digits, optional
fraction with '.' or ',' as the mark, optional exponent) denoting a finite
value; every other text is kept verbatim as a string; API/UWI outside
~Parameter are kept verbatim; ~Curves API codes are never converted.

Exit status: 1 if at least one violation is demonstrated, 0 otherwise.
"""
import logging
import numbers
import os
import sys

sys.path.insert(0, os.path.dirname(os.path.abspath(__file__)))

import lasio  # noqa: E402

logging.disable(logging.CRITICAL)

violations = []


def las_text(body, vers="2.0", curves="~Curve\nDEPT.M : depth\n", data="~A\n1.0\n"):
    return (
        "~Version\nVERS. %s : version\nWRAP. NO : wrap\n" % vers
        + body
        + curves
        + data
    )


def is_number(v):
    return isinstance(v, numbers.Number) and not isinstance(v, bool)


def show(v):
    return "%r (%s)" % (v, type(v).__name__)


def report(label, inp, required, got, violated):
    print("-" * 78)
    print("CASE %s" % label)
    print("  input       : %s" % inp)
    print("  C08 requires: %s" % required)
    print("  lasio does  : %s" % got)
    print("  => %s" % ("VIOLATION" if violated else "ok (no violation)"))
    if violated:
        violations.append(label)


# ---------------------------------------------------------------------------
# V1  '.' and ',' are not the same fraction mark.
#     The statement makes the two marks interchangeable.  lasio accepts a
#     fraction mark with no digits on one side only when the mark is '.'.
#     Whatever the recogniser decides about "5." / ".5" / "1.e5", the twin
#     text with ',' must get the same treatment - it does not.
# ---------------------------------------------------------------------------
pairs = [("5.", "5,"), (".5", ",5"), ("-.5", "-,5"), ("1.e5", "1,e5"), ("+0.", "+0,")]
for section, key in (("~Version", "Version"), ("~Well", "Well"),
                     ("~Parameter", "Parameter"), ("~Xtra", "Xtra")):
    for dot, comma in pairs:
        line = "A.  %s : d\nB.  %s : d\n" % (dot, comma)
        body = line if section == "~Version" else section + "\n" + line
        las = lasio.read(las_text(body))
        sec = las.sections[key]
        a, b = sec["A"].value, sec["B"].value
        same_treatment = (is_number(a) and is_number(b) and float(a) == float(b)) or (
            isinstance(a, str) and isinstance(b, str)
        )
        # keep the output short: every pair for ~Well, the first pair elsewhere
        if section == "~Well" or (dot, comma) == pairs[0]:
            report(
                "V1 [%s] %r vs %r" % (section, dot, comma),
                "%s item values %r and %r" % (section, dot, comma),
                "same decision for both ('.' or ',' is the mark): both numbers "
                "equal to each other, or both kept as text",
                "%s and %s" % (show(a), show(b)),
                not same_treatment,
            )

# ---------------------------------------------------------------------------
# V2  ~Parameter: a value text containing ':' is cut at its first colon and the
#     left part converted, although the line has the ' : ' delimiter after it.
#     The same line in ~Well / ~Version / a custom section keeps the text.
# ---------------------------------------------------------------------------
for text in ("1:600", "1:5", "7:", "3/4:1", "12:75"):
    line = "SCAL.  %s : depth scale\n" % text
    got = {}
    for section, key in (("~Well", "Well"), ("~Parameter", "Parameter")):
        las = lasio.read(las_text(section + "\n" + line))
        it = las.sections[key]["SCAL"]
        got[key] = it
    p = got["Parameter"]
    report(
        "V2 [~Parameter] %r" % text,
        "line %r in ~Parameter" % line.rstrip("\n"),
        "value kept verbatim as the string %r (it is no numeric literal); "
        "~Well gives %s" % (text, show(got["Well"].value)),
        "value %s, descr %r" % (show(p.value), p.descr),
        not (isinstance(p.value, str) and p.value == text),
    )

# ---------------------------------------------------------------------------
# V3  Custom sections whose title starts with C or P are parsed with the
#     ~Curves / ~Parameter rules although they are stored as custom sections.
#     (a) '~C...' custom: numeric literals are never converted.
#     (b) '~P...' custom: API / UWI are converted (leading zeros lost) although
#         the section is not ~Parameter.
# ---------------------------------------------------------------------------
for title in ("~Core_Info", "~Tops"):
    las = lasio.read(las_text(title + "\nNCOR.  5 : number of cores\nLEN.M  1,5 : length\n"))
    sec = las.sections[title[1:]]
    vals = [sec["NCOR"].value, sec["LEN"].value]
    bad = not (is_number(vals[0]) and vals[0] == 5 and is_number(vals[1]) and vals[1] == 1.5)
    report(
        "V3a [custom %s] numeric literals" % title,
        "custom section %s (stored as las.sections[%r]) with values '5' and '1,5'"
        % (title, title[1:]),
        "integer 5 and float 1.5 (plain decimal literals become numbers)",
        ", ".join(show(v) for v in vals),
        bad,
    )
for title in ("~Perf_Info", "~Tops"):
    las = lasio.read(las_text(title + "\nAPI.  0500112345 : api number\nuwi.  007 : uwi\n"),
                     mnemonic_case="preserve")
    sec = las.sections[title[1:]]
    vals = [sec["API"].value, sec["uwi"].value]
    bad = vals != ["0500112345", "007"]
    report(
        "V3b [custom %s] API/UWI" % title,
        "custom section %s (stored as las.sections[%r]) with API 0500112345, uwi 007"
        % (title, title[1:]),
        "'0500112345' and '007' kept verbatim (API/UWI outside ~Parameter)",
        ", ".join(show(v) for v in vals),
        bad,
    )

# ---------------------------------------------------------------------------
# V4  The curve section spelled ~Log_Definition (the LAS 3.0 title that lasio
#     stores as las.curves) has its API codes converted.
# ---------------------------------------------------------------------------
curve_lines = "DEPT.M  : depth\nGR.GAPI  07 : gamma\nNPHI.V/V  1,5 : neutron\n"
for vers in ("2.0", "3.0"):
    for title in ("~Curve", "~Log_Definition"):
        las = lasio.read(las_text("", vers=vers, curves=title + "\n" + curve_lines,
                                  data="~A\n1.0 2.0 3.0\n"))
        vals = [c.value for c in las.curves]
        bad = vals != ["", "07", "1,5"]
        report(
            "V4 [VERS %s, curves title %s]" % (vers, title),
            "curve section %s with API codes '', '07', '1,5' (read into las.curves)" % title,
            "'', '07', '1,5' kept as text (curve API codes are never converted)",
            ", ".join(show(v) for v in vals),
            bad,
        )

print("=" * 78)
if violations:
    print("%d violating case(s) demonstrated:" % len(violations))
    for v in violations:
        print("  - " + v)
    sys.exit(1)
print("no violation demonstrated")
sys.exit(0)
