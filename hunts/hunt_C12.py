#!/usr/bin/env python
"""Bug hunt for property C12 (writer options change presentation only).

Each case reads one LAS input, writes it with two writer configurations whose
numeric formats have the same precision, reads both outputs back and compares
the content (header items apart from VERS/WRAP, ~Other, curve data).

Exit status: 1 if at least one violation is demonstrated, 0 otherwise.
Run with:  /venv/bin/python /tmp/hunt-C12/hunt_C12.py
"""
import io
import logging
import os
import sys
import warnings

sys.path.insert(0, os.path.dirname(os.path.abspath(__file__)))

import numpy as np  # noqa: E402

import lasio  # noqa: E402

logging.disable(logging.CRITICAL)
warnings.simplefilter("ignore")


# --------------------------------------------------------------------------
# helpers
# --------------------------------------------------------------------------
def write(las, **cfg):
    buf = io.StringIO()
    las.write(buf, **cfg)
    return buf.getvalue()


def norm_value(v):
    if isinstance(v, (int, float, np.number)) and not isinstance(v, bool):
        return float(v)
    return repr(v)


def content(las):
    out = {}
    for sec in ("Version", "Well", "Curves", "Parameter"):
        items = []
        for it in las.sections[sec]:
            if sec == "Version" and it.mnemonic in ("VERS", "WRAP"):
                continue
            items.append(
                (it.mnemonic, it.original_mnemonic, it.unit, norm_value(it.value), it.descr)
            )
        out[sec] = items
    out["Other"] = las.sections["Other"]
    data = []
    for c in las.curves:
        vals = []
        for x in c.data.tolist():
            if isinstance(x, str):
                vals.append(x)
            elif x != x:
                vals.append("NaN")
            else:
                vals.append(float(x))
        data.append((c.mnemonic, c.data.dtype.kind, vals))
    out["data"] = data
    return out


def outcome(text, cfg, read_kwargs=None):
    """Read *text*, write with *cfg*, read the output back."""
    las = lasio.read(text, **(read_kwargs or {}))
    try:
        out = write(las, **cfg)
    except Exception as exc:  # noqa: BLE001
        return {"status": "write raised " + repr(exc), "text": None, "content": None}
    try:
        back = lasio.read(out)
    except Exception as exc:  # noqa: BLE001
        return {
            "status": "re-read raised " + repr(exc).splitlines()[0][:150],
            "text": out,
            "content": None,
        }
    return {"status": "ok", "text": out, "content": content(back)}


def tail(text, marker="~A", maxlines=14):
    if text is None:
        return "      (no output)"
    pos = text.find(marker)
    lines = text[pos:].splitlines() if pos >= 0 else text.splitlines()
    shown = ["      | " + l[:110] for l in lines[:maxlines]]
    if len(lines) > maxlines:
        shown.append("      | ...")
    return "\n".join(shown)


def describe_difference(a, b):
    lines = []
    if a["status"] != "ok" or b["status"] != "ok":
        lines.append("      configuration 1: " + a["status"])
        lines.append("      configuration 2: " + b["status"])
        return lines
    for key in a["content"]:
        x, y = a["content"][key], b["content"][key]
        if x == y:
            continue
        if isinstance(x, list):
            if len(x) != len(y):
                lines.append("      %s: %d items vs %d items" % (key, len(x), len(y)))
            for p, q in zip(x, y):
                if p != q:
                    lines.append("      %s 1: %s" % (key, str(p)[:150]))
                    lines.append("      %s 2: %s" % (key, str(q)[:150]))
            for extra in x[len(y):]:
                lines.append("      %s only in 1: %s" % (key, str(extra)[:150]))
            for extra in y[len(x):]:
                lines.append("      %s only in 2: %s" % (key, str(extra)[:150]))
        else:
            lines.append("      %s 1: %r" % (key, x))
            lines.append("      %s 2: %r" % (key, y))
    return lines


VIOLATIONS = []


def case(label, title, text, cfg1, cfg2, requires, marker="~A", read_kwargs=None,
         show_input_from="~A"):
    print("=" * 78)
    print("CASE %s: %s" % (label, title))
    print("-" * 78)
    las = lasio.read(text, **(read_kwargs or {}))  # the input must be readable
    print("  input (readable by lasio.read%s), from %r:" % (
        "" if not read_kwargs else " with %r" % read_kwargs, show_input_from))
    print(tail(text, show_input_from, 12))
    print("  as read: " + "; ".join(
        "%s=%s" % (c.mnemonic, str(c.data.tolist())[:60]) for c in las.curves))
    print("  configuration 1: write(%s)" % ", ".join("%s=%r" % kv for kv in cfg1.items()))
    print("  configuration 2: write(%s)" % ", ".join("%s=%r" % kv for kv in cfg2.items()))
    print("  property requires: " + requires)
    a = outcome(text, cfg1, read_kwargs)
    b = outcome(text, cfg2, read_kwargs)
    print("  output 1 (from %r):" % marker)
    print(tail(a["text"], marker))
    print("  output 2 (from %r):" % marker)
    print(tail(b["text"], marker))
    violated = (a["status"] != "ok" or b["status"] != "ok" or a["content"] != b["content"])
    if a["status"] != "ok" and a["status"] == b["status"]:
        violated = False  # both fail in the same way: not a dependence on the options
    print("  what lasio does:")
    if violated:
        for l in describe_difference(a, b):
            print(l)
        print("  ==> VIOLATION %s demonstrated" % label)
        VIOLATIONS.append(label)
    else:
        print("      both outputs re-read to the same content")
        print("  ==> no violation (%s)" % label)
    print()


HEAD = """~Version
VERS. 2.0 : CWLS log ASCII Standard -VERSION 2.0
WRAP. %(wrap)s : wrap mode
~Well
STRT.M 1.0 : START
STOP.M 3.0 : STOP
STEP.M 1.0 : STEP
NULL. -999.25 : NULL VALUE
COMP. ACME : COMPANY
~Curve
DEPT.M : depth
GR.API : gamma
%(curves)s~A
"""

# --------------------------------------------------------------------------
# V1a: a text sample that starts with '#' ("#N/A", an Excel artefact).
# The unwrapped output is read by the numpy engine first, and numpy.genfromtxt
# cuts every line at '#': the column silently disappears. The wrapped output
# is read by the normal engine, which keeps the token.
# --------------------------------------------------------------------------
text = HEAD % dict(wrap="YES", curves="QC. : quality flag\n") + (
    "1.0\n10.0 #N/A\n2.0\n20.0 #N/A\n3.0\n30.0 #N/A\n"
)
case(
    "V1a",
    "text sample beginning with '#': wrap on vs wrap off",
    text,
    dict(wrap=True),
    dict(wrap=False),
    "the QC curve re-reads as ['#N/A', '#N/A', '#N/A'] from both outputs",
)

# --------------------------------------------------------------------------
# V1b: same token, both outputs wrapped, only data_width differs. With the
# default width the token is the first word of a physical line, which the
# reader then skips as a comment line.
# --------------------------------------------------------------------------
curves = "".join("C%d. : c%d\n" % (i, i) for i in range(2, 7)) + "QC. : quality flag\nZ. : last\n"
rows = ""
for i in range(1, 4):
    rows += "%d.0\n%d0.0 2 3 4 5 6 #N/A 8\n" % (i, i)
text = HEAD % dict(wrap="YES", curves=curves) + rows
case(
    "V1b",
    "text sample beginning with '#': data_width 79 vs 200 (both wrapped)",
    text,
    dict(wrap=True, data_width=79),
    dict(wrap=True, data_width=200),
    "9 curves x 3 rows, QC == ['#N/A']*3, from both outputs",
)

# --------------------------------------------------------------------------
# V2a: a sample longer than data_width. textwrap.TextWrapper is created with
# the default break_long_words=True, so the wrapped writer cuts the sample in
# two; the reader then counts one value too many per row.
# --------------------------------------------------------------------------
long1, long2, long3 = "A" * 85, "B" * 85, "C" * 85
text = HEAD % dict(wrap="NO", curves="REMARK. : remark\n") + (
    "1.0 10.0 %s\n2.0 20.0 %s\n3.0 30.0 %s\n" % (long1, long2, long3)
)
case(
    "V2a",
    "text sample of 85 characters: wrap on (default data_width) vs wrap off",
    text,
    dict(wrap=True),
    dict(wrap=False),
    "3 rows; REMARK re-reads as the three 85-character strings from both outputs",
)

# --------------------------------------------------------------------------
# V2b: the same with numbers: a formatted number that is wider than data_width.
# --------------------------------------------------------------------------
text = HEAD % dict(wrap="NO", curves="") + "1.0 12345.6789\n2.0 5.0\n3.0 6.0\n"
case(
    "V2b",
    "number wider than data_width: wrap on, data_width=10 vs wrap off",
    text,
    dict(wrap=True, data_width=10),
    dict(wrap=False),
    "GR re-reads as [12345.6789, 5.0, 6.0] from both outputs",
)
text = HEAD % dict(wrap="NO", curves="") + "1.0 1e80\n2.0 5.0\n3.0 6.0\n"
case(
    "V2c",
    "number wider than the DEFAULT data_width (1e80 with %.5f is 87 characters)",
    text,
    dict(wrap=True),
    dict(wrap=False),
    "GR re-reads as [1e80, 5.0, 6.0] from both outputs",
)

# --------------------------------------------------------------------------
# V3: a sample that is only one value because it is quoted in the input. The
# writer never quotes, and the two layouts then fall apart differently: the
# unwrapped output grows a fourth (UNKNOWN) curve, the wrapped output is
# re-shaped into 4 rows of shifted values.
# --------------------------------------------------------------------------
text = HEAD % dict(wrap="NO", curves="LITH. : lithology\n") + (
    '1.0 10.0 "fine sand"\n2.0 20.0 "coarse sand"\n3.0 30.0 "silty shale"\n'
)
case(
    "V3",
    "quoted text sample containing a blank: wrap on vs wrap off",
    text,
    dict(wrap=True),
    dict(wrap=False),
    "the same curves and rows from both outputs (LITH == ['fine sand', ...])",
)

# --------------------------------------------------------------------------
# V4: mnemonics_header=True looks at data row 0 to size the columns; a file
# without data rows cannot be written with it, but can be written without it.
# --------------------------------------------------------------------------
text = HEAD % dict(wrap="NO", curves="")
case(
    "V4",
    "file without data rows: mnemonics_header=True vs False",
    text,
    dict(mnemonics_header=True),
    dict(mnemonics_header=False),
    "two outputs with the same header items and zero data rows",
)

# --------------------------------------------------------------------------
# V5: a ~Well line without mnemonic (lasio names it UNKNOWN). The header
# pattern starts with an optional '.', so when the field that follows the
# unit contains a '.', the text up to that '.' is taken as the mnemonic.
# Which field follows the unit is exactly what the target version decides.
# --------------------------------------------------------------------------
text = (
    "~Version\nVERS. 2.0 : v\nWRAP. NO : w\n~Well\n"
    "STRT.M 1.0 : START\nSTOP.M 3.0 : STOP\nSTEP.M 1.0 : STEP\nNULL. -999.25 : NULL\n"
    " .M 1500 : T.D. LOGGER\n"
    "~Curve\nDEPT.M : depth\nGR.API : gamma\n~A\n1.0 10.0\n2.0 20.0\n3.0 30.0\n"
)
case(
    "V5a",
    "~Well line without mnemonic, 2.0 input: version=1.2 vs version=2.0",
    text,
    dict(version=1.2),
    dict(version=2.0),
    "item UNKNOWN, unit M, value 1500, descr 'T.D. LOGGER' from both outputs",
    marker="~Well",
    show_input_from="~Well",
)
text = (
    "~Version\nVERS. 1.2 : v\nWRAP. NO : w\n~Well\n"
    "STRT.M 1.0 : START\nSTOP.M 3.0 : STOP\nSTEP.M 1.0 : STEP\nNULL. -999.25 : NULL\n"
    " .  COMPANY : ACME INC.\n"
    "~Curve\nDEPT.M : depth\nGR.API : gamma\n~A\n1.0 10.0\n2.0 20.0\n3.0 30.0\n"
)
case(
    "V5b",
    "~Well line without mnemonic, 1.2 input: version=1.2 vs version=2.0",
    text,
    dict(version=1.2),
    dict(version=2.0),
    "item UNKNOWN, value 'ACME INC.', descr 'COMPANY' from both outputs",
    marker="~Well",
    show_input_from="~Well",
)

# --------------------------------------------------------------------------
# V6: the '0' flag of a numeric format pads "inf" with zeros as well
# ("%012.5f" % inf == '000000000inf'), which is no longer a number.
# --------------------------------------------------------------------------
text = HEAD % dict(wrap="NO", curves="") + "1.0 10.0\n2.0 inf\n3.0 30.0\n"
case(
    "V6",
    "infinite sample: fmt='%012.5f' vs fmt='%12.5f' (same precision)",
    text,
    dict(fmt="%012.5f"),
    dict(fmt="%12.5f"),
    "GR re-reads as the numbers [10.0, inf, 30.0] from both outputs",
)

# --------------------------------------------------------------------------
# V7: ~Version section without WRAP (or without VERS) item: the default
# wrap=None / version=None look the item up and raise KeyError, an explicit
# option writes the file. (tests/examples/missing_wrap.las, missing_vers.las)
# --------------------------------------------------------------------------
text = (HEAD % dict(wrap="NO", curves="")).replace("WRAP. NO : wrap mode\n", "") + (
    "1.0 10.0\n2.0 20.0\n3.0 30.0\n"
)
case(
    "V7a",
    "~Version without WRAP item: wrap=None (default) vs wrap=False",
    text,
    dict(),
    dict(wrap=False),
    "two outputs with the same content",
    marker="~Version",
    show_input_from="~Version",
)
text = (HEAD % dict(wrap="NO", curves="")).replace(
    "VERS. 2.0 : CWLS log ASCII Standard -VERSION 2.0\n", ""
) + "1.0 10.0\n2.0 20.0\n3.0 30.0\n"
case(
    "V7b",
    "~Version without VERS item: version=None (default) vs version=2",
    text,
    dict(),
    dict(version=2),
    "two outputs with the same content",
    marker="~Version",
    show_input_from="~Version",
)

print("=" * 78)
print("violations demonstrated: %d  %s" % (len(VIOLATIONS), VIOLATIONS))
sys.exit(1 if VIOLATIONS else 0)
