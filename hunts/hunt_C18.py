#!/venv/bin/python
# -*- coding: utf-8 -*-
"""Bug hunt for property C18 (JSON / CSV / Excel / DataFrame / depth views).

Run with:   /venv/bin/python /tmp/hunt-C18/hunt_C18.py

Every case prints the input, what property C18 requires and what lasio (the
unmodified code of this worktree) does.  Exit status 1 if at least one
violation is demonstrated, 0 otherwise.

Cases V1..V6 are counted as violations (each one carries a confidence tag:
FIRM / LOW-SEVERITY / INTERPRETATION-DEPENDENT, see HUNT_C18.md).
Cases B1.. are borderline observations: shown, never counted.
"""
import sys

sys.path.insert(0, "/tmp/hunt-C18")

import csv
import io
import json
import logging
import os
import tempfile
import warnings

import numpy as np

import lasio
from lasio import exceptions

logging.disable(logging.CRITICAL)
warnings.simplefilter("ignore")

assert lasio.__file__.startswith("/tmp/hunt-C18/"), lasio.__file__

VIOLATIONS = []
TMPDIR = tempfile.mkdtemp(prefix="hunt_C18_tmp_", dir="/tmp/hunt-C18")


def header(tag, title):
    print()
    print("=" * 78)
    print("%s  %s" % (tag, title))
    print("=" * 78)


def verdict(tag, violated, note=""):
    if violated:
        VIOLATIONS.append(tag)
        print("--> %s VIOLATION DEMONSTRATED %s" % (tag, note))
    else:
        print("--> %s not reproduced (property held) %s" % (tag, note))


def strict_loads(text):
    def bad(const):
        raise ValueError("non-strict JSON constant %s" % const)

    return json.loads(text, parse_constant=bad)


LAS_TEMPLATE = """~Version
VERS. 2.0 :
WRAP. NO :
~Well
STRT{strt} 1200.0 : start
STOP{strt} 3600.0 : stop
STEP{strt} 1200.0 : step
NULL. -999.25 :
~Curve
{deptline}
A.  : a
~ASCII
1200.0 10
2400.0 11
3600.0 12
"""


# ---------------------------------------------------------------------------
# V1  depth views: '.1IN' on the first curve, written the way lasio's own
#     writer writes it ("DEPT..1IN"), is not recognised / hides a conflict
# ---------------------------------------------------------------------------
def v1():
    header("V1 [FIRM]", "depth_m/depth_ft: unit '.1IN' on the first curve line 'DEPT..1IN'")
    violated = False

    # (a) only the first curve carries the unit
    text = LAS_TEMPLATE.format(strt=".", deptline="DEPT..1IN : depth")
    las = lasio.read(text)
    print("input (a): STRT/STOP/STEP without unit, first curve line 'DEPT..1IN : depth'")
    print("  required : '.1IN' is in the recognised set -> index_unit '.1IN',")
    print("             depth_ft = index/120, depth_m = depth_ft*0.3048")
    print("  lasio    : first curve read as mnemonic=%r unit=%r ; index_unit=%r"
          % (las.curves[0].mnemonic, las.curves[0].unit, las.index_unit))
    try:
        print("             depth_ft =", las.depth_ft)
    except exceptions.LASUnknownUnitError as e:
        print("             depth_ft raises LASUnknownUnitError(%s)" % e)
        violated = True
    # control: same file, with a blank before the unit dot -> recognised
    las_ok = lasio.read(LAS_TEMPLATE.format(strt=".", deptline="DEPT  ..1IN : depth"))
    print("  control  : 'DEPT  ..1IN : depth' -> unit=%r index_unit=%r depth_ft=%s"
          % (las_ok.curves[0].unit, las_ok.index_unit, las_ok.depth_ft))

    # (b) conflict STRT in feet / first curve in 0.1 in is not detected
    text = LAS_TEMPLATE.format(strt=".F", deptline="DEPT..1IN : depth")
    las = lasio.read(text)
    print("input (b): STRT.F / STOP.F / STEP.F and first curve 'DEPT..1IN : depth' (conflict)")
    print("  required : units conflict -> index_unit undefined (None), depth_* raise")
    print("  lasio    : index_unit=%r" % (las.index_unit,))
    try:
        print("             depth_ft = %s  (tenth-inch counts returned as feet)" % las.depth_ft)
        violated = True
    except exceptions.LASUnknownUnitError:
        print("             depth_ft raises LASUnknownUnitError")
    las_ok = lasio.read(LAS_TEMPLATE.format(strt=".F", deptline="DEPT  ..1IN : depth"))
    print("  control  : with 'DEPT  ..1IN' index_unit=%r (conflict detected)" % (las_ok.index_unit,))

    # (c) lasio's own writer produces the spelling that its reader misreads
    las_ex = lasio.read("/tmp/hunt-C18/tests/examples/autodepthindex_point_one_inch.las")
    buf = io.StringIO()
    las_ex.write(buf)
    line = [l for l in buf.getvalue().splitlines() if l.startswith("DEPT")][0]
    las_back = lasio.read(buf.getvalue())
    print("note (c) : lasio.write() of tests/examples/autodepthindex_point_one_inch.las emits %r;" % line)
    print("           read back: first curve mnemonic=%r unit=%r (was %r / %r)"
          % (las_back.curves[0].mnemonic, las_back.curves[0].unit,
             las_ex.curves[0].mnemonic, las_ex.curves[0].unit))
    verdict("V1", violated)


# ---------------------------------------------------------------------------
# V2  df(): an object-dtype text curve (what set_data_from_df(df()) leaves
#     behind) with number-looking strings is turned into numbers
# ---------------------------------------------------------------------------
def v2():
    header("V2 [FIRM]", "df() after set_data_from_df(df()): text curve '001' becomes 1.0")
    las = lasio.LASFile()
    las.append_curve("DEPT", [1.0, 2.0, 3.0], unit="m")
    las.append_curve("ID", np.array(["001", "002", "7"]))
    print("input    : curves DEPT=[1.,2.,3.] (float), ID=['001','002','7'] (text, dtype %s)"
          % las.curves["ID"].data.dtype)
    df1 = las.df()
    print("  1st df(): ID column =", list(df1["ID"]), "dtype", df1["ID"].dtype, "(correct, text kept)")
    las.set_data_from_df(df1)
    print("  after las.set_data_from_df(las.df()):")
    for c in las.curves:
        print("     curve %-4s dtype=%s data=%r" % (c.mnemonic, c.data.dtype, list(c.data)))
    print("  required : names and values restored (they are: ID still holds the strings),")
    print("             and df() of this LASFile shows the other curves with EQUAL values")
    df2 = las.df()
    print("  lasio    : 2nd df(): ID column =", list(df2["ID"]), "dtype", df2["ID"].dtype)
    curve_vals = list(las.curves["ID"].data)
    violated = list(df2["ID"]) != curve_vals
    print("             curve ID still holds %r -> df() != curve" % curve_vals)

    # the same without set_data_from_df: a user-supplied object array of str
    las2 = lasio.LASFile()
    las2.append_curve("DEPT", [1.0, 2.0])
    las2.append_curve("ID", np.array(["001", "002"], dtype=object))
    print("variant  : append_curve('ID', np.array(['001','002'], dtype=object)) -> df()['ID'] =",
          list(las2.df()["ID"]))
    # side observation
    print("side obs.: after the round trip the float curve DEPT has dtype %s (values equal)"
          % las.curves["DEPT"].data.dtype)
    verdict("V2", violated)


# ---------------------------------------------------------------------------
# V3  to_csv(mnemonics=False, units=True, units_loc='[]' or '()'):
#     the requested units appear nowhere
# ---------------------------------------------------------------------------
def v3():
    header("V3 [INTERPRETATION-DEPENDENT]",
           "to_csv(mnemonics=False, units=True, units_loc='[]'): requested units are dropped")
    las = lasio.LASFile()
    las.append_curve("DEPT", [1.0, 2.0], unit="m")
    las.append_curve("GR", [30.0, np.nan], unit="gAPI")
    violated = False
    for loc in ("[]", "()", "line"):
        buf = io.StringIO()
        las.to_csv(buf, mnemonics=False, units=True, units_loc=loc)
        out = buf.getvalue()
        has_units = ("gAPI" in out)
        print("  units_loc=%-6r -> %r   units present: %s" % (loc, out, has_units))
        if loc != "line" and not has_units:
            violated = True
    print("  required : records 'preceded by the requested mnemonic and unit rows' for every")
    print("             option combination; units=True requests the units")
    print("  lasio    : with units_loc '[]'/'()' the units only decorate the mnemonic row, so")
    print("             without a mnemonic row they are silently lost")
    verdict("V3", violated)


# ---------------------------------------------------------------------------
# V4  to_excel(): text that starts with '=' is stored as a FORMULA
# ---------------------------------------------------------------------------
def v4():
    header("V4 [LOW-SEVERITY]", "to_excel(): text starting with '=' becomes a formula cell")
    import openpyxl

    text = (
        "~V\nVERS. 2.0:\nWRAP. NO:\n~W\nNULL. -999.25:\nCOMP. =ACME+1 : =company\n"
        "~P\nEQ. =RHOB*2 : =x\n~C\nDEPT.M :\nTXT. : =A1\n~A\n1 =B\n2 =C\n"
    )
    las = lasio.read(text)
    print("input    : LAS text with header value '=ACME+1', descr '=company', parameter '=RHOB*2',")
    print("           curve descr '=A1', text curve samples %r" % list(las.curves["TXT"].data))
    fn = os.path.join(TMPDIR, "formula.xlsx")
    las.to_excel(fn)
    wb = openpyxl.load_workbook(fn)
    found = []
    for ws in wb:
        for row in ws.iter_rows():
            for c in row:
                if c.data_type == "f":
                    found.append((ws.title, c.coordinate, c.value))
    print("  required : Header sheet lists the items, Curves sheet holds the same samples (text as text)")
    print("  lasio    : cells stored with data type 'f' (formula; Excel evaluates them -> #NAME?, 2, ...):")
    for f in found:
        print("             %s!%s  %r" % f)
    verdict("V4", bool(found))


# ---------------------------------------------------------------------------
# V5  duplicate mnemonics whose suffix collides with an existing name
# ---------------------------------------------------------------------------
def v5():
    header("V5 [LOW-SEVERITY, contrived mnemonic]",
           "curves 'A','A','A:1': to_json() loses a curve, df() raises")
    las = lasio.LASFile()
    las.append_curve("DEPT", [1.0, 2.0])
    las.append_curve("A", [3.0, 4.0])
    las.append_curve("A", [5.0, 6.0])
    las.append_curve("A:1", [7.0, 8.0])
    print("input    : curves with original mnemonics", [c.original_mnemonic for c in las.curves])
    print("           session mnemonics (keys())     ", las.keys())
    d = strict_loads(las.to_json())
    print("  required : to_json carries every curve sample (4 curves, 8 samples)")
    print("  lasio    : to_json()['data'] =", d["data"])
    lost = len(d["data"]) != len(las.curves)
    try:
        las.df()
        df_fail = False
        print("             df() ok")
    except Exception as e:  # noqa
        df_fail = True
        print("             df() raises %s: %s" % (type(e).__name__, e))
    las2 = lasio.LASFile()
    las2.append_curve("DEPT", [1.0, 2.0])
    las2.append_curve("A", [3.0, 4.0])
    las2.append_curve("A", [5.0, 6.0])
    las2.append_curve("A:1", np.array(["x", "y"]))
    try:
        las2.df()
    except Exception as e:  # noqa
        print("             (with a text 'A:1' curve) df() raises %s: %s" % (type(e).__name__, e))
    verdict("V5", lost or df_fail)


# ---------------------------------------------------------------------------
# V6  to_csv(mnemonics=<true value that is not the object True>)
# ---------------------------------------------------------------------------
def v6():
    header("V6 [INTERPRETATION-DEPENDENT, argument form]",
           "to_csv(mnemonics=numpy.True_) / units=numpy.True_ raise csv.Error")
    las = lasio.LASFile()
    las.append_curve("DEPT", [1.0, 2.0], unit="m")
    las.append_curve("GR", [30.0, 31.0], unit="gAPI")
    violated = False
    for kw in ({"mnemonics": np.True_}, {"units": np.True_}, {"mnemonics": 1}):
        buf = io.StringIO()
        try:
            las.to_csv(buf, **kw)
            print("  to_csv(%r) -> %r" % (kw, buf.getvalue()))
        except Exception as e:  # noqa
            print("  to_csv(%r) raises %s: %s" % (kw, type(e).__name__, e))
            violated = True
    buf = io.StringIO()
    las.to_csv(buf, mnemonics=True, units=True)
    print("  control  : to_csv(mnemonics=True, units=True) -> %r" % buf.getvalue())
    print("  required : mnemonic / unit rows as requested for every option combination")
    print("  lasio    : `mnemonics is True` / `units is True` (las.py:706,708) reject numpy.True_ and 1,")
    print("             which then reach csv.writer.writerow() as if they were lists")
    verdict("V6", violated)


# ---------------------------------------------------------------------------
# Borderline observations (never counted)
# ---------------------------------------------------------------------------
def borderline():
    header("B*", "borderline observations - shown, NOT counted")

    # B1 carriage return in a text curve with the default lineterminator
    las = lasio.LASFile()
    las.append_curve("DEPT", [1.0, 2.0])
    las.append_curve("T", np.array(["a\rb", "c"]))
    buf = io.StringIO(newline="")
    las.to_csv(buf, mnemonics=False, units=False)
    rows = list(csv.reader(io.StringIO(buf.getvalue(), newline="")))
    print("B1 text sample 'a\\rb', default options: csv text %r parses to %d records %r (2 expected;"
          " CPython %d.%d csv does not quote a bare CR when lineterminator='\\n')"
          % (buf.getvalue(), len(rows), rows, sys.version_info[0], sys.version_info[1]))

    # B2 item-level json properties
    c = lasio.CurveItem("X", data=[1.0, np.nan])
    print("B2 CurveItem.json with a NaN sample:", c.json, "(not strict JSON; LASFile.to_json is)")
    try:
        lasio.CurveItem("X", data=[1, 2]).json
    except TypeError as e:
        print("   CurveItem.json with an int64 curve raises TypeError:", e)
    print("   HeaderItem.json with NaN value:", lasio.HeaderItem("X", value=float("nan")).json)

    # B3 inf
    las = lasio.LASFile()
    las.append_curve("DEPT", [1.0, 2.0])
    las.append_curve("A", [np.inf, 5.0])
    print("B3 +inf sample: to_json ->", strict_loads(las.to_json())["data"]["A"],
          "; to_excel -> empty cell (same as NaN)")

    # B4 Excel 16 significant digits
    import openpyxl
    v = 1.9876391469651544
    las = lasio.LASFile()
    las.append_curve("DEPT", [v])
    fn = os.path.join(TMPDIR, "digits.xlsx")
    las.to_excel(fn)
    got = openpyxl.load_workbook(fn)["Curves"]["A2"].value
    print("B4 Excel stores %r as %r (openpyxl writes '%%.16g'): equal=%s" % (v, got, got == v))

    # B5 control characters
    las = lasio.LASFile()
    las.well["COMP"].value = "ACME\x0cCORP"
    try:
        las.to_excel(os.path.join(TMPDIR, "ctrl.xlsx"))
        print("B5 control character in header text: to_excel ok")
    except Exception as e:  # noqa
        print("B5 control character (form feed) in header text: to_excel raises %s" % type(e).__name__)

    # B6 index unit detection happens in read() only
    las = lasio.LASFile()
    las.append_curve("DEPT", [1.0, 2.0], unit="M")
    las.well["STRT"].unit = "M"
    try:
        las.depth_m
        print("B6 API-built LASFile with unit M: depth_m ok")
    except exceptions.LASUnknownUnitError:
        print("B6 API-built LASFile (never read from text) with unit 'M' everywhere: "
              "index_unit=%r, depth_m raises LASUnknownUnitError" % (las.index_unit,))

    # B7 bytes text curve
    las = lasio.LASFile()
    las.append_curve("T", np.array([b"a", b"b"]))
    print("B7 bytes ('S' dtype) text curve: to_json ->", strict_loads(las.to_json())["data"]["T"])

    # B8 units_loc=None / numpy array of mnemonics
    las = lasio.LASFile()
    las.append_curve("DEPT", [1.0], unit="m")
    las.append_curve("A", [2.0], unit="v")
    buf = io.StringIO()
    las.to_csv(buf, units_loc=None)
    print("B8 to_csv(units_loc=None) -> %r (units dropped); " % buf.getvalue(), end="")
    try:
        las.to_csv(io.StringIO(), mnemonics=np.array(["x", "y"]))
        print("numpy array of mnemonics ok")
    except ValueError as e:
        print("mnemonics=np.array([...]) raises ValueError (%s)" % str(e)[:40])

    # B9 float32 next to a text curve
    las = lasio.LASFile()
    las.append_curve("DEPT", np.array([3.3343709], dtype=np.float32))
    las.append_curve("T", np.array(["a"]))
    idx = las.df().index.values[0]
    print("B9 float32 index next to a text curve: df() index %r vs curve value %r equal=%s "
          "(equal once cast back to float32: %s)"
          % (idx, float(las.curves[0].data[0]), idx == las.curves[0].data[0],
             np.float32(idx) == las.curves[0].data[0]))


def main():
    print("lasio under test:", lasio.__file__)
    print("python %s, numpy %s" % (sys.version.split()[0], np.__version__))
    for fn in (v1, v2, v3, v4, v5, v6):
        try:
            fn()
        except Exception:  # a crash in a demo must not hide the others
            import traceback
            traceback.print_exc()
    try:
        borderline()
    except Exception:
        import traceback
        traceback.print_exc()
    print()
    print("=" * 78)
    print("SUMMARY: %d violation case(s) demonstrated: %s" % (len(VIOLATIONS), ", ".join(VIOLATIONS)))
    print("=" * 78)
    import shutil
    shutil.rmtree(TMPDIR, ignore_errors=True)
    return 1 if VIOLATIONS else 0


if __name__ == "__main__":
    sys.exit(main())
